"""C09 — JitAllocator never hands out overlapping, misaligned or corrupted memory.

S2 theorems  : coq/theories/Properties/Properties_C09.v (re-checked by coqc on every run): invariants of the bit-level
               model (coq/theories/Jit/JitModel.v) over ALL histories and configurations.
S3 tie       : harness/c09_harness.cpp drives the REAL JitAllocator of VERIF_REPO's working tree (it #includes
               jitallocator.cpp, so it can print every block's search window / flags / counters after each operation);
               the extracted model (coq/extract/Extract_Jit.v + ml/c09_driver.ml) consumes the SAME command stream.
               Answers are canonical (block serial, byte offset, length, cache digest); python diffs them line by line.
S4 search    : harness/c09_monitor.h — an interval-map / content monitor that only sees public API results (plus the
               block table) — judges EVERY implementation answer: overlap, alignment, size, mapping, rx/rw aliasing,
               contents, statistics, query, foreign pointers, fill pattern, empty-block policy, reuse of free space.
Defects of the pinned tree (fixes/C09-*.patch) are recognised by fixed probe histories; for a defect that is still
present the model runs in the corresponding pinned `variant` and the monitor's reports are keyed `C09/known/<slug>`.
"""
import json
import os
import random
from concurrent.futures import ThreadPoolExecutor

import vlib
import c09_tables

# ------------------------------------------------------------------ options of JitAllocator
DUAL, MULTI, FILL, IMM, NOPAD, LARGE, ALIGNLP, CUSTOM = 1, 2, 4, 8, 0x10, 0x20, 0x40, 0x10000000

# defect slug -> (variant bit of the model that repairs it or None, patch)
DEFECTS = {
    "is-initialized-inverted": (8, "fixes/C09-is-initialized.patch"),
    "full-block-keeps-incremental-flag": (1, "fixes/C09-incremental-flag.patch"),
    "incremental-release-no-empty-flag": (2, "fixes/C09-empty-flag.patch"),
    "reset-keeps-allocation-count": (4, "fixes/C09-reset-allocation-count.patch"),
    "reset-wipes-unused-ranges": (None, "fixes/C09-reset-wipe-fill.patch"),
    "soft-reset-stale-tree-links": (None, "fixes/C09-reset-tree-links.patch"),
    "query-accepts-padding-granule": (16, "fixes/C09-query-padding.patch"),
}

# probe histories: (slug, lines, monitor keys that show the defect)
PROBES = [
    ("is-initialized-inverted", ["H 64 65536 0", "X"], {"not-initialized"}),
    ("full-block-keeps-incremental-flag",
     ["H 64 65536 0", "A 127296", "A 640", "A 2432", "A 640", "R 3", "R 1", "A 960", "X"], {"span-outside-block"}),
    ("full-block-keeps-incremental-flag",
     ["H 64 65536 0"] + ["A 4096"] * 31 + ["A 4032", "R 31", "R 7", "A 4096", "A 4032", "X"], {"reuse-failed"}),
    ("incremental-release-no-empty-flag", ["H 64 65536 8", "A 64", "R 0", "T", "X"], {"empty-blocks-retained"}),
    ("incremental-release-no-empty-flag",
     ["H 64 65536 0", "A 131008", "A 262080", "A 524224", "R 2", "R 1", "R 0", "T", "X"], {"empty-blocks-retained"}),
    ("reset-keeps-allocation-count", ["H 64 65536 0", "A 256", "Z 0", "T", "X"], {"reset-accounting"}),
    ("reset-wipes-unused-ranges", ["H 64 65536 4", "A 256", "W 0", "Z 0", "X"], {"fill-missing"}),
    ("soft-reset-stale-tree-links",
     ["H 64 65536 0", "A 131008", "A 262080", "A 524224", "Z 0", "A 64", "A 131008", "A 64", "X"], {"tree-corrupt", "crash"}),
]

# the padding granule is not a span: query(block base) must be refused (judged directly on the implementation's answer)
PROBES.append(("query-accepts-padding-granule", ["H 64 65536 0", "A 100", "Q 0 -64", "X"], {"query-padding"}))

# monitor key -> defect slugs that can explain it (only when that defect was seen by its probe)
EXPLAINS = {
    "not-initialized": ["is-initialized-inverted"],
    "span-outside-block": ["full-block-keeps-incremental-flag"],
    "span-unmapped": ["full-block-keeps-incremental-flag"],
    "reuse-failed": ["full-block-keeps-incremental-flag"],
    "empty-blocks-retained": ["incremental-release-no-empty-flag"],
    "reset-accounting": ["reset-keeps-allocation-count"],
    "stats-mismatch": ["reset-keeps-allocation-count"],
    "fill-missing": ["reset-wipes-unused-ranges"],
    "tree-corrupt": ["soft-reset-stale-tree-links"],
    "crash": ["soft-reset-stale-tree-links", "full-block-keeps-incremental-flag"],
    "query-padding": ["query-accepts-padding-granule"],
}


# ------------------------------------------------------------------ history generator (symbolic: handles are indices of A ops)
class Hist:
    def __init__(self, g, bs, opt, tag):
        self.g, self.bs, self.opt, self.tag = g, bs, opt, tag
        self.ops = []       # tuples: ("A", size) ("R", a) ("S", a, n) ("Q", a, d) ("W", a) ("F", k) ("Z", k) ("T",) ("D",)

    def lines(self):
        out = ["H %d %d %d" % (self.g, self.bs, self.opt)]
        for o in self.ops:
            out.append(" ".join(str(x) for x in o))
        out.append("X")
        return out


def eff(g, bs):
    g = g if g in (64, 128, 256) else 64
    bs = bs if (65536 <= bs <= 268435456 and bs & (bs - 1) == 0) else 65536
    return g, bs


def gen_random(rng, g, bs, opt, nops, style):
    """Random history. `style` biases sizes/orders towards the case splits of the proofs."""
    h = Hist(g, bs, opt, "random/" + style)
    ge, bse = eff(g, bs)
    pad = 0 if opt & NOPAD else 1
    npools = 3 if opt & MULTI else 1
    first_area_bytes = 2 * bse
    live = []      # [a index, size]
    dead = []
    na = 0
    soft_ok = True

    def size():
        r = rng.random()
        if style == "tiny":
            return rng.choice([1, 63, 64, 65, 127, 128, 129, 255, 256, 257, rng.randint(1, 1024)])
        if style == "words":      # runs that start/end at word boundaries of the bit vector (64 granules)
            k = rng.choice([1, 2, 31, 32, 33, 62, 63, 64, 65, 66, 127, 128, 129, 191, 192])
            return k * ge * rng.choice([1, 1, 1, 2, 4][:npools + 2]) - rng.choice([0, 0, 1, ge - 1])
        if style == "fill":       # chunks that fill the first block exactly
            parts = rng.choice([2, 4, 8, 16, 32])
            return first_area_bytes // parts - (ge * pad if rng.random() < 0.2 else 0)
        if style == "edge":       # block-size boundaries: k * block_size (and the doubling sequence) +- 0..2 granules +- 1 byte
            if r < 0.35:
                return rng.randint(1, 4 * ge)
            k = rng.choice([1, 2, 2, 2, 3, 4, 4, 5, 8])
            return max(1, k * bse + rng.randint(-2, 2) * ge * rng.choice([1, 1, 2, 4][:npools + 1]) + rng.choice([0, 0, 1, -1]))
        if style == "big":
            if r < 0.5:
                return rng.randint(1, 4096)
            if r < 0.8:
                return rng.randint(bse // 2, 2 * bse)
            return rng.randint(2 * bse, 5 * bse)
        # mixed
        if r < 0.55:
            return rng.randint(1, 2048)
        if r < 0.75:
            return rng.randint(1, 64) * ge * rng.choice([1, 2, 4])
        if r < 0.93:
            return rng.randint(2048, bse)
        if r < 0.985:
            return rng.randint(bse, 3 * bse)
        return rng.choice([0, 1 << 31, (1 << 31) - 1, 1 << 40, (1 << 31) - 63])

    order = rng.choice(["random", "lifo", "fifo"]) if style != "mixed" else "random"
    for _ in range(nops):
        r = rng.random()
        if r < 0.42 or not live:
            s = size()
            h.ops.append(("A", s))
            if 0 < s <= (1 << 31) - 64:
                live.append([na, s])
            na += 1
            if len(live) > 400:
                for _ in range(200):
                    a, _s = live.pop(rng.randrange(len(live)))
                    h.ops.append(("R", a)); dead.append(a)
        elif r < 0.72:
            i = {"random": rng.randrange(len(live)), "lifo": len(live) - 1, "fifo": 0}[order if rng.random() < 0.8 else "random"]
            a, _s = live.pop(i)
            h.ops.append(("R", a)); dead.append(a)
        elif r < 0.80:
            i = rng.randrange(len(live)) if rng.random() < 0.7 else len(live) - 1
            a, s = live[i]
            sz = (s + ge - 1) // ge * ge
            n = rng.choice([1, ge, ge + 1, sz // 2, sz - ge, sz, sz - 1, sz + 1, rng.randint(1, max(1, sz)), 0])
            n = max(0, n)
            h.ops.append(("S", a, n))
            if n == 0:
                live.pop(i); dead.append(a)
            elif n <= sz:
                live[i][1] = n
        elif r < 0.86:
            if dead and rng.random() < 0.3:
                h.ops.append(("Q", rng.choice(dead), 0))
            else:
                a, s = rng.choice(live)
                h.ops.append(("Q", a, rng.choice([0, 0, 1, ge - 1, ge, -ge, -1, rng.randrange(0, s)]) if s > ge else rng.choice([0, 0, -ge])))
        elif r < 0.91:
            h.ops.append(("W", rng.choice(live)[0]))
        elif r < 0.95:
            h.ops.append(("T",))
        elif r < 0.965:
            h.ops.append(("F", rng.randrange(4)))
        elif r < 0.98:
            h.ops.append(("D",))
        elif r < 0.984:
            k = rng.randrange(2)
            h.ops.append(("Z", k))
            dead += [a for a, _ in live]; live = []
        else:
            h.ops.append(("T",))
    # release everything at the end (in the history's order) and look at the accounting
    if rng.random() < 0.7:
        while live:
            i = {"random": rng.randrange(len(live)), "lifo": len(live) - 1, "fifo": 0}[order]
            h.ops.append(("R", live.pop(i)[0]))
    h.ops += [("T",), ("D",)]
    return h


def gen_exhaustive(depth, g, bs, opt, small=False, medium=False):
    """All histories of exactly `depth` operations over a small alphabet on the minimum block size."""
    ge, bse = eff(g, bs)
    pad = 0 if opt & NOPAD else 1
    full = 2 * bse - pad * ge
    alpha = [("A", ge), ("A", 2 * ge + 1), ("A", full // 2), ("A", full), ("A", full - ge), ("A", 2 * bse), ("A", 3 * bse),
             ("R", "first"), ("R", "last"), ("S", "last", 1), ("S", "first", ge), ("Z", 0), ("Z", 1)]
    if medium:   # quick tier: 10 letters
        alpha = [x for x in alpha if x not in (("A", full - ge), ("A", 3 * bse), ("S", "first", ge))]
    if small:    # depth-6 alphabet: 7 letters
        alpha = [("A", ge), ("A", full), ("A", 2 * bse), ("R", "first"), ("R", "last"), ("S", "last", 1), ("Z", 0)]
    out = []

    def rec(prefix, live, na):
        if len(prefix) == depth:
            h = Hist(g, bs, opt, "exhaustive/%d%s" % (depth, "s" if small else ""))
            h.ops = list(prefix) + [("T",), ("D",)]
            out.append(h)
            return
        for o in alpha:
            if o[0] == "A":
                rec(prefix + [o], live + [na], na + 1)
            elif o[0] in ("R", "S"):
                if not live:
                    continue
                a = live[0] if o[1] == "first" else live[-1]
                if o[0] == "R":
                    rec(prefix + [("R", a)], [x for x in live if x != a], na)
                else:
                    rec(prefix + [("S", a, o[2])], live, na)
            else:
                rec(prefix + [o], [], na)
    rec([], [], 0)
    return out


def gen_directed(g, bs, opt):
    """Hand-aimed histories: exact fills, then release patterns that exercise every window update."""
    ge, bse = eff(g, bs)
    pad = 0 if opt & NOPAD else 1
    area = 2 * bse // ge
    out = []
    for parts in (4, 32):
        chunk = area // parts
        for pattern in ("last-then-middle", "middle-then-last", "first-then-last", "all-lifo", "all-fifo", "odd-then-even"):
            h = Hist(g, bs, opt, "directed/%s/%d" % (pattern, parts))
            for i in range(parts):
                h.ops.append(("A", (chunk - (pad if i == parts - 1 else 0)) * ge))
            idx = list(range(parts))
            if pattern == "last-then-middle":
                rel = [parts - 1, parts // 4]
            elif pattern == "middle-then-last":
                rel = [parts // 4, parts - 1]
            elif pattern == "first-then-last":
                rel = [0, parts - 1]
            elif pattern == "all-lifo":
                rel = idx[::-1]
            elif pattern == "all-fifo":
                rel = idx
            else:
                rel = idx[1::2] + idx[0::2]
            for a in rel:
                h.ops.append(("R", a))
            h.ops.append(("D",))
            # re-allocate what was released, biggest request last, plus one that fits only in a merged hole
            for a in rel[:8]:
                h.ops.append(("A", (chunk - (pad if a == parts - 1 else 0)) * ge))
            h.ops += [("A", 15 * ge), ("A", ge), ("T",), ("D",)]
            out.append(h)
    return out


def gen_boundary(g, bs, opt):
    """Requests at the block-size boundaries: k*block_size +- 0..2 granules +- 1 byte (the first block is 2*block_size,
    every further block doubles), on a fresh allocator and again when a block already exists: exact fits that leave 0 or 1
    granule, requests that are one granule too big for the default block (with and without the padding granule)."""
    ge, bse = eff(g, bs)
    out = []
    for base in (bse, 2 * bse, 3 * bse, 4 * bse, 8 * bse):
        for dg in (-2, -1, 0, 1, 2):
            for db in (0, 1, -1):
                size = base + dg * ge + db
                if size <= 0:
                    continue
                h = Hist(g, bs, opt, "boundary/%dbs%+dg%+d" % (base // bse, dg, db))
                h.ops = [("A", size), ("T",), ("D",), ("W", 0), ("A", ge), ("A", size), ("T",), ("D",), ("Q", 2, 0),
                         ("A", 2 * size), ("T",), ("R", 0), ("R", 2), ("A", size), ("T",), ("D",), ("R", 3), ("R", 1), ("R", 4), ("T",), ("D",)]
                out.append(h)
    return out


def gen_vmfail(rng, g, opt):
    """Virtual-memory failure: under an address-space limit (harness command `V mb`) a huge request must fail with an error
    and leave the allocator consistent (statistics, later allocations, releases). Not modelled: monitor only."""
    h = Hist(g, 65536, opt, "vmfail")
    h.monitor_only = True
    h.ops = [("A", 100), ("A", 5000), ("W", 0), ("V", 96), ("A", 1000000000), ("T",), ("A", 64), ("A", 1 << 30), ("T",), ("R", 1),
             ("A", 200), ("V", 0), ("A", 300000), ("T",), ("D",), ("V", 64), ("A", 1500000000), ("Z", 1), ("A", 2000000000), ("V", 0),
             ("A", 70000), ("T",), ("D",)]
    for _ in range(30):
        h.ops.append(("A", rng.randint(1, 4000)))
    h.ops += [("T",), ("D",)]
    return h


# ------------------------------------------------------------------ running
def run_exe(exe, args, lines, timeout=3000):
    rc, out, err = vlib.sh([exe] + args, inp="\n".join(lines) + "\n", timeout=timeout)
    return rc, out.split("\n")[:-1] if out.endswith("\n") else out.split("\n"), err


def padding_queries(opt, lines, ans):
    """Independent judgement of query answers: with initial padding enabled no span starts at offset 0 of a block, so a query
    that answers `ok <blk> 0 <len>` accepted an address inside the padding granule. Returns monitor-style reports."""
    out = []
    if opt & NOPAD:
        return out
    for i, (l, x) in enumerate(zip(lines, ans)):
        if l.startswith("Q ") and x.startswith("Q ok "):
            t = x.split()
            if len(t) >= 5 and t[3] == "0":
                out.append((i, "!V query-padding hist=- op=%d query() accepted an address inside the initial padding granule and returned "
                               "a span that was never allocated: `%s` -> `%s`" % (i, l, x)))
    return out


def split_impl(lines):
    """Separate answers from monitor lines; monitor lines attach to the preceding answer index."""
    ans, mon = [], []
    for l in lines:
        if l.startswith("!V"):
            mon.append((len(ans) - 1, l))
        elif l.startswith("CRASH"):
            mon.append((len(ans) - 1, "!V crash process " + l))
        else:
            ans.append(l)
    return ans, mon


def run_histories(impl, model, vbits, hists, shards=16, model_out=None, timeout=3000):
    """Returns per history: (impl answers, monitor lines [(op index, text)], model answers)."""
    shards = max(1, min(shards, len(hists)))
    groups = [list(range(i, len(hists), shards)) for i in range(shards)]

    def one(idx):
        lines, spans = [], []
        for hi in idx:
            ls = hists[hi].lines()
            spans.append((hi, len(lines), len(ls)))
            lines += ls
        rci, outi, erri = run_exe(impl, [], lines, timeout=timeout)      # a deadlocked harness must not stall the check
        if model_out is None:
            rcm, outm, errm = run_exe(model, [str(vbits)], lines, timeout=timeout)
        else:
            rcm, errm, outm = 0, "", []
            for hi in idx:
                outm += model_out[hi]
        ans, mon = split_impl(outi)
        res = {}
        for (hi, start, n) in spans:
            a = ans[start:start + n]
            m = outm[start:start + n]
            mo = [(k - start, t) for (k, t) in mon if start <= k < start + n]
            res[hi] = (a, mo, m, n)
        if rci != 0 or len(ans) != len(lines):
            res["impl_error"] = (rci, len(ans), len(lines), erri[-300:], idx)
        if rcm != 0 or len(outm) != len(lines):
            res["model_error"] = (rcm, len(outm), len(lines), errm[-300:], idx)
        return res
    merged = {}
    errors = []
    with ThreadPoolExecutor(max_workers=shards) as ex:
        for r in ex.map(one, groups):
            for k, v in r.items():
                if k in ("impl_error", "model_error"):
                    errors.append((k, v))
                else:
                    merged[k] = v
    return merged, errors


def run_model_only(model, vbits, hists, shards=16):
    shards = max(1, min(shards, len(hists)))
    groups = [list(range(i, len(hists), shards)) for i in range(shards)]

    def one(idx):
        lines, spans = [], []
        for hi in idx:
            ls = hists[hi].lines()
            spans.append((hi, len(lines), len(ls)))
            lines += ls
        _rc, outm, _err = run_exe(model, [str(vbits)], lines)
        return {hi: outm[start:start + n] for (hi, start, n) in spans}
    out = {}
    with ThreadPoolExecutor(max_workers=shards) as ex:
        for r in ex.map(one, groups):
            out.update(r)
    return [out.get(i, []) for i in range(len(hists))]


# ------------------------------------------------------------------ word level: direct calls of BitVectorRangeIterator / bit_vector_*
def gen_word(rng):
    k = rng.random()
    M = (1 << 64) - 1
    if k < 0.15:
        return 0
    if k < 0.3:
        return M
    if k < 0.5:
        w = 0
        for _ in range(rng.randint(1, 4)):
            w |= 1 << rng.randrange(64)
        return w if rng.random() < 0.5 else w ^ M
    if k < 0.75:       # a few long runs, often touching the word ends
        a, b = sorted((rng.choice([0, 1, 31, 62, 63, rng.randrange(64)]), rng.choice([1, 2, 63, 64, rng.randrange(65)])))
        w = ((1 << b) - 1) & ~((1 << a) - 1)
        return (w if rng.random() < 0.5 else w ^ M) & M
    return rng.getrandbits(64)


def gen_word_lines(rng, count):
    out = []
    for _ in range(count):
        n = rng.choice([1, 1, 2, 2, 3, 4, 6])
        ws = [gen_word(rng) for _ in range(n)]
        r = rng.random()
        if r < 0.7:
            bits = 64 * n
            end = rng.choice([bits, bits, 64 * rng.randint(1, n), rng.randint(0, bits)])
            start = rng.choice([0, rng.randint(0, end), max(0, end - rng.randint(0, 70))])
            hint = rng.choice([1, 1, 2, 5, 63, 64, 65, 127, 128, 200, (1 << 64) - 1])
            out.append("I %d %d %d %d %d %s" % (rng.randrange(2), hint, start, end, n, " ".join(map(str, ws))))
        elif r < 0.9:
            idx = rng.randint(0, 64 * n)
            cnt = rng.choice([0, 1, 63, 64, 65, rng.randint(0, 64 * n - idx)])
            cnt = min(cnt, 64 * n - idx)
            out.append("K %s %d %d %d %s" % (rng.choice("fc"), idx, cnt, n, " ".join(map(str, ws))))
        else:
            # index_of has no end test: make sure both bit values occur in the top two bits of the last word
            ws[-1] = (ws[-1] | (1 << 63)) & ~(1 << 62)
            out.append("K i %d %d %d %s" % (rng.randint(0, 64 * n - 2), rng.randrange(2), n, " ".join(map(str, ws))))
    return out


def ref_word_answer(line):
    """Independent bit-level reference for one I/K line; None if the case is outside the documented contract (a B-bit lies
    between `end` and the end of its word: the iterator's answer is then only compared with the model)."""
    t = line.split()
    if t[0] == "I":
        b, hint, start, end, n = int(t[1]), int(t[2]), int(t[3]), int(t[4]), int(t[5])
        ws = [int(x) for x in t[6:6 + n]]
        bit = lambda j: (ws[j >> 6] >> (j & 63)) & 1
        up = (end + 63) // 64 * 64
        if any(bit(j) == b for j in range(end, min(up, 64 * n))):
            return None
        out, pos = [], start
        while True:
            s = pos
            while s < end and bit(s) != b:
                s += 1
            if s >= end:
                break
            e = s
            while e < end and bit(e) == b:
                e += 1
            wb = (s // 64 + 1) * 64
            cut = e
            while wb < e:
                if wb - s >= hint:
                    cut = wb
                    break
                wb += 64
            out += [s, cut]
            pos = cut
        return "I" + "".join(" %d" % x for x in out)
    op = t[1]
    a, b2, n = int(t[2]), int(t[3]), int(t[4])
    ws = [int(x) for x in t[5:5 + n]]
    if op == "i":
        j = a
        while ((ws[j >> 6] >> (j & 63)) & 1) != (1 if b2 else 0):
            j += 1
        return "K %d" % j
    v = sum(w << (64 * i) for i, w in enumerate(ws))
    m = ((1 << b2) - 1) << a
    v = (v | m) if op == "f" else (v & ~m)
    return "K" + "".join(" %d" % ((v >> (64 * i)) & ((1 << 64) - 1)) for i in range(n))


def run_word_level(ck, impl, model, vbits, rng, count, stats):
    lines = gen_word_lines(rng, count)
    shards = 8
    chunks = [lines[i::shards] for i in range(shards)]

    def one(chunk):
        rci, oi, _e = run_exe(impl, [], chunk, timeout=600)
        rcm, om, _e2 = run_exe(model, [str(vbits)], chunk, timeout=600)
        return oi, om
    ncmp = nref = 0
    with ThreadPoolExecutor(max_workers=shards) as ex:
        for chunk, (oi, om) in zip(chunks, ex.map(one, chunks)):
            if len(oi) != len(chunk) or len(om) != len(chunk):
                ck.violation("C09/harness-crash", "word-level stream: impl answered %d, model %d of %d lines" % (len(oi), len(om), len(chunk)),
                             {"broken": "word-level run"}, no_input=True)
                continue
            for l, x, y in zip(chunk, oi, om):
                ncmp += 1
                r = ref_word_answer(l)
                if r is not None:
                    nref += 1
                    if x != r:
                        ck.violation("C09/word-level/" + l.split()[0] + (l.split()[1] if l[0] == "K" else ""),
                                     "bit-level reference disagrees with the implementation's %s on `%s`: impl %r, reference %r (model %r)"
                                     % ("BitVectorRangeIterator" if l[0] == "I" else "bit_vector_" + l.split()[1], l, x, r, y),
                                     {"history": [l], "impl": x, "model": y, "reference": r})
                        continue
                if x != y:
                    ck.violation("C09/correspondence/word-level", "C18's word-level model and the implementation disagree on `%s`: impl %r, model %r"
                                 % (l, x, y), {"history": [l], "impl": x, "model": y, "broken": "correspondence of RangeIterModel/BitVecModel with the code"},
                                 no_input=True)
    stats["word_level_lines_compared"] = ncmp
    stats["word_level_lines_judged_by_reference"] = nref


def judge_events(h, a):
    """Translate the implementation's answers of one history into events of the proven trace judge (JitSpec.v).
    Returns (lines for `c09 spec`, [op index of each event])."""
    lines = h.lines()
    if not a or not a[0].startswith("H "):
        return None, None
    t0 = a[0].split()
    if len(t0) < 5 or t0[2] == "0":
        return None, None
    out = ["C %s %s %d" % (t0[3], t0[2], 0 if h.opt & NOPAD else 1)]
    where = []
    table = []
    for i in range(1, min(len(lines), len(a))):
        l, x = lines[i].split(), a[i].split()
        if not x or x[0] in ("P", "CRASH") or len(x) < 2:
            break
        if x[1] == "crash":
            break
        if l[0] == "A":
            if x[1] == "ok" and len(x) >= 12:
                table.append([x[2], x[3], True])
                out.append("a %s %s %s %s %s %s" % (l[1], x[2], x[3], x[4], x[10], x[11])); where.append(i)
            else:
                table.append(None)
        elif l[0] == "R" and x[1] == "ok":
            e = table[int(l[1])]
            out.append("r %s %s" % (e[0], e[1])); where.append(i); e[2] = False
        elif l[0] == "S" and x[1] == "ok":
            e = table[int(l[1])]
            if l[2] == "0":
                out.append("r %s %s" % (e[0], e[1])); e[2] = False
            else:
                out.append("s %s %s %s" % (e[0], e[1], x[2]))
            where.append(i)
        elif l[0] == "Z":
            out.append("z"); where.append(i)
            if len(x) >= 3 and x[2].isdigit():
                out.append("t %s" % x[2]); where.append(i)
        elif l[0] == "T" and len(x) >= 3 and x[2].isdigit():
            out.append("t %s" % x[2]); where.append(i)
    out.append("E")
    return out, where


def run_judge(ck, model, hist_answers, stats, shards=16):
    """hist_answers: list of (Hist, impl answers). Runs the extracted, proven judge; reports rejected traces."""
    jobs = []
    for (h, a) in hist_answers:
        ev, where = judge_events(h, a)
        if ev is not None:
            jobs.append((h, a, ev, where))
    shards = max(1, min(shards, len(jobs)))
    groups = [jobs[i::shards] for i in range(shards)]

    def one(group):
        lines = []
        for (_h, _a, ev, _w) in group:
            lines += ev
        rc, out, err = run_exe(model, ["spec"], lines, timeout=1500)
        return out
    nev = 0
    with ThreadPoolExecutor(max_workers=shards) as ex:
        for group, out in zip(groups, ex.map(one, groups)):
            if len(out) != len(group):
                ck.violation("C09/harness-crash", "trace judge answered %d of %d traces" % (len(out), len(group)), {"broken": "c09 spec run"}, no_input=True)
                continue
            for (h, a, ev, where), verdict in zip(group, out):
                nev += len(ev) - 2
                t = verdict.split()
                if t[:2] == ["J", "ok"]:
                    continue
                k = where[int(t[2])] if len(t) > 2 and int(t[2]) < len(where) else 0
                ls = h.lines()
                key = "C09/judge/" + ev[int(t[2]) + 1].split()[0] if len(t) > 2 else "C09/judge"
                ck.violation(key, "the proven trace judge (JitSpec.spec_run: live spans pairwise disjoint, aligned, inside the block, at least as "
                             "large as requested, allocation count) rejects the implementation's answer %r to op %d (%s) of a %s history with config %s"
                             % (a[k], k, ls[k], h.tag, ls[0]),
                             {"config": ls[0], "tag": h.tag, "variant_bits": stats["vbits"], "history": ls[:k + 1] + ["X"], "impl": a[max(0, k - 3):k + 1]})
    stats["judge_events"] = nev
    stats["judge_traces"] = len(jobs)


def detect_defects(ck, impl):
    """Run the probe histories on the implementation alone; a defect is present if its probe's monitor key fires."""
    present = {}
    for slug, lines, keys in PROBES:
        rc, out, err = run_exe(impl, [], lines, timeout=120)
        ans, mon = split_impl(out)
        mon = mon + padding_queries(int(lines[0].split()[3]), lines, ans)
        hit = [t for (_k, t) in mon if t.split()[1] in keys]
        if rc != 0 and not hit and ("crash" in keys):
            hit = ["!V crash process rc=%d" % rc]
        if hit:
            present.setdefault(slug, []).append({"probe": lines, "monitor": hit[0]})
    return present


def drop_op(ops, j):
    """Remove op j; if it is an A, also remove the ops that use its handle and renumber later handles."""
    if ops[j][0] != "A":
        return ops[:j] + ops[j + 1:]
    a = sum(1 for o in ops[:j] if o[0] == "A")
    out = []
    for i, o in enumerate(ops):
        if i == j:
            continue
        if o[0] in ("R", "S", "Q", "W"):
            if o[1] == a:
                continue
            if o[1] > a:
                o = (o[0], o[1] - 1) + tuple(o[2:])
        out.append(o)
    return out


def reproduces(impl, model, vbits, h, ops, key):
    """Does the history with `ops` still show monitor key `key` (or, for key None, a model/impl disagreement)?"""
    hh = Hist(h.g, h.bs, h.opt, h.tag)
    hh.ops = ops
    lines = hh.lines()
    rc, outi, _e = run_exe(impl, [], lines, timeout=60)
    ans, mon = split_impl(outi)
    if key is not None:
        return any(monitor_key(t) == key for (_k, t) in mon)
    _rc, outm, _e = run_exe(model, [str(vbits)], lines, timeout=60)
    for x, y in zip(ans, outm):
        if x == "P" or y == "U":
            return False
        if y != "Q oob" and x != y:
            return True
    return False


def shrink_history(impl, model, vbits, h, ops, key, budget=250):
    """Greedy one-op-at-a-time minimisation of a failing history (bounded number of runs)."""
    if not reproduces(impl, model, vbits, h, ops, key):
        return ops
    i = len(ops) - 1
    while i >= 0 and budget > 0:
        cand = drop_op(ops, i)
        budget -= 1
        if len(cand) < len(ops) and reproduces(impl, model, vbits, h, cand, key):
            ops = cand
            i = min(i, len(ops)) - 1
        else:
            i -= 1
    return ops


def extend_to_violation(impl, h, ops, ans):
    """Sharper failing-input search for a model/implementation disagreement that the monitor did not (yet) judge as a property
    violation: the disagreeing history is extended by a bounded set of continuations aimed at the theorems (reuse of released
    memory, empty-block policy, statistics, soft reset, exact refill of a block); the first continuation on which the
    independent monitor (or a proved cache invariant on the reported digests) fires is the concrete failing input.
    Returns (ops + continuation, line index, monitor text) or None."""
    ge, bse = eff(h.g, h.bs)
    na = sum(1 for o in ops if o[0] == "A")
    ok = set()
    j = 0
    for i, o in enumerate(ops):
        x = ans[i + 1] if i + 1 < len(ans) else ""
        if o[0] == "A":
            if x.startswith("A ok"):
                ok.add(j)
            j += 1
        elif o[0] == "R" or (o[0] == "S" and o[2] == 0):
            ok.discard(o[1])
        elif o[0] in ("Z", "F"):
            ok.clear()
    rel_all = [("R", a) for a in sorted(ok)]
    conts = []
    for sz in (ge, 4 * ge, bse // 4, bse - ge, bse, 2 * bse):
        conts.append([("A", sz), ("T",), ("R", na), ("T",), ("A", sz), ("T",), ("D",)])
        conts.append(rel_all + [("T",), ("A", sz), ("A", sz), ("T",), ("R", na), ("R", na + 1), ("T",), ("A", sz), ("D",)])
        conts.append([("Z", 0), ("T",), ("A", sz), ("R", na), ("A", sz), ("A", sz), ("T",), ("D",)])
        conts.append(rel_all + [("Z", 0), ("T",), ("A", sz), ("T",), ("R", na), ("T",), ("D",)])
    for c in conts:
        hh = Hist(h.g, h.bs, h.opt, h.tag)
        hh.ops = list(ops) + c
        lines = hh.lines()
        _rc, outi, _e = run_exe(impl, [], lines, timeout=60)
        a2, mon = split_impl(outi)
        mon = list(mon) + padding_queries(h.opt, lines, a2) + digest_invariants(h.opt, lines, a2)
        if mon:
            k, text = min(mon, key=lambda t: t[0])
            return hh.ops, k, text
    return None


def own_regen(ck, name, text):
    """Translator tie restricted to C09's generated file (vlib.coq_regen recompiles every property's gen files): None if the
    text equals the committed coq/gen/<name>, else (gen_dir, failed_files, log) after recompiling it in a scratch gen dir."""
    import shutil
    committed = os.path.join(vlib.COQ, "gen", name)
    if os.path.exists(committed) and open(committed).read() == text:
        return None
    wgen = os.path.join(ck.work, "gen")
    shutil.rmtree(wgen, ignore_errors=True)
    os.makedirs(wgen)
    open(os.path.join(wgen, name), "w").write(text)
    ck.coq_make(["theories/Jit/JitTablesCheck.vo"])
    rc, out, err = vlib.sh(["coqc", "-Q", os.path.join(vlib.COQ, "theories"), "Verif", "-Q", wgen, "VerifGen", "-w", "-all",
                            os.path.join(wgen, name)], cwd=wgen, timeout=600)
    return wgen, ([name] if rc != 0 else []), (out + err)[-2000:]


def monitor_key(text):
    return text.split()[1]


def digest_invariants(opt, lines, a):
    """Sharper failing-input search: the search-cache invariants that are PROVED for the model (binv: bc_empty, bc_full, bc_incr,
    bc_range) are evaluated on the block digest the implementation itself reports after every alloc/release/shrink. A broken
    invariant is a concrete input with a named reason even when the monitor sees no property violation yet."""
    out = []
    if not a or not a[0].startswith("H "):
        return out
    t0 = a[0].split()
    if len(t0) < 5 or t0[2] == "0":
        return out
    g0 = int(t0[3])
    pad = 0 if opt & NOPAD else 1
    area_of = {}
    for i in range(1, min(len(lines), len(a))):
        l, x = lines[i].split(), a[i].split()
        if not x or x[0] in ("P", "CRASH") or len(x) < 2 or x[1] == "crash":
            break
        d = None
        if l[0] == "A" and x[1] == "ok" and len(x) >= 12:
            blk = x[2]; area_of[blk] = int(x[10]) // (g0 << int(x[11])); d = x[5:10]
        elif l[0] == "R" and x[1] == "ok" and len(x) >= 8 and x[3] != "deleted":
            blk = x[2]; d = x[3:8]
        elif l[0] == "S" and len(x) >= 9 and x[4] != "deleted" and x[1] == "ok":
            blk = x[3]; d = x[4:9]
        elif l[0] == "Z":
            area_of = {}
        if d is None or blk not in area_of:
            continue
        ss, se, lg, f, au = (int(v) for v in d)
        area = area_of[blk]
        why = None
        if not (0 <= ss <= area and 0 <= se <= area):
            why = "search window outside the block (bc_range)"
        elif bool(f & 1) != (au == pad):
            why = "kFlagEmpty %s but area_used = %d, padding = %d (bc_empty)" % ("set" if f & 1 else "clear", au, pad)
        elif au == area and not (ss == area and se == 0 and lg == 0 and not (f & 4) and not (f & 2)):
            why = "full block with search_start=%d search_end=%d largest=%d flags=%d (bc_full)" % (ss, se, lg, f)
        elif (f & 4) and not (se == area and lg == area - ss and au == ss):
            why = "incremental block with search_start=%d search_end=%d largest=%d area_used=%d area=%d (bc_incr)" % (ss, se, lg, au, area)
        if why:
            out.append((i, "!V digest-invariant hist=- op=%d block %s after `%s`: %s" % (i, blk, lines[i], why)))
            break
    return out


def count_branch(stats, lines, a, i, seen_blocks):
    """Explicit coverage counters: which case of the model's case splits (= branches of the code) an operation of the
    implementation went through, read off its own answer (block digest: search window, flags, area_used)."""
    br = stats["branches"]

    def inc(k):
        br[k] = br.get(k, 0) + 1
    l, x = lines[i].split(), a[i].split()
    if len(x) < 2:
        return
    if l[0] == "A":
        if x[1] != "ok":
            inc("alloc/error/" + x[1]); return
        if len(x) < 12:
            return
        blk, ss, se, f, au, nbytes, pool = x[2], int(x[5]), int(x[6]), int(x[8]), int(x[9]), int(x[10]), int(x[11])
        g0 = int(a[0].split()[3]) if a and a[0].startswith("H ") and len(a[0].split()) > 3 else 64
        area = nbytes // (g0 << pool) if g0 else 0
        inc("alloc/new-block" if blk not in seen_blocks else "alloc/existing-block")
        seen_blocks.add(blk)
        if au == area:
            inc("alloc/block-becomes-full")
        elif f & 4:
            inc("alloc/incremental-fast-path")
        else:
            inc("alloc/scan-path")
        if pool:
            inc("alloc/coarser-pool")
    elif l[0] == "R" and x[1] == "ok":
        if x[-1] == "deleted":
            inc("release/block-deleted")
        elif len(x) >= 8:
            f = int(x[6])
            inc("release/block-kept-empty" if f & 1 else ("release/incremental-branch" if f & 4 else "release/general-branch"))
    elif l[0] == "S":
        if x[1] != "ok":
            inc("shrink/error")
        elif l[2] == "0":
            inc("shrink/to-zero-is-release")
        elif len(x) >= 9:
            inc("shrink/incremental-branch" if int(x[7]) & 4 else "shrink/general-or-noop")
    elif l[0] == "Z":
        inc("reset/soft" if l[1] == "0" else "reset/hard")
    elif l[0] == "Q":
        inc("query/" + x[1])


def judge_history(ck, h, hi, a, mo, m, n, present, stats):
    """Compare one history; report violations. Returns number of compared ops."""
    lines = h.lines()
    seen_blocks = set()
    compared = 0
    cut = None            # index from which the history is not compared (poisoned impl / unsound pinned model)
    first_diff = None
    for i in range(min(len(a), len(m))):
        x, y = a[i], m[i]
        if x == "P" or y == "U":
            cut = i
            break
        if x == "" or x.startswith("CRASH"):
            break          # the harness process died here: reported once as C09/harness-crash (or the crash key)
        if y == "Q oob":
            stats["q_oob"] += 1
            continue
        if x[:2] in ("T ", "Z "):
            # independent sanity of the implementation's own statistics: used_size can never exceed reserved_size
            t = x.split()
            if len(t) == 5 and t[3].isdigit() and t[4].isdigit() and int(t[3]) > int(t[4]):
                ck.violation("C09/used-exceeds-reserved", "statistics() reports used_size %s > reserved_size %s at op %d (%s) of a %s history "
                             "with config %s" % (t[3], t[4], i, lines[i], h.tag, lines[0]),
                             {"config": lines[0], "tag": h.tag, "variant_bits": stats["vbits"], "history": lines[:i + 1] + ["X"], "impl": x})
        compared += 1
        count_branch(stats, lines, a, i, seen_blocks)
        k = lines[i][0]
        stats["ops"][k] = stats["ops"].get(k, 0) + 1
        if x.split()[1:2] == ["ok"] or k in ("Z",):
            stats["nontrivial"] += 1
        if x != y and first_diff is None:
            first_diff = i
            break
    replay = {"config": lines[0], "tag": h.tag, "variant_bits": stats["vbits"]}
    # monitor reports of this history (always judged, also when model and implementation agree)
    reported = False
    explained_at = set()
    mo = list(mo) + padding_queries(h.opt, lines, a) + digest_invariants(h.opt, lines, a)
    for (k, text) in mo:
        key = monitor_key(text)
        slug = None
        for s in EXPLAINS.get(key, []):
            if s in present:
                # the defect is present in this tree (shown by its probe); the report must also fit the defect:
                if s == "full-block-keeps-incremental-flag" and not (cut is not None and m[cut:cut + 1] == ["U"] or "U" in m[:k + 2]):
                    continue   # the pinned model did not see an unsound window before this report
                if s == "reset-wipes-unused-ranges" and "after-reset" not in text:
                    continue
                if s == "soft-reset-stale-tree-links" and not any(l == "Z 0" for l in lines[:k + 1]):
                    continue
                if s == "reset-keeps-allocation-count" and not any(l.startswith("Z") for l in lines[:k + 1]):
                    continue
                slug = s
                break
        rp = dict(replay, history=lines[:k + 1] + ["X"], monitor=text, impl=a[max(0, k - 3):k + 1], model=m[max(0, k - 3):k + 1])
        explained_at.add(k)
        if slug:
            ck.violation("C09/known/" + slug, "%s  [history %s, op %d: %s]" % (text, h.tag, k, lines[k] if k < len(lines) else "?"), rp)
            stats["known_reports"][slug] = stats["known_reports"].get(slug, 0) + 1
        else:
            reported = True
            if ("C09/" + key) not in stats["shrunk"]:
                stats["shrunk"].add("C09/" + key)
                small = shrink_history(stats["impl"], stats["model"], stats["vbits"], h, h.ops[:max(0, k)], key)
                hh = Hist(h.g, h.bs, h.opt, h.tag); hh.ops = small
                rp = dict(rp, history=hh.lines(), original_length=k)
            ck.violation("C09/" + key, "independent monitor on the real allocator: %s  [config %s, history %s, op %d: %s]"
                         % (text, lines[0], h.tag, k, lines[k] if k < len(lines) else "?"), rp)
    if first_diff is not None:
        stats["disagreements"] += 1
        i = first_diff
        rp = dict(replay, history=lines[:i + 1] + ["X"], impl=a[max(0, i - 3):i + 1], model=m[max(0, i - 3):i + 1],
                  broken="correspondence of the JitAllocator model (coq/theories/Jit/JitModel.v) with the implementation")
        if not reported and i not in explained_at:
            ckey = "C09/correspondence/" + lines[i][0]
            if ckey not in stats["shrunk"]:
                stats["shrunk"].add(ckey)
                small = shrink_history(stats["impl"], stats["model"], stats["vbits"], h, h.ops[:i], None)
                hh = Hist(h.g, h.bs, h.opt, h.tag); hh.ops = small
                rp = dict(rp, history=hh.lines(), original_length=i)
            ext = None
            xkey = "C09/extended/" + lines[i][0]
            if xkey not in stats["shrunk"]:
                stats["shrunk"].add(xkey)
                ext = extend_to_violation(stats["impl"], h, h.ops[:i], a)
            if ext is not None:
                eops, ek, etext = ext
                hh = Hist(h.g, h.bs, h.opt, h.tag); hh.ops = eops
                el = hh.lines()
                ck.violation("C09/" + monitor_key(etext),
                             "independent monitor on the real allocator, on a continuation of the disagreeing history: %s  "
                             "[config %s, history %s extended after op %d, failing op %d: %s]"
                             % (etext, lines[0], h.tag, i, ek, el[ek] if 0 <= ek < len(el) else "?"),
                             dict(replay, history=el[:ek + 1] + ["X"], monitor=etext, disagreement_at=i))
            ck.violation("C09/correspondence/" + lines[i][0],
                         "implementation and proven model disagree at op %d (%s) of a %s history with config %s: impl %r, model %r; "
                         "the independent monitor reported no property violation in this history%s"
                         % (i, lines[i], h.tag, lines[0], a[i], m[i],
                            "" if ext is None else "; continued, the history violates the property: after the operations %s the monitor reports %s"
                            % (" / ".join(el[i + 1:ek + 1]), etext)),
                         rp if ext is None else dict(rp, failing_continuation=el[:ek + 1] + ["X"], monitor=etext), no_input=(ext is None))
    return compared


def run(ck):
    rng = random.Random(ck.seed)
    # translator tie: constants, CreateParams normalisation, size_to_pool_id and calculate_ideal_block_size of the tree under
    # test are re-evaluated by a dumper and re-checked against the model (coq/gen/JitTables.v, lemma tables_ok)
    tables_text, table_counts, facts, table_rows = c09_tables.gen_tables(ck)
    # the option bits / block flag values / default fill pattern this module and the harness protocol assume, re-read from the source
    expected = {"OPT": [DUAL, MULTI, FILL, IMM, NOPAD, LARGE, ALIGNLP, CUSTOM], "FLAGS": [1, 2, 4, 8], "FILLPAT": [0xCCCCCCCC]}
    for k, v in expected.items():
        if facts.get(k) != v:
            ck.violation("C09/tables", "enumerator values changed in the source: %s is %s, the check assumes %s" % (k, facts.get(k), v),
                         {"broken": "tools/checks/c09.py constants vs asmjit/core/jitallocator.{h,cpp}"}, no_input=True)
    regen = own_regen(ck, "JitTables.v", tables_text)
    gen_dir = None
    tables_failed = False
    tables_log = ""
    if regen is not None:
        gen_dir, failed, rlog = regen
        tables_log = rlog
        ck.log("JitTables.v differs from the committed snapshot: regenerated in %s, failed: %s" % (gen_dir, failed))
        tables_failed = bool(failed)
        if False:
            ck.violation("C09/tables", "the model's CreateParams normalisation / size_to_pool / ideal_block_size / constants no longer agree with "
                         "the functions of jitallocator.cpp on the regenerated table: %s" % rlog[-600:],
                         {"broken": "coq/gen/JitTables.v (tables_ok)", "file": "harness/c09_dump.cpp"}, no_input=True)
    # (a regenerated table that does not check is reported below with its concrete rows; the theorems are then re-checked
    #  against the committed snapshot so that one failure does not mask the state of the other theorems)
    obl = ck.coq_properties(gen_dir=None if tables_failed else gen_dir)
    ck.log("theorems: %d, failed: %d" % (len(obl), len([o for o in obl if not o["ok"]])))
    impl = ck.build_harness("c09", ["c09_harness.cpp"])
    model = ck.ocaml_model("Extract_Jit.v", ["zconv.ml", "c09_driver.ml"], name="c09")
    if tables_failed:
        # tables_ok no longer checks: name the concrete rows (arguments on which the real function and the model disagree)
        bad = c09_tables.failing_rows(model, table_rows)
        if bad:
            for b in bad[:3]:
                ck.violation("C09/tables/" + b["function"].split("(")[0].split("{")[0],
                             "translated table: %s with arguments %s gives %s in the implementation, %s in the proven model"
                             % (b["function"], b["arguments"], b["implementation"], b["model"]), {"row": b, "broken": "coq/gen/JitTables.v (tables_ok)"})
        else:
            ck.violation("C09/tables", "the regenerated coq/gen/JitTables.v no longer checks: %s" % tables_log[-600:],
                         {"broken": "coq/gen/JitTables.v (tables_ok)", "file": "harness/c09_dump.cpp"}, no_input=True)

    if ck.replay:
        rp = json.load(open(ck.replay))["replay"]
        lines = rp["history"]
        vb = rp.get("variant_bits", 15)
        _rc, outi, _e = run_exe(impl, [], lines)
        _rc, outm, _e = run_exe(model, [str(vb)], lines)
        ans, mon = split_impl(outi)
        for i, l in enumerate(lines):
            print("%-24s impl: %-52s model: %s" % (l, ans[i] if i < len(ans) else "-", outm[i] if i < len(outm) else "-"))
            for (k, t) in mon:
                if k == i:
                    print("    monitor:", t)
        return 0

    # ---- which recorded defects does this tree still have?
    present = detect_defects(ck, impl)
    vbits = 31
    for slug in present:
        bit = DEFECTS[slug][0]
        if bit:
            vbits &= ~bit
    ck.log("defects of the pinned tree still present: %s -> model variant bits %d" % (sorted(present) or "none", vbits))

    # ---- histories
    quick = ck.tier == "quick"
    hists = []
    optsets = [0, MULTI, FILL, IMM, NOPAD, DUAL, DUAL | FILL, MULTI | NOPAD, MULTI | IMM | FILL, FILL | CUSTOM,
               MULTI | DUAL | FILL | IMM | NOPAD, LARGE, LARGE | ALIGNLP | MULTI]
    grans = [64, 128, 256]
    bss = [65536, 131072]
    # corpus (regression histories)
    corpus = os.path.join(vlib.VERIF, "corpus", "C09.txt")
    if os.path.exists(corpus):
        cur = None
        for l in open(corpus):
            l = l.strip()
            if not l or l.startswith("#"):
                continue
            t = l.split()
            if t[0] == "H":
                cur = Hist(int(t[1]), int(t[2]), int(t[3]), "corpus")
                hists.append(cur)
            elif t[0] != "X" and cur is not None:
                cur.ops.append(tuple([t[0]] + [int(x) for x in t[1:]]))
    n_corpus = len(hists)
    # directed
    for opt in optsets:
        for g in grans:
            hists += gen_directed(g, 65536, opt)
    for opt in optsets:
        for g in ([64, 256] if quick else grans):
            hists += gen_boundary(g, 65536, opt)
    n_directed = len(hists) - n_corpus
    # bounded-exhaustive
    depth = 4 if quick else 5
    hists += gen_exhaustive(depth, 64, 65536, 0, medium=quick)
    if quick:
        for opt in (IMM, NOPAD | FILL):
            hists += gen_exhaustive(3, 64, 65536, opt)
    else:
        hists += gen_exhaustive(4, 64, 65536, IMM)
    if not quick:
        for opt in [NOPAD | FILL, MULTI, DUAL]:
            hists += gen_exhaustive(4, 128, 65536, opt)
        # every option set: all histories of depth 6 over a 7-letter alphabet on the minimum block size
        for opt in optsets:
            if not (opt & LARGE):
                hists += gen_exhaustive(6, 64, 65536, opt, small=True)
    n_exh = len(hists) - n_corpus - n_directed
    # random
    styles = ["mixed", "tiny", "words", "fill", "big", "edge"]
    nops = 700 if quick else 8000
    per_cfg = 1 if quick else 2
    for opt in optsets:
        for g in grans:
            for st in styles:
                for _ in range(per_cfg):
                    hists.append(gen_random(rng, g, rng.choice(bss), opt, nops if st not in ("big", "edge") else nops // 5, st))
    if not quick:
        for opt in (0, MULTI, FILL | IMM):
            hists.append(gen_random(rng, 64, 65536, opt, 100000, "mixed"))
            hists.append(gen_random(rng, 64, 65536, opt, 100000, "tiny"))
    # odd creation arguments (defaults are substituted)
    for (g, bs) in ((0, 0), (100, 65537), (512, 32768), (64, 1 << 29)):
        hists.append(gen_random(rng, g, bs, 0, 300, "mixed"))
    n_random = len(hists) - n_corpus - n_directed - n_exh
    total_lines = sum(len(h.ops) + 2 for h in hists)
    ck.log("histories: %d corpus, %d directed, %d bounded-exhaustive (depth %d), %d random; %d command lines"
           % (n_corpus, n_directed, n_exh, depth, n_random, total_lines))

    # large pages are not modelled (block sizes depend on the host): those histories are judged by the monitor only
    for opt in (0, DUAL, MULTI | FILL, IMM | NOPAD):
        hists.append(gen_vmfail(rng, 64, opt))
    modelled = [h for h in hists if not (h.opt & LARGE) and not getattr(h, "monitor_only", False)]
    unmodelled = [h for h in hists if (h.opt & LARGE) or getattr(h, "monitor_only", False)]

    stats = {"ops": {}, "nontrivial": 0, "disagreements": 0, "q_oob": 0, "known_reports": {}, "vbits": vbits,
             "shrunk": set(), "impl": impl, "model": model, "branches": {}}
    # balance shards: long histories first
    order = sorted(range(len(modelled)), key=lambda i: -len(modelled[i].ops))
    modelled = [modelled[i] for i in order]
    model_pre = None
    if "soft-reset-stale-tree-links" in present:
        # a soft reset of this tree leaves dangling tree links (use after free): keep the main run out of it
        for h in hists:
            h.ops = [("Z", 1) if o == ("Z", 0) else o for o in h.ops]
        ck.notes.append("soft resets replaced by hard resets in the generated histories (defect soft-reset-stale-tree-links present)")
    if not (vbits & 1):
        # DESIGN 7.13 present: once a block's search window is unsound the real allocator may write outside its bit
        # vectors. Run the (pinned) model first and cut every history before the first operation in an unsound state.
        pre = run_model_only(model, vbits, modelled)
        ncut = 0
        for hi, h in enumerate(modelled):
            if "U" in pre[hi]:
                k = pre[hi].index("U")      # line index (H = 0) of the first op answered U
                h.ops = h.ops[:max(0, k - 1)]
                pre[hi] = pre[hi][:len(h.ops) + 1] + ["X"]     # the model is deterministic: its answers to the cut history
                ncut += 1
        model_pre = pre
        ck.notes.append("%d histories cut before their first operation in a window-unsound state (defect full-block-keeps-incremental-flag present)" % ncut)
    res, errors = run_histories(impl, model, vbits, modelled, model_out=model_pre, timeout=(600 if quick else 1500))
    compared = 0
    cut_histories = 0
    for hi, h in enumerate(modelled):
        if hi not in res:
            continue
        a, mo, m, n = res[hi]
        if "P" in a or "U" in m:
            cut_histories += 1
        compared += judge_history(ck, h, hi, a, mo, m, n, present, stats)
    run_judge(ck, model, [(h, res[hi][0]) for hi, h in enumerate(modelled) if hi in res], stats)
    run_word_level(ck, impl, model, vbits, rng, 12000 if quick else 400000, stats)
    for (kind, v) in errors:
        # a harness that died: attribute to the histories of that shard unless a known defect explains a crash
        if kind == "impl_error" and "soft-reset-stale-tree-links" in present:
            ck.violation("C09/known/soft-reset-stale-tree-links", "harness process died (rc=%s) in a shard; soft reset corrupts the block tree" % (v[0],),
                         {"detail": str(v[:4])})
            continue
        ck.violation("C09/harness-crash", "%s: rc=%s answered %s of %s lines: %s" % (kind, v[0], v[1], v[2], v[3]),
                     {"detail": str(v[:4]), "broken": "harness/model driver run"}, no_input=True)
    # virtual-memory failure histories: the implementation runs first; its `oom` answers are the oracle bits of the model
    # (JitVmModel.alloc_vm: `AF size` = alloc whose VirtMem request fails), then both are compared like any other history
    vm_hists = [h for h in unmodelled if getattr(h, "monitor_only", False) and not (h.opt & LARGE)]
    unmodelled = [h for h in unmodelled if h not in vm_hists]
    stats["vm_failures_modelled"] = 0
    for h in vm_hists:
        ls = h.lines()
        rc, outi, erri = run_exe(impl, [], ls, timeout=300)
        a, mon = split_impl(outi)
        mls = [("AF" + l[1:]) if (l.startswith("A ") and i < len(a) and a[i] == "A oom") else l for i, l in enumerate(ls)]
        stats["vm_failures_modelled"] += sum(1 for l in mls if l.startswith("AF"))
        rcm, outm, errm = run_exe(model, [str(vbits)], mls, timeout=300)
        if rc != 0 or len(a) != len(ls):
            ck.violation("C09/harness-crash", "harness died in a VM-failure history rc=%s" % rc, {"history": ls, "broken": "harness run"}, no_input=True)
            continue
        compared += judge_history(ck, h, -1, a, [(k, t) for (k, t) in mon], outm, len(ls), present, stats)
    # monitor-only histories
    mon_only_ops = 0
    if unmodelled:
        lines = []
        for h in unmodelled:
            lines += h.lines()
        rc, out, err = run_exe(impl, [], lines, timeout=(600 if quick else 1500))
        ans, mon = split_impl(out)
        mon_only_ops = len(ans)
        vm_failures = 0
        for l, x in zip(lines, ans):
            if l in ("A 1000000000", "A 1073741824", "A 1500000000", "A 2000000000") and x.split()[1:2] == ["oom"]:
                vm_failures += 1
        stats["vm_failures_reported_as_errors"] = vm_failures
        for (k, text) in mon:
            key = monitor_key(text)
            slug = next((s for s in EXPLAINS.get(key, []) if s in present), None)
            if slug:
                ck.violation("C09/known/" + slug, text, {"history": "large-page stream", "monitor": text})
            else:
                ck.violation("C09/" + key, "independent monitor (large-page / VM-failure histories, not modelled): %s" % text,
                             {"history": lines[:k + 2], "monitor": text})
        if rc != 0 and "soft-reset-stale-tree-links" not in present:
            ck.violation("C09/harness-crash", "harness died on the large-page stream rc=%s" % rc, {"broken": "harness run"}, no_input=True)

    # every defect that the probes saw is reported (keyed), so that an unrepaired tree is never silently accepted
    for slug, ev in present.items():
        ck.violation("C09/known/" + slug, "probe history shows the defect (%s): %s" % (DEFECTS[slug][1], ev[0]["monitor"]),
                     {"history": ev[0]["probe"], "monitor": ev[0]["monitor"]})

    for o in ck.proof_failures():
        ck.violation("C09/proof/" + o["name"], "theorem %s no longer checks (%s)" % (o["name"], getattr(ck, "coq_log", "")[-800:]),
                     {"broken": "theorem " + o["name"], "file": "coq/theories/Properties/Properties_C09.v"}, no_input=True)

    samples = []
    for hi in (0, len(modelled) // 2, len(modelled) - 1):
        if hi in res:
            a, mo, m, n = res[hi]
            ls = modelled[hi].lines()
            samples.append({"config": ls[0], "tag": modelled[hi].tag, "ops": ls[1:4], "impl": a[1:4], "model": m[1:4]})
    return ck.finish(
        "proof",
        {"evaluations": compared + mon_only_ops, "distinct_nontrivial": stats["nontrivial"],
         "rule": "operations of generated allocator histories (seeded by VERIF_SEED): corpus + directed exact-fill/release patterns + all "
                 "histories of depth %d over a 13-letter (quick: 10-letter) alphabet on the minimum block + block-size boundary requests (k*block_size +- 0..2 granules +- 1 byte) + random histories in 6 styles per (13 option sets x "
                 "granularity 64/128/256); an operation is non-trivial when it succeeded and changed or exposed allocator state "
                 "(A/R/S/Q/W ok, every reset); each counted once per (history, position)" % depth,
         "samples": samples, "ops_by_kind": stats["ops"], "histories": len(hists),
         "proved_vs_compared": {
             "proved (all histories, all configurations; coqc re-checks Properties_C09.v)": "%d theorems" % len(obl),
             "translated from the source on this run and re-checked by reflection (coq/gen/JitTables.v)": sum(table_counts.values()),
             "operations compared with the extracted model (answer, block digest, cursor, fill range)": compared,
             "operations judged by the independent monitor only (large pages)": mon_only_ops,
             "events judged by the proven trace judge": stats.get("judge_events", 0),
             "word-level calls compared with C18's extracted models": stats.get("word_level_lines_compared", 0),
             "word-level calls judged by the bit-level reference": stats.get("word_level_lines_judged_by_reference", 0)},
         "histories_by_source": {"corpus": n_corpus, "directed": n_directed, "bounded_exhaustive": n_exh, "random": n_random},
         "traces_validated_against_impl": len(modelled), "ops_compared_with_model": compared,
         "ops_monitor_only_large_pages_and_vm_failure": mon_only_ops, "vm_failures_compared_with_model": stats.get("vm_failures_modelled", 0), "histories_cut_at_known_defect": cut_histories,
         "queries_outside_block_not_compared": stats["q_oob"],
         "branch_counters": dict(sorted(stats["branches"].items())),
         "translated_table_rows": table_counts, "translated_tables_fast_path": regen is None,
         "word_level_lines_compared": stats.get("word_level_lines_compared", 0),
         "word_level_lines_judged_by_reference": stats.get("word_level_lines_judged_by_reference", 0),
         "traces_judged_by_proven_checker": stats.get("judge_traces", 0), "events_judged_by_proven_checker": stats.get("judge_events", 0),
         "model_vs_impl_disagreements": stats["disagreements"], "model_variant_bits": vbits,
         "defects_present_by_probe": sorted(present), "known_defect_reports": stats["known_reports"],
         "option_sets": optsets, "granularities": grans},
        assumptions=["the C++ harness drives the real JitAllocator of VERIF_REPO's working tree (jitallocator.cpp is #included, virtmem.cpp linked)",
                     "theorems are about the Gallina model (bit-level; the 64-bit word tricks of BitVectorRangeIterator/bit_vector_* are tied by "
                     "the exact-offset differential run only); virtual memory, dual mapping, fill pattern, contents and the RB-tree lookup are "
                     "not modelled: they are judged by the independent monitor on the explored histories",
                     "theorems quantify over histories whose release/shrink arguments are live span starts or foreign pointers (stale/interior "
                     "pointers are undefined behaviour of the API, DESIGN 7.11)",
                     "the theorems are about the repaired behaviour (variant `fixed`); for a tree that still has a recorded defect the "
                     "correspondence runs against the pinned variant of the same model and the defect is reported as C09/known/<slug>"],
        checker_cmd="coqc (Coq 8.16.1) -Q coq/theories Verif coq/theories/Properties/Properties_C09.v  [full .vo build of its dependencies]",
        trusted_base=["Coq 8.16.1 kernel incl. vm_compute (no native_compute)", "no axioms: every theorem 'Closed under the global context'",
                      "extraction (ExtrOcamlBasic only) + OCaml 4.13.1 + zarith glue in ml/zconv.ml", "harness/c09_harness.cpp, harness/c09_monitor.h, "
                      "ml/c09_driver.ml, tools/checks/c09.py (generator, differ, defect probes)"])

"""C16 — Reset, reinit and reuse of holders and emitters leave no residue.

S1 translate : tools/c16_fields.py (clang AST of /repo's working tree) -> coq/gen/ResetFields.v (member lists, writes, call graph)
S2 theorems  : coq/theories/Properties/Properties_C16.v — coverage obligation re-proved over the regenerated data by reflection
               (ck.coq_regen), lifecycle model theorems (Lifecycle/LifecycleModel.v, LifecycleProofs.v)
S3 tie       : (T) the translator above; (C) harness/c16_harness.cpp prints, after every lifecycle step, the holder/emitter state
               (initialised, attached, #sections, #labels, #relocations, loggers); the extracted Coq lifecycle model
               (coq/extract/Extract_Lifecycle.v + ml/c16_driver.ml) predicts the same line from the same script
S4 search    : fresh-vs-recycled differential (plain and ASan builds): the final program of every lifecycle is generated on the
               recycled objects and on fresh objects; sections / labels / relocations / API-visible ids must be byte-identical.
               Independent monitors: section names equal the requested names; AddressSanitizer (use after reset).
"""
import json
import os
import random
import re
import sys
from concurrent.futures import ThreadPoolExecutor

import vlib

sys.path.insert(0, os.path.dirname(os.path.dirname(os.path.abspath(__file__))))
import c16_fields  # noqa: E402

SECTION_NAMES = [".data", ".rodata", "sec_a", "a_rather_long_section_name_0123456"]
RESETISH = ["RS", "RH", "RI", "NH", "NHa"]


# ------------------------------------------------------------------ program generator
class ProgGen:
    """Random program for one emitter kind; keeps the label discipline that makes the program VALID usage:
    a label is bound at most once; a reference to an already bound label is only made from the label's own section
    (cross-section references to bound labels are C03's known finding 7.14 and would put a heap address in the dump);
    Compiler programs bind every label they jump to, inside the function."""

    def __init__(self, rng, kind, arch, size, allow_error, final, ja=True, mode32=False):
        self.r, self.kind, self.arch, self.size, self.allow_error, self.final = rng, kind, arch, size, allow_error, final
        self.ja = ja
        self.mode32 = mode32

    def gen(self):
        return self.gen_compiler() if self.kind == "c" else self.gen_raw()

    def gen_raw(self):
        r = self.r
        ops = []
        nlab = r.randrange(1, 7)
        for i in range(nlab):
            ops.append("l" if r.random() < 0.75 else "nnl%d_%d" % (i, r.randrange(3)))
        if r.random() < 0.12:
            ops.append("L%d" % r.choice([40, 150, 400]))      # anonymous labels nobody references (label_of() indexes only the labels
                                                               # created by `l`/`n`); they make the holder arena outgrow a small first block
        bound = {}          # label -> section index where it is bound
        home = {}           # label -> the only section that may reference or bind it (Builder serialises section by section,
        cur = 0             # so program order is not emission order: keep every label reference inside one section)
        addrtab = None
        nsec = 1
        n = r.randrange(2, self.size)
        for _ in range(n):
            c = r.random()
            if c < 0.12:
                k = r.randrange(nlab)
                if k not in bound and home.get(k, cur) == cur:
                    bound[k] = cur
                    home[k] = cur
                    ops.append("b%d" % k)
            elif c < 0.30:
                k = self.pick_ref(nlab, home, cur)
                if k is not None:
                    ops.append(("j%d" % k) if r.random() < 0.5 else "c%d.%d" % (k, r.randrange(10)))
            elif c < 0.50:
                ops.append(r.choice("ax") + "%d.%d" % (r.randrange(10), r.randrange(10)))
            elif c < 0.58:
                ops.append("m%d.%d" % (r.randrange(10), r.randrange(200)))
            elif c < 0.66:
                k = self.pick_ref(nlab, home, cur)
                if k is not None:
                    ops.append("o%d.%d" % (r.randrange(10), k))
            elif c < 0.74:
                ops.append("e%d" % r.choice([1, 3, 8, 16, 33, 100, 700]))
            elif c < 0.80:
                ops.append("q%d" % r.randrange(nlab))
            elif c < 0.84:
                a = r.randrange(nlab); b = r.randrange(nlab)
                if a in bound and b in bound and bound[a] == bound[b]:
                    ops.append("d%d.%d" % (a, b))
            elif c < 0.90 and nsec < 5:
                ops.append("s" + r.choice(SECTION_NAMES))
                cur = nsec
                nsec += 1
            elif c < 0.93 and nsec > 1:
                cur = r.choice([i for i in range(nsec) if i != addrtab])
                ops.append("t%d" % cur)
            elif c < 0.96:
                ops.append("g%d" % r.randrange(6))
            elif c < 0.975 and self.arch == "x":
                ops.append("k%d" % r.randrange(4))
                if self.kind == "a" and addrtab is None and not self.mode32:
                    addrtab = nsec          # the Assembler creates the .addrtab section (next section id) at the first `call abs`
                    nsec += 1
            elif c < 0.985:
                ops.append("i" if r.random() < 0.5 else "w")
            elif self.allow_error:
                ops.append("z")
        if self.kind == "b" and (self.final or r.random() < 0.5):
            ops.append("Z")
        if (self.kind == "a" or ops[-1] == "Z") and r.random() < 0.25:
            ops.append("f")          # flatten + resolve_cross_section_fixups + relocate_to_base
        return ",".join(ops)

    def pick_ref(self, nlab, home, cur):
        cands = [k for k in range(nlab) if home.get(k, cur) == cur]
        if not cands:
            return None
        k = self.r.choice(cands)
        home[k] = cur
        return k

    def gen_compiler(self):
        """1-2 functions. Label references are generated with function-local numbers ("@k") and rendered with the function's
        label offset, so that the LAST function can also be rendered alone (self.alone): C16_function_independent says its code
        must not depend on the function compiled before it by the same Compiler."""
        r = self.r
        nfun = 1 if r.random() < 0.6 else 2
        complete = self.final or r.random() < 0.7
        funcs = []                       # (number of labels, ops with @k placeholders, complete?)
        for fi in range(nfun):
            nl = r.randrange(0, 4)
            labs = list(range(nl))
            ops = ["F%d" % r.randrange(4)]
            for _ in range(r.randrange(1, 4)):
                ops.append("v%d" % r.randrange(100))
            if nfun == 2 and fi == 0 and r.random() < 0.6:
                ops.append("h%d" % (r.randrange(11, 16) if self.arch == "x" else r.randrange(22, 28)))   # register pressure: callee-saved registers get clobbered
            tobind = list(labs)
            for _ in range(r.randrange(2, self.size)):
                c = r.random()
                if c < 0.35:
                    ops.append(r.choice("ax") + "%d.%d" % (r.randrange(8), r.randrange(8)))
                elif c < 0.45:
                    ops.append("v%d" % r.randrange(100))
                elif c < 0.55:
                    ops.append("m%d.%d" % (r.randrange(8), r.randrange(200)))
                elif c < 0.70 and labs:
                    ops.append("c@%d.%d" % (r.choice(labs), r.randrange(8)))
                elif c < 0.80 and tobind:
                    ops.append("b@%d" % tobind.pop(r.randrange(len(tobind))))
                elif c < 0.86:
                    if self.ja:
                        ops.append("y")
                elif c < 0.91:
                    ops.append("K%d.%d" % (r.randrange(50), r.randrange(8)))
                elif c < 0.96:
                    ops.append("T%d" % r.randrange(8))
                elif c < 0.98:
                    ops.append("w" if r.random() < 0.5 else "i")
                elif self.allow_error:
                    ops.append("z")
            abandoned = (not complete) and fi == nfun - 1
            ra_fails = bool(tobind) and any(o.startswith("c@%d." % k) for k in tobind for o in ops) and r.random() < (0.05 if self.final else 0.2)
            if ra_fails:
                tobind = []              # a jump target stays unbound: the register allocator refuses the function (kInvalidState)
                self.ra_failures = getattr(self, "ra_failures", 0) + 1
            if not abandoned:
                ops += ["b@%d" % k for k in tobind]
                ops.append("R%d" % r.randrange(8))
                ops.append("E")
            funcs.append((nl, ops, not abandoned))

        def render(nl, ops, off):
            return ["l"] * nl + [re.sub(r"@(\d+)", lambda m: str(int(m.group(1)) + off), o) for o in ops]
        out, off = [], 0
        for nl, ops, _ok in funcs:
            out += render(nl, ops, off)
            off += nl
        self.alone = None
        if complete:
            if nfun == 1 and r.random() < 0.2:
                out.append("e%d" % r.choice([4, 16, 64]))
            out.append("Z")
            nl, ops, ok = funcs[-1]
            if nfun == 2 and ok and not getattr(self, "ra_failures", 0) and not any(o[0] in "Kz" for o in ops) and not any(o[0] == "z" for o in funcs[0][1]):
                self.alone = ",".join(render(nl, ops, 0) + ["Z"])
            elif r.random() < 0.25:
                out.append("f")
        if r.random() < 0.1:
            out.insert(0, "L%d" % r.choice([40, 150, 400]))
        return ",".join(out)


def finalizes(prog):
    return prog.endswith("Z") or prog.endswith("Z,f")


def gen_case(rng, cid, tier, arch=None, kind=None, ja=True):
    arch = arch or rng.choice("xa")
    kind = kind or rng.choice("abc")
    static = rng.choice([0, 0, 0, 2048, 16384, 65536])
    maxsteps = 12 if tier == "quick" else 40
    nhist = rng.randrange(1, maxsteps)
    steps = []
    validation = False
    mode = {"cur": False, "pending": False}      # x86 only: holder initialised for 32-bit x86 / requested for the next init
    size = rng.choice([6, 12, 30, 80]) if tier == "quick" else rng.choice([6, 12, 30, 80, 300])

    def resetish():
        st = rng.choice(RESETISH)
        if st != "RI":
            mode["cur"] = mode["pending"]
        return st
    for _ in range(nhist):
        c = rng.random()
        if c < 0.42:
            prog = ProgGen(rng, kind, arch, size, True, False, ja, mode["cur"]).gen()
            steps.append("G:" + prog)
            if kind != "a" and finalizes(prog):
                steps.append(resetish())      # generating again after finalize() without a reset is invalid usage
        elif c < 0.64:
            steps.append(resetish())
        elif c < 0.69:
            steps.append("DA")
        elif c < 0.72:
            steps.append("NE")
        elif c < 0.79:
            steps.append(rng.choice(["L1", "L0", "EL1", "EL0"]))
        elif c < 0.83:
            validation = not validation
            steps.append("V1" if validation else "V0")
        elif c < 0.89:
            steps.append(rng.choice(["XA", "XA", "XD", "XN"]))
        elif c < 0.93:
            if arch == "x" and kind != "c":
                mode["pending"] = not mode["pending"]
                steps.append("E32" if mode["pending"] else "E64")
            else:
                steps.append("B%x" % rng.choice([0x400000, 0x7F0000000000, 0x10000]))
        elif c < 0.95:
            steps.append(rng.choice(["B", "B400000", "B7f0000000000"]))
        else:
            steps.append("H%d" % rng.randrange(1000000))
    if validation:
        steps.append("V0")
    steps.append(resetish())
    # neutral steps between the reset and the final program: none of them may influence the output
    for _ in range(rng.randrange(0, 4)):
        steps.append(rng.choice(["L1", "L0", "EL1", "EL0", "H%d" % rng.randrange(1000000), "DA", "NE", "XA", "XD", "E32" if arch == "x" and kind != "c" else "XN",
                                 "B1000"]))
    pg = ProgGen(rng, kind, arch, size, rng.random() < 0.3, True, ja, mode["cur"])
    steps.append("P:" + pg.gen())
    if kind == "c" and getattr(pg, "alone", None):
        steps.append("Q:" + pg.alone)      # the last function of the final program, alone, on fresh objects
    return "C %s %s %s %d %s" % (cid, arch, kind, static, " ".join(steps))


# the two residue defects recorded in DESIGN 7.16 / 7.18: fixed scenarios, always run (they exhibit the KNOWN findings on a
# tree that does not have the fixes yet, and stay silent afterwards)
WITNESS = [
    "C w-ja-reinit-x x c 0 G:l,F1,y,y,y,y,y,R0,E,Z RI P:l,l,l,l,l,l,l,l,F1,y,b0,R0,E,Z",
    "C w-ja-reinit-a a c 0 G:l,F1,y,y,y,y,y,R0,E,Z RI P:l,l,l,l,l,l,l,l,F1,y,b0,R0,E,Z",
    "C w-ja-newholder-x x c 0 G:l,F2,y,y,R0,E,Z NH P:F1,y,R0,E,Z",
    "C w-ja-softreset-a a c 0 G:l,F2,y,y,R0,E,Z RS P:F1,y,R0,E,Z",
    # static arena memory (2 KiB first block), outgrown by a few hundred labels, hard reset, outgrown again (seeded change C16-3:
    # the static block must not stay linked to the heap blocks the hard reset has just freed)
    "C w-static-hard-x x a 2048 G:L400,l,b0 RH P:L400,l,b0,a0.1",
    "C w-static-hard-a a b 2048 G:L400,l,b0,Z RH RH P:L400,l,b0,a0.1,Z",
    "C w-static-hard-c x c 2048 G:L400,F1,R0,E,Z RH NE P:L400,F1,R0,E,Z",
    "C w-name-reinit-x x a 0 G:" + ",".join("nlabel_with_a_long_name_%d" % i for i in range(60)) + " RI P:l,s.data,e8,b0",
    "C w-name-softreset-a a b 0 G:" + ",".join("nlabel_with_a_long_name_%d" % i for i in range(60)) + ",Z RS P:l,s.data,e8,b0,ssec_a,e3,Z",
]


# DESIGN 7.3' (C18 owns fixes/C18-arena-soft-reset.patch): after a soft reset Arena::_alloc_oneshot skips a retained block that is
# too small, frees it, but leaves the previous block's `next` pointing at it; the next hard reset / destructor walks into freed
# memory. Reached through the Builder arena (blocks of 128K, 256K, 512K): embed 100000, 100000, 200000 bytes; reinit (soft reset of
# the builder arena); embed 300000 bytes -> the 256K block is skipped and freed. Undefined behaviour in the plain builds, so these
# lifecycles run under ASan only.
WITNESS_ASAN_ONLY = [
    "C w-arena-soft-x x b 0 G:e100000,e100000,e200000 RI P:e300000,Z",
    "C w-arena-soft-a a c 0 G:e100000,e100000,e200000 RS P:l,e300000,Z",
]


# finalize() again after a finalize() that failed in the SERIALISATION step (invalid instruction reaches the Assembler; the register
# allocator itself succeeded): the label / instruction nodes still carry RABlock / RAInst pointers into the pass arena that
# run_on_function has reset (only rewritten instructions get their pass data cleared), so the second register allocation follows
# dangling pointers (SEGV in Arena::_release_dynamic via RABlock::append_successor). fixes/C16-ra-pass-data.patch clears the pass
# data of the function's nodes. Both the recycled and the fresh objects run the same program, so an unfixed tree crashes in both.
# (finalize() again after a failed REGISTER ALLOCATION is kept out: the node list is half transformed then, see design/C16.md.)
WITNESS_REFINALIZE = [
    "C w-refin-x x c 0 RI P:F1,v1,z,R0,E,Z,Z",
    "C w-refin-a a c 0 G:l,F1,v2,R0,E,Z RI P:l,F2,v1,c0.1,z,b0,R0,E,Z,Z",
    # finalize() again after a failed REGISTER ALLOCATION (jump to a label that is never bound): supported since /repo 45bb8d0
    "C w-refin-ra-x x c 0 RI P:l,F1,v1,c0.1,R0,E,Z,Z",
    "C w-refin-ra-a a c 0 G:l,F1,v1,c0.1,R0,E,Z RS P:l,l,F2,v1,h24,c1.1,R0,E,Z,Z",
]


# ------------------------------------------------------------------ running
def run_cases(exe, cases, shards=16, timeout=1500, env=None):
    chunks = [cases[i::shards] for i in range(shards)]

    def one(chunk):
        if not chunk:
            return (0, "", "")
        return vlib.sh([exe], inp="\n".join(chunk) + "\n", timeout=timeout, env=env)
    with ThreadPoolExecutor(max_workers=shards) as ex:
        res = list(ex.map(one, chunks))
    out = {}
    errtxt = {}
    bad = []
    for (rc, o, e) in res:
        if rc != 0:
            bad.append((rc, e[-2000:]))
        for line in o.split("\n"):
            if not line:
                continue
            t = line.split(" ", 2)
            if len(t) < 3:
                continue
            out.setdefault(t[1], {})[t[0]] = t[2]
        for blk in e.split("=== case ")[1:]:
            cid, _, rest = blk.partition("\n")
            if rest.strip():
                errtxt[cid.strip()] = rest
    return out, errtxt, bad


FIELD_RE = re.compile(r"(\w+\[[^\]]*\]|\S+)")


def fields(dump):
    return FIELD_RE.findall(dump)


def classify_diff(rec, fresh):
    """returns (kind, detail) for two differing dumps"""
    fr, ff = fields(rec), fields(fresh)
    d = []
    if len(fr) != len(ff):
        d.append("field-count")
    for a, b in zip(fr, ff):
        if a != b:
            d.append((a, b))
    only_ja = True
    for x in d:
        if x == "field-count":
            only_ja = False
            continue
        a, b = x
        if a.startswith("ja=") and b.startswith("ja="):
            continue
        if a.startswith("errs=") and b.startswith("errs="):
            ea, eb = a[5:].split(","), b[5:].split(",")
            if len(ea) == len(eb) and all(x == y or (int(x) >= 1000 and int(y) >= 1000) for x, y in zip(ea, eb)):
                continue
        only_ja = False
    first = d[0] if d else None
    return ("ja" if only_ja else "other"), first


def asan_key(text):
    """canonical key of a sanitizer report: error kind + innermost asmjit frames"""
    m = re.search(r"ERROR: AddressSanitizer: ([\w-]+)", text)
    kind = m.group(1) if m else ("ubsan" if "runtime error" in text else "crash")
    frames = re.findall(r"#\d+ 0x[0-9a-f]+ in (asmjit::[^\s(]+)", text)
    frames = [re.sub(r"asmjit::(v\d+_\d+|_abi_\w+)::", "", f) for f in frames]
    top = frames[0] if frames else "?"
    freed = text.split("freed by thread", 1)[1].split("previously allocated", 1)[0] if "freed by thread" in text else ""
    if kind == "heap-use-after-free" and "Arena::_alloc_oneshot" in freed and top.startswith("Arena::"):
        # the block was released by the skip loop of _alloc_oneshot and is reached again through the block list
        return "C16/asan/arena-block-list-after-soft-reset", kind, frames[:6]
    return "C16/asan/%s/%s" % (kind, top), kind, frames[:6]


INITIAL_STATE = "1/1/1/1/0/0/0/0/0/0/0/0"


NAME_IDS = {}


def predict_ops(prog, kind, arch, mode32, has_base=False, bstate=None):
    """program of the harness -> operations of the lifecycle model's SProg (counter effects computed by the proven model), or
    None when the counter effects depend on things the model does not have (a Builder's .addrtab appears during serialisation
    and only if the call node is reached)."""
    out = []
    for op in prog.split(","):
        if not op:
            continue
        c = op[0]
        if c == "l":
            out.append("l1")
        elif c == "L":
            out.append("l" + op[1:])
        elif c == "n":
            out.append("n%d" % NAME_IDS.setdefault(op[1:], len(NAME_IDS) + 1))
            if bstate is not None:
                bstate["z"] = True   # a refused (duplicate) name gives an invalid label: a reference to it stops the serialisation too
        elif c == "s":
            out.append("s")
        elif c == "k":
            if arch == "x" and not mode32 and has_base:
                return None          # known base address: the call may be encoded directly, without an address-table entry
            if kind == "b" and arch == "x" and not mode32:
                bstate["k"] = True   # Builder: the .addrtab section appears when finalize() serialises the call (see 'Z' below)
            if kind == "a" and arch == "x" and not mode32:
                out.append("a")
        elif kind == "b" and c == "z":
            bstate["z"] = True       # an invalid instruction stops the serialisation: what is behind it is never reached
        elif kind == "b" and c == "Z":
            if bstate["z"] and bstate["k"]:
                return None          # whether the call node is reached depends on the serialisation order
            if bstate["k"]:
                out.append("a")
        elif kind == "c":
            if c == "F":
                out.append("F%d" % (int(op[1:]) % 4))
            elif c == "v" or c == "T":
                out.append("v1")
            elif c == "h":
                out.append("v" + op[1:])
            elif c == "K" and arch == "x":
                out.append("c")
            elif c == "E":
                out.append("E")
            elif c == "y":
                out.append("y")
    return out


def model_script(case, trace, counters=None):
    """lifecycle script for the model. Programs are given by their OPERATIONS whenever their counter effects are predictable
    (the model computes labels / sections / registers / annotations; relocation count and pending one-shot state are inputs);
    otherwise by their measured effect."""
    t = case.split(" ")
    arch, kind = t[2], t[3]
    steps = [x for x in t[5:] if not x.startswith("Q:")]
    states = trace.split(" ")
    if len(states) != len(steps):
        return None
    out = []
    prev = INITIAL_STATE.split("/")
    cur32 = pend32 = False
    cur_base = pend_base = False
    unpredictable = False          # until the next reset-like step
    bstate = {"k": False, "z": False}   # Builder: absolute call / invalid instruction recorded since the last reset
    for st, obs in zip(steps, states):
        cur = obs.split("/")
        if st[:2] in ("G:", "P:"):
            d = [int(cur[i]) - int(prev[i]) for i in (3, 4, 5, 8, 9)]
            if min(d) < 0:
                return None          # a program cannot remove sections / labels / relocations / registers / annotations
            prog = st[2:]
            ops = None if unpredictable else predict_ops(prog, kind, arch, cur32, cur_base, bstate)
            if ops is None:
                unpredictable = True
                out.append("G%d.%d.%d.%d.%d.%s" % (tuple(d) + (cur[10],)))
                if counters is not None:
                    counters["measured_programs"] = counters.get("measured_programs", 0) + 1
            else:
                ra = int(cur[11]) - int(prev[11])        # labels created inside finalize() (register allocator): an input
                if ra:
                    ops = ops + ["l%d" % ra]
                out.append("P%d.%s:%s" % (d[2], cur[10], "+".join(ops)))
                if counters is not None:
                    counters["predicted_programs"] = counters.get("predicted_programs", 0) + 1
        elif st == "NHa":
            out.append("NH")
        elif st[0] in "HBE" and st not in ("EL1", "EL0"):
            out.append("H")
            if st == "E32":
                pend32 = arch == "x" and kind != "c"
            elif st == "E64":
                pend32 = False
            elif st[0] == "B":
                pend_base = len(st) > 1
        else:
            out.append(st)
        if st in ("RS", "RH", "NH", "NHa"):
            cur32 = pend32
            cur_base = pend_base
            unpredictable = False
            bstate = {"k": False, "z": False}
        elif st == "RI":
            unpredictable = False
            bstate = {"k": False, "z": False}
        elif st in ("DA", "NE"):
            bstate = {"k": False, "z": False}       # the Builder's node list is cleared; the holder (and a possibly unknown
                                                    # .addrtab state) stays, so `unpredictable` stays as it is
        prev = cur
    return t[1] + " " + " ".join(out)


def recycled_builder_correspondence(ck, rng):
    """Command-level correspondence for RECYCLED builders: C08's command streams (tools/c08_gen.py) are executed by a Builder and a
    Compiler that were used before and re-initialised (harness/c16_recycled_builder.cpp includes C08's harness for the command
    interpreter and the canonical dump); every per-command answer must equal the one C08's extracted Coq model gives from its
    initial state. Returns the counters for the evidence. C08's files are used read-only; if they no longer build the stage is
    skipped and says so."""
    info = {"programs": 0, "modes": ["reinit", "soft reset + init + attach", "hard reset + init + attach", "detach + attach (holder kept)"], "steps_compared": 0,
            "disagreements": 0, "fresh_vs_c08_model_disagreements": 0}
    try:
        import c08_gen
        impl = ck.build_harness("c08", ["c08_harness.cpp"])
        rb = ck.build_harness("c16rb", ["c16_recycled_builder.cpp"])
        model = ck.ocaml_model("Extract_Builder.v", ["zconv.ml", "c08_driver.ml"], name="c08")
        rc, cat_text, err = vlib.sh([impl, "catalog"], timeout=120)
        cat = c08_gen.Catalog(cat_text)
    except Exception as e:           # noqa: BLE001 - another property's machinery, not this property's verdict
        info["skipped"] = "C08's harness / model / generator could not be built: %s" % str(e)[-300:]
        ck.notes.append("recycled-builder correspondence skipped: " + info["skipped"])
        return info
    n = 240 if ck.tier == "quick" else 3000
    texts = []
    kinds = ["pure", "edit", "malformed"]
    for i in range(n):
        t, m = c08_gen.make_program(rng, cat, i, [1, 0, 2][i % 3], kinds[(i // 3) % 3])
        if not m.get("validate"):                 # the validator's verdict is an input of C08's model: needs C08's own plumbing
            texts.append((i, t))
    info["programs"] = len(texts)
    chunks = [texts[i::8] for i in range(8)]

    def steps_of(out, tag):
        d = {}
        for l in out.split("\n"):
            t = l.split()
            if len(t) >= 5 and t[1] == tag:
                d.setdefault(t[0], []).append(" ".join(t[2:]))
        return d
    for ch in chunks:
        if not ch:
            continue
        inp = "".join(t for _i, t in ch)
        rc, mo, me = vlib.sh([model], inp=inp, timeout=600)
        want = steps_of(mo, "STEP")
        # the same streams on FRESH builders (C08's own harness): when fresh objects already disagree with C08's model -- e.g. a fix
        # commit in /repo that C08's model does not describe yet -- that is C08's tie, not a residue; this property's verdict is
        # "recycled = fresh", the model is the second witness
        rc, fo, fe = vlib.sh([impl, "run"], inp=inp, timeout=600)
        fresh = {"STEP": steps_of(fo, "STEP"), "STEPC": steps_of(fo, "STEPC")}
        for i, t in ch:
            if fresh["STEP"].get("p%d" % i, []) != want.get("p%d" % i, []):
                info["fresh_vs_c08_model_disagreements"] += 1
        passes = [(how, inp, ch, want, fresh) for how in (0, 1, 2, 3)]
        # probing variant (tie of C16_no_label_survives_reset): the stream starts by binding label ids 0 and 2 -- after a reset no
        # label of the earlier use may be nameable (kInvalidLabel), exactly as C08's model answers from its initial state
        pch = ch[:8]
        pinp = "".join(t.split("\n", 1)[0] + "\nB 0\nB 2\n" + t.split("\n", 1)[1] for _i, t in pch)
        rc, pmo, pme = vlib.sh([model], inp=pinp, timeout=600)
        rc, pfo, pfe = vlib.sh([impl, "run"], inp=pinp, timeout=600)
        pwant, pfresh = steps_of(pmo, "STEP"), {"STEP": steps_of(pfo, "STEP"), "STEPC": steps_of(pfo, "STEPC")}
        for i, _t in pch:
            w0 = pwant.get("p%d" % i, [])
            if len(w0) >= 2 and not (w0[0].split()[1] == "12" and w0[1].split()[1] == "12"):
                ck.violation("C16/recycled-builder/probe-model", "C08's model does not refuse binding a label on its initial state: %s" % w0[:2],
                             {"broken": "probe of C16_no_label_survives_reset"}, no_input=True)
            info["label_probes"] = info.get("label_probes", 0) + 2 * 3 * 2
        passes += [(how, pinp, pch, pwant, pfresh) for how in (0, 1, 2)]
        for how, inp, ch, want, fresh in passes:
            rc, o, e = vlib.sh([rb, str(how)], inp=inp, timeout=600)
            if rc != 0:
                ck.violation("C16/recycled-builder/crash", "recycled builder harness died (mode %s): %s" % (info["modes"][how], e[-400:]),
                             {"mode": how, "programs": inp[:3000]})
                continue
            for tag in ("STEP", "STEPC"):
                got = steps_of(o, tag)
                for i, t in ch:
                    g, w_ = got.get("p%d" % i, []), want.get("p%d" % i, [])
                    fr = fresh[tag].get("p%d" % i, [])
                    info["steps_compared"] += len(w_)
                    if g != w_ and g == fr:
                        continue          # fresh objects give the same answers: counted above, C08's business
                    if g != w_:
                        info["disagreements"] += 1
                        k = next((j for j, (a, b) in enumerate(zip(g, w_)) if a != b), min(len(g), len(w_)))
                        ck.violation("C16/recycled-builder/%s/%s" % ("builder" if tag == "STEP" else "compiler", ["reinit", "soft", "hard", "reattach"][how]),
                                     "a %s that was used before and re-initialised (%s) answers command %d of a C08 command stream differently "
                                     "from C08's proven Builder model started in its initial state AND from a fresh emitter: impl %s, model %s, "
                                     "fresh %s" % ("Builder" if tag == "STEP" else "Compiler", info["modes"][how], k, g[k:k + 1], w_[k:k + 1], fr[k:k + 1]),
                                     {"program": t, "mode": info["modes"][how], "step": k})
    return info


def own_regen(ck, text):
    """Translator tie restricted to the one generated file this property owns (vlib's coq_regen recompiles ALL of coq/gen, i.e.
    every other property's tables as well). Same contract: None when the text equals the committed snapshot, else
    (gen_dir, failed_files, log) after compiling the regenerated ResetFields.v in a scratch VerifGen directory."""
    import shutil
    committed = os.path.join(vlib.COQ, "gen", "ResetFields.v")
    if os.path.exists(committed) and open(committed).read() == text:
        return None
    wgen = os.path.join(ck.work, "gen")
    shutil.rmtree(wgen, ignore_errors=True)
    os.makedirs(wgen)
    open(os.path.join(wgen, "ResetFields.v"), "w").write(text)
    failed = ck.coq_make(["theories/Lifecycle/ResetProofs.vo"])
    if failed:
        return wgen, ["<theories/Lifecycle>"], getattr(ck, "coq_log", "")
    rc, out, err = vlib.sh(["coqc", "-Q", os.path.join(vlib.COQ, "theories"), "Verif", "-Q", wgen, "VerifGen", "-w", "-all",
                            os.path.join(wgen, "ResetFields.v")], cwd=wgen, timeout=900)
    return wgen, ([] if rc == 0 else ["ResetFields.v"]), (out + err)[-3000:]


def strip_field(dump, name):
    return " ".join(f for f in fields(dump) if not f.startswith(name + "="))


def run(ck):
    rng = random.Random(ck.seed)
    repo = vlib.REPO

    # ---------------------------------------------------------------- S1 + S2: translator and theorems
    classes, funcs = c16_fields.run(repo)
    text = c16_fields.to_coq(classes, funcs)
    nfields = sum(len(v["fields"]) for k, v in classes.items() if k in c16_fields.CLASSES)
    ck.log("translator: %d classes, %d functions, %d members" % (len([c for c in classes if c in c16_fields.CLASSES]), len(funcs), nfields))
    spec_text = open(os.path.join(vlib.COQ, "theories", "Lifecycle", "ResetSpec.v")).read()
    vf = re.search(r"(?s)Definition value_funcs : list string :=\s*\[(.*?)\]\.", spec_text)
    value_funcs = set(re.findall(r'"([^"]+)"', vf.group(1))) if vf else set()
    value_rows = [(q, v) for q in value_funcs for v in funcs.get(q, {}).get("vals", ())]
    sq = re.search(r"(?s)Definition val_seq .*?\n\]\.", text)
    n_seq_rows = sq.group(0).count("  mk_val ") if sq else 0
    regen = own_regen(ck, text)
    gen_dir = None
    gen_failed = False
    uncovered = []
    bad_vals = []
    bad_td = []
    bad_ov = []
    hyg = closed = vhyg = tdok = awv = ovok = []
    if regen is not None:
        gen_dir, failed, log = regen
        gen_failed = bool(failed)
        ck.notes.append("coq/gen/ResetFields.v differs from the committed snapshot: regenerated and recompiled (failed: %s)" % failed)
        if gen_failed:
            # which members break the obligation? evaluated by the SAME Coq checker (function `uncovered`), not by python
            ev = re.sub(r"(?s)Lemma \w+ :.*?Qed\.", "", text) + \
                "Eval vm_compute in (uncovered classes funcs).\nEval vm_compute in (hygiene classes funcs).\n" \
                "Eval vm_compute in (reach_closed funcs).\nEval vm_compute in (bad_values inits vals).\n" \
                "Eval vm_compute in (values_hygiene inits vals).\nEval vm_compute in (bad_teardown inits val_seq funcs).\n" \
                "Eval vm_compute in (check_teardown inits val_seq funcs).\nEval vm_compute in (assign_writes_have_values funcs vals).\n" \
                "Eval vm_compute in (bad_object_values inits vals_on).\nEval vm_compute in (check_object_values inits vals_on).\n"
            rc, out = ck.coq_eval(ev, name="c16_uncovered")
            blocks = re.split(r"(?m)^\s+= ", out)[1:]          # one block per Eval, in order
            blocks += [""] * (10 - len(blocks))
            triple = r'\("([^"]*)",\s*"([^"]*)",\s*"([^"]*)"\)'
            uncovered = re.findall(triple, blocks[0])
            bad_vals = re.findall(triple, blocks[3])
            bad_td = re.findall(triple, blocks[5])
            isb = lambda b: re.findall(r"^(true|false)\s*:\s*bool", b.strip())[:1]
            hyg, closed, vhyg, tdok = isb(blocks[1]), isb(blocks[2]), isb(blocks[4]), isb(blocks[6])
            awv = isb(blocks[7])
            bad_ov = re.findall(triple, blocks[8])
            ovok = isb(blocks[9])
            for (fn_, cls_, fld_) in sorted(set(bad_ov)):
                dm_ = cls_ + "::" + fld_
                ck.violation("C16/reset-object-value/%s/%s/%s" % (fn_, cls_, fld_),
                             "%s assigns member %s of the object it resets a value that is not the member's initial value (theorem "
                             "C16_detached_object_gets_initial_values fails on the regenerated ResetFields.v)" % (fn_, dm_),
                             {"broken": "theorem C16_detached_object_gets_initial_values", "function": fn_, "class": cls_, "member": fld_,
                              "file": "coq/gen/ResetFields.v (regenerated)"}, no_input=True)
            if ovok == ["false"] and not bad_ov:
                ck.violation("C16/reset-object-list-stale", "a (function, object) pair of ResetSpec.value_obj_funcs no longer has an extracted "
                             "assignment", {"broken": "check_object_values inits vals_on = true"}, no_input=True)
            if awv == ["false"]:
                ck.violation("C16/translator-extractions-disagree", "a whole-member assign-write of a reviewed pure reset / tear-down function has no "
                             "extracted value row: the write list and the value list of tools/c16_fields.py disagree, so the value obligation "
                             "would not see that assignment", {"broken": "assign_writes_have_values funcs vals = true (gen/ResetFields.v)"},
                             no_input=True)
            ck.log("reflection lemma failed; uncovered members: %s; hygiene: %s; closures closed: %s; assignments that do not write the "
                   "initial value: %s; value lists live: %s; tear-down failures: %s (check_teardown: %s)" % (uncovered, hyg, closed, bad_vals, vhyg, bad_td, tdok))
            if tdok == ["false"] and not bad_td:
                ck.violation("C16/teardown-list-stale", "a function on the reviewed list of set-up/tear-down functions (ResetSpec.teardown_funcs) no "
                             "longer assigns any member twice (or no longer exists)",
                             {"broken": "check_teardown inits val_seq funcs = true (teardown_ok)"}, no_input=True)
            if vhyg == ["false"]:
                ck.violation("C16/reset-value-lists-stale", "a function on the reviewed list of pure reset functions (ResetSpec.value_funcs) has no "
                             "extracted assignment any more, or a reviewed value exception no longer names an assignment that differs from the "
                             "initial value", {"broken": "values_hygiene inits vals = true (part of reset_values_ok)"}, no_input=True)
            if closed == ["false"]:
                ck.violation("C16/reach-closure-incomplete", "the callee closure computed for a FollowAll root of a reset route is not closed under "
                             "the extracted call edges (fuel exhausted?): the coverage verdicts would be computed over too few functions",
                             {"broken": "reach_closed funcs = true (coq/gen/ResetFields.v)"}, no_input=True)
            if rc != 0 or (not uncovered and not bad_vals and hyg != ["false"] and closed != ["false"] and vhyg != ["false"]
                           and tdok != ["false"] and awv != ["false"] and ovok != ["false"]):
                ck.violation("C16/translator-output-does-not-compile", "regenerated ResetFields.v does not compile: %s" % (log + out)[-1500:],
                             {"broken": "translator tie coq/gen/ResetFields.v", "log": (log + out)[-3000:]}, no_input=True)
            elif hyg == ["false"]:
                ck.violation("C16/reset-spec-hygiene", "a routine, class, member or glue call named by the reviewed reset specification "
                             "(ResetSpec.v routes/persistent/specials/must_call) no longer exists in the tree",
                             {"broken": "hygiene classes funcs = true (part of reset_fields_ok)"}, no_input=True)
    if gen_failed:
        obl = ck.coq_properties()            # committed snapshot: lifecycle theorems still recorded; the coverage ones are overridden below
        cov_failed = bool(uncovered) or hyg == ["false"] or closed == ["false"]
        val_failed = bool(bad_vals) or vhyg == ["false"]
        td_failed = tdok == ["false"]
        if awv == ["false"]:
            val_failed = True
        ov_failed = ovok == ["false"]
        if not cov_failed and not val_failed and not td_failed and not ov_failed:
            cov_failed = val_failed = td_failed = ov_failed = True          # the regenerated file fails for a reason the evaluation did not identify
        for o in obl:
            if ov_failed and o["name"] == "C16_detached_object_gets_initial_values":
                o["ok"] = False
        for o in obl:
            if cov_failed and o["name"] in ("C16_every_field_reset", "C16_no_uncovered_member", "C16_route_glue_calls_present",
                                            "C16_covered_means_written", "C16_route_closure_complete"):
                o["ok"] = False
            if val_failed and o["name"] in ("C16_reset_value_is_initial_value", "C16_reset_value_lists_are_live",
                                            "C16_reset_function_leaves_initial_values", "C16_assign_idiom_writes_initial_value"):
                o["ok"] = False
            if td_failed and o["name"] in ("C16_teardown_restores_initial_value", "C16_teardown_final_store"):
                o["ok"] = False
    else:
        obl = ck.coq_properties(gen_dir=gen_dir)
    ck.log("theorems: %d, failed: %d" % (len(obl), len([o for o in obl if not o["ok"]])))

    # ---------------------------------------------------------------- S3/S4: harness
    # member table for the representation probe, generated from the same member lists as ResetFields.v
    import hashlib
    inc_dir = os.path.join(ck.work, "inc")
    os.makedirs(inc_dir, exist_ok=True)
    inc_text = c16_fields.members_inc(classes)
    inc_path = os.path.join(inc_dir, "c16_members.inc")
    if not os.path.exists(inc_path) or open(inc_path).read() != inc_text:
        open(inc_path, "w").write(inc_text)
    mflags = ["-DC16_HAVE_MEMBERS", "-I" + inc_dir, "-DC16_MEMBERS_HASH=0x" + hashlib.sha256(inc_text.encode()).hexdigest()[:8]]
    n_probe_members = inc_text.count("C16_MEMBER(") - inc_text.count("K_SKIP")
    exe_plain = ck.build_harness("c16", ["c16_harness.cpp"], variant="plain", extra=mflags)
    exe_dirty = ck.build_harness("c16d", ["c16_harness.cpp"], variant="plain", extra=mflags + ["-DC16_DIRTY_MALLOC"])
    exe_asan = ck.build_harness("c16", ["c16_harness.cpp"], variant="asan", extra=mflags)
    model = ck.ocaml_model("Extract_Lifecycle.v", ["c16_driver.ml"], name="c16")
    asan_env = dict(os.environ, ASAN_OPTIONS="detect_leaks=0:abort_on_error=0:allocator_may_return_null=1", UBSAN_OPTIONS="print_stacktrace=1")

    if ck.replay:
        rp = json.load(open(ck.replay))
        case = rp["replay"].get("case")
        if case:
            for nm, exe, env in (("plain", exe_plain, None), ("dirty-malloc", exe_dirty, None), ("asan", exe_asan, asan_env)):
                rc, out, err = vlib.sh([exe], inp=case + "\n", env=env, timeout=300)
                print("== %s build\n%s\n%s" % (nm, out, err[-3000:]))
                tr = [l for l in out.split("\n") if l.startswith("S ")]
                if nm == "plain" and tr:
                    ms = model_script(case, tr[0].split(" ", 2)[2])
                    if ms:
                        print("== lifecycle model (extracted) on the same script\n%s" % vlib.sh([model], inp=ms + "\n")[1])
        else:
            print("no concrete case stored: %s" % rp["replay"])
        return 0

    # A tree whose BaseCompiler does not reset _jump_annotations (DESIGN 7.16; flagged by name above) corrupts arena memory as soon
    # as an annotation is created after a reset: random lifecycles then avoid new_jump_annotation (the fixed witness lifecycles
    # still exercise it) so that the consequences of that one defect do not mask everything else.
    ja_ok = not any(u[1] == "BaseCompiler" and u[2] == "_jump_annotations" for u in uncovered)
    if not ja_ok:
        ck.notes.append("random lifecycles do not create jump annotations: BaseCompiler::_jump_annotations is not reset in this tree")
    ncases = 2000 if ck.tier == "quick" else 24000
    cases = list(WITNESS) + list(WITNESS_REFINALIZE)
    corpus = os.path.join(vlib.VERIF, "corpus", "C16.txt")
    if os.path.exists(corpus):
        cases += [l.strip() for l in open(corpus) if l.strip() and not l.startswith("#")]
    combos = [(a, k) for a in "xa" for k in "abc"]
    for i in range(ncases):
        a, k = combos[i % 6]
        cases.append(gen_case(rng, "g%d" % i, ck.tier, a, k, ja_ok))
    by_id = {c.split(" ", 2)[1]: c for c in cases}
    n_asan = min(len(cases), 700 if ck.tier == "quick" else 8000)
    asan_cases = list(WITNESS_ASAN_ONLY) + cases[:n_asan]
    for c in WITNESS_ASAN_ONLY:
        by_id[c.split(" ", 2)[1]] = c
    ck.log("cases: %d (asan on %d)" % (len(cases), n_asan))

    res_plain, err_plain, bad_plain = run_cases(exe_plain, cases)
    res_dirty, err_dirty, bad_dirty = run_cases(exe_dirty, cases)
    res_asan, err_asan, bad_asan = run_cases(exe_asan, asan_cases, env=asan_env, timeout=2400)
    if bad_plain or bad_asan or bad_dirty:
        ck.violation("C16/harness-crash", "harness process failed: %s" % (bad_plain or bad_asan or bad_dirty)[:2], {"detail": str((bad_plain or bad_asan or bad_dirty)[:2]),
                     "broken": "harness"}, no_input=True)

    stats = {"identical": 0, "crashed": 0, "name_monitor_hits": 0, "ja_diffs": 0, "other_diffs": 0, "asan_reports": 0,
             "probe_runs": 0, "probe_member_comparisons": 0, "probe_diffs": 0}
    dist = {"by_kind": {}, "steps": {}, "static_arena": 0, "with_error_op": 0, "final_reset": {}}
    nontrivial = set()
    witness_hits = set()
    probe_hits = {}
    detached_hits, detached_count = {}, {}
    for variant, res, errs, clist in (("plain", res_plain, err_plain, cases), ("dirty-malloc", res_dirty, err_dirty, cases),
                                      ("asan", res_asan, err_asan, asan_cases)):
        for c in clist:
            cid = c.split(" ", 2)[1]
            r = res.get(cid, {})
            if ("X" in r or "R" not in r or "F" not in r) and cid.startswith("w-ja-"):
                stats["ja_diffs"] += 1
                witness_hits.add("BaseCompiler/_jump_annotations")
                ck.violation("C16/residue/jump-annotations-survive-reset",
                             "%s build: witness lifecycle %s (jump annotations created, reset, created again) crashed: the stale "
                             "annotation vector points into the reset arena" % (variant, cid),
                             {"case": c, "variant": variant, "report": errs.get(cid, "")[-2000:]})
                continue
            if ("X" in r or "R" not in r or "F" not in r) and cid.startswith("w-refin-"):
                stats["refinalize_crashes"] = stats.get("refinalize_crashes", 0) + 1
                ck.violation("C16/residue/ra-pass-data-dangling-after-finalize",
                             "%s build: witness lifecycle %s (finalize() fails while serialising, finalize() again) crashed: nodes keep "
                             "RABlock / RAInst pointers into the reset pass arena" % (variant, cid),
                             {"case": c, "variant": variant, "report": errs.get(cid, "")[-2000:]})
                continue
            if "X" in r or "R" not in r or "F" not in r:
                stats["crashed"] += 1
                rep = errs.get(cid, "")
                key, kind, frames = asan_key(rep)
                stats["asan_reports"] += 1 if variant == "asan" else 0
                ck.violation(key, "%s build: lifecycle %s crashed / sanitizer report %s at %s" % (variant, cid, kind, frames),
                             {"case": c, "variant": variant, "report": rep[-3000:], "status": r.get("X")})
                continue
            rec, fresh = r["R"], r["F"]
            if "D" in r:
                dm = r["D"].split(" ")
                stats["detached_probe_comparisons"] = stats.get("detached_probe_comparisons", 0) + int(dm[0])
                if len(dm) > 1 and dm[1] != "-":
                    for part in dm[1].split(";"):
                        where, _, mems = part.partition(":")
                        for mem in mems.split(","):
                            detached_hits.setdefault(mem, (c, where, variant))
                            detached_count[mem] = detached_count.get(mem, 0) + 1
            if "M" in r:
                pm = r["M"].split(" ")
                stats["probe_runs"] += 1
                stats["probe_member_comparisons"] += int(pm[0])
                if len(pm) > 1 and pm[1] != "-":
                    stats["probe_diffs"] += 1
                    for mem in pm[1].split(","):
                        probe_hits.setdefault(mem, c)
                    for mem in pm[1].split(",")[:4]:
                        ck.violation("C16/residue/member/" + mem,
                                     "%s build: after the final reset-like step of the lifecycle the data member %s of the recycled object does "
                                     "not have the representation it has in a fresh object of the same configuration (bytes / null-ness / element "
                                     "count)" % (variant, mem), {"case": c, "variant": variant, "probe": r["M"]})
            elif variant == "plain":
                ck.violation("C16/probe-missing", "harness printed no representation probe line for %s" % cid, {"case": c, "broken": "harness probe"}, no_input=True)
            if "namesok=0" in rec or "namesok=0" in fresh:
                stats["name_monitor_hits"] += 1
                witness_hits.add("Section/_name")
                ck.violation("C16/residue/section-name-not-zero-terminated",
                             "%s build: a section created by CodeHolder::new_section has a name field that is not the requested name followed "
                             "by zeros (stale arena/heap bytes follow it; section_by_name compares the whole field)" % variant,
                             {"case": c, "variant": variant, "recycled": rec[:1500], "fresh": fresh[:1500]})
            if "T" in r:
                stats["function_independence_checks"] = stats.get("function_independence_checks", 0) + 1
                mt = re.search(r"sec\[0 \.text \S+ \S+ \S+ \S+ \S+ n\d+ ([0-9a-f]*)\]", rec)
                alone_errs, _, alone_text = r["T"].partition(" text=")
                errs_ok = all(int(x) in (0,) or int(x) >= 1000 for x in re.findall(r"-?\d+", alone_errs)) and \
                    all(int(x) == 0 or int(x) >= 1000 for x in fields(rec)[0][5:].split(","))
                if mt and errs_ok and alone_text and not mt.group(1).endswith(alone_text):
                    stats["function_independence_diffs"] = stats.get("function_independence_diffs", 0) + 1
                    ck.violation("C16/residue/function-depends-on-previous-function",
                                 "%s build: the code of the last function of a two-function Compiler program (%d bytes when compiled alone on "
                                 "fresh objects) is not the tail of the code generated when it is compiled after another function by the same "
                                 "Compiler (state of the previous function leaks into the next one)" % (variant, len(alone_text) // 2),
                                 {"case": c, "variant": variant, "alone": alone_text[:600], "combined_tail": mt.group(1)[-len(alone_text) - 64:][:800]})
            mpd = re.search(r" stalepd=(\d+)", rec)
            fpd = re.search(r" stalepd=(\d+)", fresh)
            if (mpd and int(mpd.group(1))) or (fpd and int(fpd.group(1))):
                stats["stale_pass_data_hits"] = stats.get("stale_pass_data_hits", 0) + 1
                ck.violation("C16/residue/ra-pass-data-left-on-nodes",
                             "%s build: after finalize() returned, %s node(s) of the Compiler (node list / label nodes) still carry register-"
                             "allocator pass data, which points into the pass arena that has been reset" %
                             (variant, (mpd or fpd).group(1) if (mpd and int(mpd.group(1))) else fpd.group(1)),
                             {"case": c, "variant": variant, "recycled": rec[:1200]})
            rec2, fresh2 = strip_field(rec, "namesok"), strip_field(fresh, "namesok")
            if rec2 == fresh2:
                stats["identical"] += 1
                if variant == "plain" and ("nrel=0" not in rec2 or "nlab=0" not in rec2):
                    nontrivial.add(rec2)
                continue
            kind, first = classify_diff(rec2, fresh2)
            if kind == "ja":
                stats["ja_diffs"] += 1
                witness_hits.add("BaseCompiler/_jump_annotations")
                ck.violation("C16/residue/jump-annotations-survive-reset",
                             "%s build: after reset/reinit/re-attach the Compiler still holds the JumpAnnotations of the previous use: "
                             "new_jump_annotation() returns id %s (fresh objects: %s)" % ((variant,) + (first if isinstance(first, tuple) else (first, ""))),
                             {"case": c, "variant": variant, "recycled": rec[:1500], "fresh": fresh[:1500]})
            else:
                stats["other_diffs"] += 1
                t = c.split(" ")
                ck.violation("C16/residue/%s%s/%s" % (t[2], t[3], re.sub(r"[^A-Za-z_=]", "", str(first[0] if isinstance(first, tuple) else first))[:24]),
                             "%s build: output of the final program differs between recycled and fresh objects; first differing field: %s"
                             % (variant, first), {"case": c, "variant": variant, "recycled": rec[:3000], "fresh": fresh[:3000]})
    # ---------------------------------------------------------------- correspondence: extracted lifecycle model vs. state traces
    corr = {"scripts": 0, "steps": 0, "disagreements": 0, "ja_only": 0}
    scripts, ids = [], []
    for c in cases:
        cid = c.split(" ", 2)[1]
        tr = res_plain.get(cid, {}).get("S")
        if tr is None:
            continue
        ms = model_script(c, tr, corr)
        if ms is None:
            ck.violation("C16/lifecycle/counter-decreased-in-program", "a generated program DEcreased a section/label/relocation/register "
                         "counter or the trace has the wrong length: %s" % tr[:300], {"case": c, "trace": tr})
            continue
        scripts.append(ms)
        ids.append(cid)
    if scripts:
        chunks = [scripts[i::16] for i in range(16)]
        with ThreadPoolExecutor(max_workers=16) as ex:
            outs = list(ex.map(lambda ch: vlib.sh([model], inp="\n".join(ch) + "\n", timeout=600) if ch else (0, "", ""), chunks))
        pred = {}
        for rc, o, e in outs:
            if rc != 0:
                ck.violation("C16/model-driver-crash", "extracted model driver failed: %s" % e[-500:], {"broken": "ml/c16_driver.ml"}, no_input=True)
            for line in o.split("\n"):
                tt = line.split(" ", 2)
                if len(tt) == 3:
                    pred[tt[1]] = tt[2]
        for cid in ids:
            c = by_id[cid]
            got = ["/".join(x.split("/")[:11]) for x in res_plain[cid]["S"].split(" ")]
            want = pred.get(cid, "").split(" ")
            corr["scripts"] += 1
            corr["steps"] += len(got)
            if got == want:
                continue
            corr["disagreements"] += 1
            steps = [x for x in c.split(" ")[5:] if not x.startswith("Q:")]
            for i, (g, w_) in enumerate(zip(got, want)):
                if g != w_:
                    break
            gl, wl = g.split("/"), w_.split("/")
            if gl[:9] == wl[:9] and gl[10:] == wl[10:]:
                corr["ja_only"] += 1
                witness_hits.add("BaseCompiler/_jump_annotations")
                ck.violation("C16/residue/jump-annotations-survive-reset",
                             "after step %d (%s) the Compiler holds %s jump annotations; the lifecycle model (fresh objects) has %s"
                             % (i, steps[i][:20], gl[9], wl[9]), {"case": c, "step": i, "impl": g, "model": w_})
            elif steps[i] in RESETISH:
                ck.violation("C16/residue/state-after-%s" % steps[i],
                             "after step %d (%s) the state is %s; the proven lifecycle model says a reset-like step re-creates the initial "
                             "state %s (init/attached/emitters/sections/labels/relocations/holder-logger/emitter-logger/vregs/annotations/pending)"
                             % (i, steps[i], g, w_), {"case": c, "step": i, "impl": g, "model": w_})
            else:
                ck.violation("C16/lifecycle-model/%s" % re.sub(r"[^A-Za-z0-9]", "", steps[i][:3]),
                             "implementation and lifecycle model disagree after step %d (%s): impl %s, model %s; the differential found no "
                             "difference in generated output for this case" % (i, steps[i][:30], g, w_),
                             {"case": c, "step": i, "impl": g, "model": w_, "broken": "correspondence of Lifecycle/LifecycleModel.v with /repo"},
                             no_input=True)

    rb_info = recycled_builder_correspondence(ck, rng)

    for c in cases:
        t = c.split(" ")
        dist["by_kind"][t[2] + t[3]] = dist["by_kind"].get(t[2] + t[3], 0) + 1
        if t[4] != "0":
            dist["static_arena"] += 1
        if any(s.startswith(("G:", "P:")) and (",z" in s or ":z" in s) for s in t[5:]):
            dist["with_error_op"] += 1
        last = [s for s in t[5:] if s in RESETISH][-1]
        if any(s.startswith(("G:", "P:")) and ",h" in s for s in t[5:]):
            dist["with_register_pressure"] = dist.get("with_register_pressure", 0) + 1
        dist["final_reset"][last] = dist["final_reset"].get(last, 0) + 1
        for s in t[5:]:
            k = s[:2] if s[:2] in ("G:", "P:", "Q:") else (s[0] if s[0] in "HB" else s)
            dist["steps"][k] = dist["steps"].get(k, 0) + 1

    # ---------------------------------------------------------------- coverage obligation failures -> named members
    explained = set()
    for (route, cls, fld) in uncovered:
        m = cls + "/" + fld
        key = "C16/field-not-reset/%s/%s/%s" % (route.split("/")[0], cls, fld)
        what = ("member %s::%s is neither written by the reset route '%s' nor on the reviewed persistent list "
                "(theorem C16_every_field_reset fails on the regenerated ResetFields.v)" % (cls, fld, route))
        if m in witness_hits:
            explained.add(m)     # the differential exhibited a concrete failing lifecycle for this member (reported above)
            ck.notes.append("uncovered member %s (route %s): concrete failing lifecycle reported by the differential" % (m, route))
        else:
            rp = {"broken": "theorem C16_every_field_reset", "route": route, "class": cls, "member": fld,
                  "file": "coq/gen/ResetFields.v (regenerated)"}
            dm = cls + "::" + fld
            ph = [x for x in probe_hits if x == dm]
            if dm in detached_hits:      # concrete lifecycle: the detached probe sees the member keep its old value
                rp["case"], rp["step"] = detached_hits[dm][0], detached_hits[dm][1]
                ck.violation(key, what + "; failing lifecycle: right after step %s the detached probe finds the member different from a "
                             "never-attached emitter's / never-initialised holder's" % rp["step"], rp)
            elif ph:
                rp["case"] = probe_hits[ph[0]]
                ck.violation(key, what + "; failing lifecycle: after its final reset the representation probe finds the member different "
                             "from a fresh object's", rp)
            else:
                ck.violation(key, what, rp, no_input=True)
    # ---------------------------------------------------------------- detached probe
    # members the reviewed specification declares persistent across a holder reset / a detach may differ from a never-attached
    # emitter / never-initialised holder (ResetSpec.persistent, routes holder.reset / detach / detach_all); any other member may not
    persist_ok = set("%s::%s" % (c_, f_) for (r_, c_, f_) in re.findall(r'mk_persist "([^"]*)" "([^"]*)" "([^"]*)"', spec_text)
                     if r_ in ("holder.reset", "detach", "detach_all"))
    ck.log("detached probe: %d member comparisons, differing members: %s" % (stats.get("detached_probe_comparisons", 0), detached_count))
    stats["detached_probe_persistent_members_differing"] = sorted(m for m in detached_count if m in persist_ok)
    stats["detached_probe_diffs"] = sum(n for m, n in detached_count.items() if m not in persist_ok)
    for mem in sorted(detached_count):
        if mem in persist_ok:
            continue
        c, where, variant = detached_hits[mem]
        ck.violation("C16/residue/detached-member/" + mem,
                     "%s build: right after step %s of the lifecycle (holder reset / detach, before the next init / attach) the data member %s "
                     "does not have the representation it has in a never-attached emitter / never-initialised holder of the same "
                     "configuration, and it is not on the reviewed persistent list (%d lifecycles)" % (variant, where, mem, detached_count[mem]),
                     {"case": c, "variant": variant, "step": where, "member": mem})
    # ---------------------------------------------------------------- value obligation failures -> named assignments
    for (fn, cls, fld) in bad_vals:
        hit = [m for m in probe_hits if cls in m and m.endswith("::" + fld)]
        dhit = [m for m in detached_hits if m == cls + "::" + fld]
        what = ("%s assigns member %s::%s a value that is not the member's initial value (constructor / in-class initialiser) and the "
                "assignment is not a reviewed exception (theorem C16_reset_value_is_initial_value fails on the regenerated "
                "ResetFields.v)" % (fn, cls, fld))
        rp = {"broken": "theorem C16_reset_value_is_initial_value", "function": fn, "class": cls, "member": fld,
              "file": "coq/gen/ResetFields.v (regenerated)"}
        if dhit:
            rp["case"], rp["step"] = detached_hits[dhit[0]][0], detached_hits[dhit[0]][1]
            ck.violation("C16/reset-value/%s/%s/%s" % (fn, cls, fld), what + "; failing lifecycle: right after step %s the detached probe "
                         "finds the member different from a never-attached emitter's / never-initialised holder's" % rp["step"], rp)
        elif hit:
            rp["case"] = probe_hits[hit[0]]          # a lifecycle after which the representation probe shows the member differs
            ck.violation("C16/reset-value/%s/%s/%s" % (fn, cls, fld), what + "; failing lifecycle: the representation probe finds the member "
                         "different from a fresh object's after the final reset", rp)
        else:
            ck.violation("C16/reset-value/%s/%s/%s" % (fn, cls, fld), what, rp, no_input=True)
    for (fn, cls, fld) in sorted(set(bad_td)):
        ck.violation("C16/teardown-value/%s/%s/%s" % (fn, cls, fld),
                     "the last assignment of member %s::%s in %s (source order) does not write the member's initial value, or the function has no "
                     "unconditional assignment of it: the working value set up by the function survives it (theorem "
                     "C16_teardown_restores_initial_value fails on the regenerated ResetFields.v)" % (cls, fld, fn),
                     {"broken": "theorem C16_teardown_restores_initial_value", "function": fn, "class": cls, "member": fld,
                      "file": "coq/gen/ResetFields.v (regenerated)"}, no_input=True)
    for o in ck.proof_failures():
        if gen_failed and bad_ov and o["name"] == "C16_detached_object_gets_initial_values":
            continue            # reported per member at the translator stage
        if gen_failed and bad_td and o["name"] in ("C16_teardown_restores_initial_value", "C16_teardown_final_store"):
            continue            # reported per member above
        if gen_failed and bad_vals and o["name"] in ("C16_reset_value_is_initial_value", "C16_reset_value_lists_are_live",
                                                     "C16_reset_function_leaves_initial_values"):
            continue            # reported per assignment above
        if gen_failed and uncovered and o["name"] in ("C16_every_field_reset", "C16_no_uncovered_member", "C16_route_glue_calls_present",
                                                      "C16_covered_means_written", "C16_route_closure_complete"):
            continue            # reported per member above
        ck.violation("C16/proof/" + o["name"], "theorem %s no longer checks (%s)" % (o["name"], getattr(ck, "coq_log", "")[-800:]),
                     {"broken": "theorem " + o["name"], "file": "coq/theories/Properties/Properties_C16.v"}, no_input=True)

    samples = []
    for cid in ["w-ja-reinit-x", "g0", "g1", "g2"]:
        if cid in res_plain and "R" in res_plain[cid]:
            samples.append({"case": by_id[cid][:400], "recycled": res_plain[cid]["R"][:300], "fresh": res_plain[cid].get("F", "")[:300]})
    return ck.finish(
        "proof",
        {"obligations": len(obl), "discharged": len([o for o in obl if o["ok"]]),
         "theorems": [{"name": o["name"], "ok": o["ok"],
                       "assumptions": ("closed under the global context" if o["assumptions"] == [] else o["assumptions"])} for o in obl],
         "theorems_checked_against": ("regenerated coq/gen (slow path)" if regen is not None else "committed coq/gen snapshot (identical to the regenerated text)"),
         "evaluations": 2 * len(cases) + n_asan, "distinct_nontrivial": len(nontrivial),
         "rule": "lifecycles generated from VERIF_SEED (history of <= %d steps over G/RS/RH/RI/DA/NE/NH/NHa/L/EL/V/H, then a reset-like step, "
                 "neutral steps and the final program), evenly over {x86-64,a64} x {Assembler,Builder,Compiler}; every case runs in the plain "
                 "build and in the dirty-malloc build (interposed allocator: 0xA5 prefill, random padding, 0xDD on free), the first %d also "
                 "under ASan+UBSan; a case is non-trivial when its final dump has labels or relocations; distinct "
                 "final dumps are counted" % (12 if ck.tier == "quick" else 40, n_asan),
         "samples": samples, "differential": stats, "input_distribution": dist,
         "translator": {"classes": len([c for c in classes if c in c16_fields.CLASSES]), "members": nfields, "functions": len(funcs),
                        "regenerated": regen is not None, "uncovered_members": ["%s:%s::%s" % u for u in uncovered],
                        "initial_values": text.count("  mk_init "), "assignments_with_value": text.count("  mk_val ") - n_seq_rows,
                        "assignments_of_pure_reset_functions_checked": len(value_rows),
                        "assignments_not_writing_initial_value": ["%s: %s::%s" % b for b in bad_vals],
                        "ordered_assignments": n_seq_rows,
                        "teardown_failures": ["%s: %s::%s" % b for b in bad_td]},
         "detached_probe": {"member_comparisons": stats.get("detached_probe_comparisons", 0),
                            "persistent_members_differing": stats.get("detached_probe_persistent_members_differing", []),
                            "rule": "at every RS / RH step right after CodeHolder::reset (before init + attach) and at every DA step right after "
                                    "detach: every non-skipped data member of the emitter vs. a never-attached emitter of the same kind and "
                                    "configuration, and (RS / RH) of the holder vs. a never-initialised holder; members on the reviewed persistent "
                                    "list of the routes holder.reset / detach / detach_all may differ"},
         "representation_probe": {"members_in_table": n_probe_members, "skipped_kinds": inc_text.count("K_SKIP"),
                                  "rule": "after the final reset-like (+ neutral) steps, before the final program: every non-skipped data member of "
                                          "CodeHolder / BaseEmitter / BaseAssembler|BaseBuilder / BaseCompiler of the recycled objects vs. fresh objects "
                                          "in the same configuration"},
         "unsupported": ["operand storage behind InstNode is not a data member: covered by glue calls (must_call), not by member writes",
                         "FuncRetNode / CommentNode / SentinelNode (no own data members)",
                         "Builder programs with absolute calls, x64 absolute calls under a known base address and programs after an "
                         "abandoned function: counter effects measured, not computed (lifecycle_model_correspondence.measured_programs)",
                         "C08 command streams with strict validation are left to C08 (the validator's verdict is an input of its model)"],
         "proved_vs_compared": {
             "proved_for_all_inputs": "76 theorems: coverage obligation over ALL members/routes of the regenerated data; value and tear-down "
                                      "obligations over ALL extracted assignments of the reviewed reset / tear-down functions; lifecycle model over "
                                      "ALL histories from the start state (no `ready` side condition); C08 node-list model over ALL command "
                                      "sequences and histories (no `supported` side condition; no finite sweep, no sampling)",
             "moved_to_proved_in_round_6": "`supported` and `ready` hypotheses discharged; WHAT a reset statement writes (the initial value) was "
                                           "only observed by the probes, now an obligation re-proved per run; tear-down of run_on_function",
             "compared_on_generated_inputs": "implementation vs extracted models on every generated lifecycle step and every C08 command "
                                             "(counts in lifecycle_model_correspondence / recycled_builder_correspondence); recycled vs fresh "
                                             "objects on every generated lifecycle (differential, representation_probe, detached_probe)",
             "the key 'samples' below lists a few of the compared cases verbatim (required evidence field); nothing is claimed from them": True},
         "recycled_builder_correspondence": rb_info,
         "lifecycle_model_correspondence": corr, "traces_validated_against_impl": corr["scripts"]},
        assumptions=["theorems are about the extracted member/write/call-graph data and the Gallina lifecycle model, not about the C++ text",
                     "tools/c16_fields.py sees every MemberExpr write / member call / call edge of the dumped translation units (clang 14 AST)",
                     "the reviewed lists in coq/theories/Lifecycle/ResetSpec.v (routes, reset idioms, special idioms, persistent members with "
                     "their reasons, pure reset functions, value exceptions, tear-down functions) are right; initial and assigned values are "
                     "compared as expressions (names only), not evaluated; address-independence and logger-independence are tested by the differential, not proved"],
        checker_cmd="coqc (Coq 8.16.1) -Q coq/theories Verif -Q <regenerated gen dir> VerifGen coq/theories/Properties/Properties_C16.v",
        trusted_base=["Coq 8.16.1 kernel incl. vm_compute", "no axioms: every theorem 'Closed under the global context'",
                      "clang 14 -ast-dump=json + tools/c16_fields.py (translator)", "coq/theories/Lifecycle/ResetSpec.v reviewed lists",
                      "extraction (ExtrOcamlBasic only) + OCaml 4.13.1 + ml/c16_driver.ml (own positive/N glue)",
                      "harness/c16_harness.cpp, tools/checks/c16.py (generator, differ, monitors)", "AddressSanitizer/UBSan (gcc)"])

"""C08 — Builder/Compiler serialization is byte-identical to direct assembling.

S2 theorems : coq/theories/Properties/Properties_C08.v (model coq/theories/Builder/BuilderModel.v, proofs BuilderProofs.v), re-checked on every run
S3 tie      : (a) node-list differential: harness/c08_harness.cpp drives the real x86/a64 Builder and Compiler of /repo's working tree with generated
                  emitter-call/edit programs and dumps node list, cursor, section-link cache and the removed-node pool after EVERY command; the
                  extracted Coq model (coq/extract/Extract_Builder.v + ml/c08_driver.ml) consumes the same program text and must print the same lines;
              (b) enum/type-table translator check: numeric values of Error/NodeType/InstOptions and TypeUtils sizes printed by the harness
                  ("catalog") must equal the model's constants.
S4 oracle   : implementation-vs-implementation, independent of the Coq model: the same program goes to an Assembler in call order (R1), to an
              Assembler in the order computed by a plain python list (tools/c08_gen.py ListOracle: "the edited sequence", R2), to a Builder and to
              a Compiler; after finalize() section bytes, label offsets, unresolved count and the images relocated at two bases must be identical,
              per-call error codes must agree (a Builder may defer an Assembler error to finalize(), never change or drop it).
"""
import json
import os
import random
import sys
from concurrent.futures import ThreadPoolExecutor

import vlib

sys.path.insert(0, os.path.join(vlib.VERIF, "tools"))
import c08_gen  # noqa: E402

EDIT_CMDS = ("SCUR", "RM", "RMR", "RMP", "AA", "AB", "AN", "USL")
STATE_CMDS = ("SO", "AO", "SX", "SC")


def parse_answers(text):
    """-> {pidx: {"STEP": [...], "STEPC": [...], "DUMP": str, "DUMPC": str, "EA": [...], "EB": ([...], F), "EC":..., "E2": int, "IMG": {(w, who): str}, "GUARD": bool}}"""
    res = {}
    for line in text.split("\n"):
        if not line.startswith("p"):
            continue
        sp = line.find(" ")
        try:
            pidx = int(line[1:sp])
        except ValueError:
            continue
        rest = line[sp + 1:]
        d = res.setdefault(pidx, {"STEP": [], "STEPC": [], "STEPF": [], "IMG": {}, "GUARD": False, "V": [], "VC": [], "VF": []})
        k, _, v = rest.partition(" ")
        if k in ("STEP", "STEPC", "STEPF"):
            d[k].append(v)
        elif k == "STEPFV":
            d["VF"].append(v)
        elif k == "STEPV":
            d["V"].append(v)
        elif k == "STEPCV":
            d["VC"].append(v)
        elif k in ("DUMP", "DUMPC"):
            d[k] = v
        elif k == "EA":
            d["EA"] = [int(x) for x in v.strip(",").split(",") if x != ""]
        elif k in ("EB", "EC"):
            errs, _, f = v.partition(" F=")
            d[k] = ([int(x) for x in errs.strip(",").split(",") if x != ""], int(f))
        elif k == "E2":
            d["E2"] = int(v)
        elif k.startswith("IMG"):
            who, _, img = v.partition(" ")
            d["IMG"][(int(k[3:]), who)] = img
        elif k.startswith("GUARD"):
            d["GUARD"] = True
        elif k == "VERDICT":
            st_, _, e_ = v.partition(" ")
            d.setdefault("VERDICT", {})[int(st_)] = int(e_)
        elif k == "NFRAMES":
            d["NFRAMES"] = [int(x) for x in v.split()]
        elif k == "REFTRACE":
            d["REFTRACE"] = v
        elif k == "CORRUPT":
            d.setdefault("CORRUPT", []).append(v)
    return res


def run_sharded(exe, texts, args=(), shards=16, timeout=600):
    """texts: list of program texts; returns concatenated stdout of all shards, or ("ERR", detail)."""
    chunks = ["".join(texts[i::shards]) for i in range(shards)]

    def one(chunk):
        if not chunk:
            return ""
        rc, out, err = vlib.sh([exe] + list(args), inp=chunk, timeout=timeout)
        if rc != 0:
            return ("ERR", rc, out[-300:] + err[-600:], chunk)
        return out
    with ThreadPoolExecutor(max_workers=shards) as ex:
        rs = list(ex.map(one, chunks))
    for r in rs:
        if isinstance(r, tuple):
            return r
    return "".join(rs)


def locate_crash(exe, chunk, args=()):
    """find the first program of a chunk on which the executable dies"""
    progs = [p + "END\n" for p in chunk.split("END\n") if p.strip()]
    for p in progs:
        rc, out, err = vlib.sh([exe] + list(args), inp=p, timeout=120)
        if rc != 0:
            return p, rc, (out[-300:] + err[-600:])
    return None, 0, ""


# ------------------------------------------------------------------------------------------------ the independent judgement (impl vs impl)
def judge_func(meta, ans, cat):
    """function programs: Compiler (add_func/ret/end_func, physical registers only) vs Assembler + emit_prolog/emit_epilog of the
    Compiler's own frames"""
    out = []
    if ans is None or "EC" not in ans or "EA" not in ans or len(ans["IMG"]) != 4:
        return [("C08/no-answer", "harness gave no complete answer for function program %d" % meta["pidx"])]
    ea, (ec, fc) = ans["EA"], ans["EC"]
    lines = meta["lines"]
    deferred = False
    for i, (a, c) in enumerate(zip(ea, ec)):
        if c != 0 and c != a:
            out.append(("C08/func/error-code-differs/%s" % lines[i].split()[0], "call %d `%s`: Compiler returned %d, Assembler %d" % (i, lines[i], c, a)))
        if a != 0 and c == 0:
            deferred = True
    if not deferred and fc != 0:
        out.append(("C08/func/finalize-error", "Compiler::finalize() returned %d although the Assembler accepted every call" % fc))
    if not any(ea) and not any(ec) and fc == 0:
        for w in (0, 1):
            c, r1 = ans["IMG"][(w, "C")], ans["IMG"][(w, "R1")]
            if " rl=0 " not in c and " rl=0 " not in r1:
                c, r1 = strip_bytes(c), strip_bytes(r1)
            if c != r1:
                out.append(("C08/func/image-differs-from-direct-assembling", "Compiler image of a function program differs from Assembler + emit_prolog/emit_epilog (base #%d):\n C : %s\n R1: %s" % (w, c[:400], r1[:400])))
    return out


HOLE_KEY = "C08/operand-after-hole-dropped"


def judge_program(meta, ans, cat, holes_known=True):
    """Returns list of (key, what). Independent of the Coq model."""
    if meta["kind"] == "func":
        return judge_func(meta, ans, cat)
    out = []
    E = cat.err
    kind = meta["kind"]
    lines = meta["lines"]
    if ans is None or "EB" not in ans or "EA" not in ans or len(ans["IMG"]) != 8:
        return [("C08/no-answer", "harness gave no complete answer for program %d" % meta["pidx"])]
    if ans["GUARD"]:
        return [("C08/generator-guard", "const-pool layout assumed by the generator differs from ConstPool::fill (program %d)" % meta["pidx"])]
    ea, (eb, fb), (ec, fc), e2 = ans["EA"], ans["EB"], ans["EC"], ans["E2"]
    shape = kind
    if ans.get("CORRUPT"):
        out.append(("C08/%s/node-list-corrupt" % shape, "the node list became cyclic / half-linked after command %s" % ans["CORRUPT"][0]))
    # 1. Compiler == Builder (same node machinery, physical registers only)
    if (eb, fb) != (ec, fc):
        out.append(("C08/%s/compiler-vs-builder-errors" % shape, "Builder and Compiler report different errors: %s F=%d vs %s F=%d" % (eb, fb, ec, fc)))
    for w in (0, 1):
        if ans["IMG"][(w, "B")] != ans["IMG"][(w, "C")]:
            out.append(("C08/%s/compiler-vs-builder-image" % shape, "Builder and Compiler images differ at base #%d" % w))
    # 2. per-call error parity (only meaningful when the program has no edits)
    deferred = []
    if kind != "edit":
        for i, (a, b) in enumerate(zip(ea, eb)):
            c = lines[i].split()[0]
            # per-call parity is meaningful while both emitters have the same history: once the Assembler has refused a call the Builder
            # recorded (the error is deferred to finalize()), the failed call had no effect there but is in the node list here - e.g. a
            # const pool whose bind the Assembler refuses leaves the label unbound, so a later bind succeeds there and is
            # kLabelAlreadyBound here.  The deferred error itself is judged by rule 3 (finalize error = first error of the direct sequence).
            if b != 0 and b != a and not deferred:
                out.append(("C08/%s/error-code-differs/%s" % (shape, c), "call %d `%s`: Builder returned %d at record time, Assembler %d" % (i, lines[i], b, a)))
            if a != 0 and b == 0:
                deferred.append(i)
    else:
        for i, b in enumerate(eb):
            c = lines[i].split()[0]
            if b != 0 and c in EDIT_CMDS:
                out.append(("C08/harness/edit-index", "edit command %d `%s` was refused by the harness (%d): generator and harness disagree about the list" % (i, lines[i], b)))
    # 3. finalize error = first error of the direct sequence (R2 = Assembler fed the list-oracle order, stopping at the first error)
    if fb != e2:
        out.append(("C08/%s/finalize-error" % shape, "finalize() returned %d, the direct sequence fails first with %d" % (fb, e2)))
    if kind != "edit":
        # a 1- or 2-byte label delta whose two labels live in one OTHER section: when that section's binds come first (the Builder's
        # grouped order) the difference is written at once and a difference that does not fit is refused at the call (kInvalidDisplacement);
        # in call order the same delta is an expression entry that relocate_to_base refuses.  Same outcome by effect, at another stage -
        # exactly the case C08_no_misfit_necessary excludes from order irrelevance; counted, not reported
        misfit = (not deferred and e2 == cat.err.get("InvalidDisplacement", -1) and any(l.startswith("ED ") and l.split()[3] in ("1", "2") for l in lines)
                  and all(" rl=0 " not in ans["IMG"][(w, "R1")] for w in (0, 1)))
        if misfit:
            meta["stats"]["misfit_delta_refused_at_call_vs_at_relocation"] = 1
        if (not deferred) != (e2 == 0) and not out and not misfit:
            out.append(("C08/%s/deferred-error-set" % shape, "Assembler errors in call order %s but the grouped direct sequence fails with %d" % ([ea[i] for i in deferred], e2)))
    # 4. images
    for w in (0, 1):
        b, r2, r1 = ans["IMG"][(w, "B")], ans["IMG"][(w, "R2")], ans["IMG"][(w, "R1")]
        if b != r2:
            out.append(("C08/%s/image-differs-from-edited-sequence" % shape, "Builder image differs from the Assembler fed the edited/grouped sequence (base #%d):\n B : %s\n R2: %s" % (w, b[:400], r2[:400])))
        if " rl=0 " not in b and " rl=0 " not in r1:
            # relocate_to_base stopped at a failing entry: entries are processed in creation order, which the Builder's per-section grouping
            # legitimately changes, so only the layout (not the partially relocated bytes) is comparable with call-order assembling
            b, r1 = strip_bytes(b), strip_bytes(r1)
        if kind != "edit" and not any(ea) and not any(eb) and fb == 0 and b != r1:
            out.append(("C08/%s/image-differs-from-direct-assembling" % shape, "Builder image differs from the Assembler fed the calls in call order (base #%d):\n B : %s\n R1: %s" % (w, b[:400], r1[:400])))
    if out and kind == "malformed" and holes_known:
        holes = [i for i, l in enumerate(lines) if operand_after_hole(l)]
        if holes:
            # recorded defect (malformed calls only): the Builder records op_count_from_emit_args() operands, i.e. it drops every operand that follows
            # an empty slot, while the Assembler sees all six slots (refuses the call, or - AArch64 register lists - encodes something else)
            return [("C08/operand-after-hole-dropped",
                     "call %d `%s` has an operand after an empty slot: the Builder records it without that operand (against C08_all_operands_kept), "
                     "the Assembler uses all six slots; first disagreement: %s" % (holes[0], lines[holes[0]], out[0][1][:300]))]
    return out


def _sigs(line):
    t = line.split()
    if t and t[0].startswith("@"):
        t = t[1:]
    if not t or t[0] != "I":
        return None, None
    n = int(t[2])
    return t, [int(t[3 + 4 * i]) for i in range(n)]


def legacy_count(sigs):
    """op_count_from_emit_args before fixes/C08-op-count-keeps-operands-after-hole.patch"""
    s = (list(sigs) + [0] * 6)[:6]
    if s[3] == 0:
        return 3 if s[2] else 2 if s[1] else 1 if s[0] else 0
    return 4 if s[4] == 0 else 5 if s[5] == 0 else 6


def full_count(sigs):
    s = (list(sigs) + [0] * 6)[:6]
    return max([i + 1 for i in range(6) if s[i]] or [0])


def operand_after_hole(line):
    """an `I` command that has an operand after an empty slot which the unrepaired counting rule drops"""
    t, sigs = _sigs(line)
    return sigs is not None and legacy_count(sigs) < full_count(sigs)


def legacy_truncate(line):
    """the command the unrepaired Builder effectively records for `line` (operands from the dropped slot on removed)"""
    t, sigs = _sigs(line)
    if sigs is None or legacy_count(sigs) >= full_count(sigs):
        return line
    k = legacy_count(sigs)
    pre = line.split()[0] + " " if line.startswith("@") else ""
    return pre + " ".join(t[:2] + [str(k)] + t[3:3 + 4 * k])


def translate_op_count(repo):
    """Source-level translator: EmitterUtils::op_count_from_emit_args (core/emitterutils_p.h) and InstNode::capacity_of_op_count
    (core/builder.h) are read from the working tree and turned into python functions of the six used/empty flags; None when the source has a
    shape the translator does not know (reported as a broken tie, never guessed).  Returns (count(pattern), capacity(count, base, full))."""
    import re
    try:
        src = open(os.path.join(repo, "asmjit", "core", "emitterutils_p.h")).read()
        hdr = open(os.path.join(repo, "asmjit", "core", "builder.h")).read()
    except OSError:
        return None
    m = re.search(r"op_count_from_emit_args\(const Operand_& o0, const Operand_& o1, const Operand_& o2, const Operand_\* op_ext\) noexcept \{(.*?)\n\}", src, re.S)
    if not m:
        return None
    slot = {"o0": 0, "o1": 1, "o2": 2, "op_ext[kOp3]": 3, "op_ext[kOp4]": 4, "op_ext[kOp5]": 5}
    if not re.search(r"kOp3 = 0,\s*kOp4 = 1,\s*kOp5 = 2", src):
        return None
    stmts = []
    for line in m.group(1).split("\n"):
        line = line.split("//")[0].strip()
        if not line or line in ("uint32_t op_count = 0;", "return op_count;"):
            continue
        mm = re.fullmatch(r"if \(!(o0|o1|o2|op_ext\[kOp[345]\])\.is_none\(\)\) op_count = (\d+);", line)
        if not mm:
            return None
        stmts.append((slot[mm.group(1)], int(mm.group(2))))
    if not re.search(r"capacity_of_op_count\(uint32_t op_count\) noexcept \{\s*return op_count <= kBaseOpCapacity \? kBaseOpCapacity : kFullOpCapacity;\s*\}", hdr):
        return None

    def count(pat):
        c = 0
        for sl, n in stmts:            # the statements run in source order
            if (pat >> sl) & 1:
                c = n
        return c
    return count, (lambda c, base, full: base if c <= base else full)


def translate_dispatch(repo):
    """Source-level translator of BaseBuilder::serialize_to (core/builder.cpp): the if / else-if chain over node predicates and the emitter
    call of each branch (the label branch with its nested const-pool test).  Returns (calls_before_chain, [(predicate, [(nested predicate or None, call)])])
    or None when the function does not have that shape."""
    import re
    try:
        src = open(os.path.join(repo, "asmjit", "core", "builder.cpp")).read()
    except OSError:
        return None
    m = re.search(r"Error BaseBuilder::serialize_to\(BaseEmitter\* dst\) \{(.*?)\n\}\n", src, re.S)
    if not m:
        return None
    body = m.group(1)
    loop = body.find("do {")
    if loop < 0 or "} while (node_);" not in body or "node_ = node_->next();" not in body:
        return None
    body = body[loop:]
    first = re.search(r"if \(node_->is_(\w+)\(\)\) \{", body)
    if not first:
        return None
    pre = re.findall(r"dst->(\w+)\(", body[:first.start()])
    chain = []
    parts = re.split(r"\n    (?:else )?if \(node_->is_(\w+)\(\)\) \{", body[first.start() - 5:])
    # parts = [junk, pred1, block1, pred2, block2, ...]
    if len(parts) < 3 or len(parts) % 2 == 0:
        return None
    for i in range(1, len(parts), 2):
        pred, block = parts[i], parts[i + 1]
        end = block.find("\n    if (err != Error::kOk)")
        if end >= 0:
            block = block[:end]
        nested = re.split(r"\n      (?:else )?if \(node_->is_(\w+)\(\)\) \{", block)
        if len(nested) >= 3:
            alts = []
            for j in range(1, len(nested), 2):
                blk = nested[j + 1]
                k = blk.find("\n      else {")
                calls = re.findall(r"err = dst->(\w+)\(", blk[:k] if k >= 0 else blk)
                alts.append((nested[j], calls))
                if k >= 0:
                    alts.append((None, re.findall(r"err = dst->(\w+)\(", blk[k:])))
            chain.append((pred, alts))
        else:
            chain.append((pred, [(None, re.findall(r"err = dst->(\w+)\(", block))]))
    return pre, chain


def dispatch_tie(ck, cat_text, model):
    """serialize_to's dispatch as read from the source, evaluated on the predicates REAL nodes of every type answer (harness NODEPRED), against
    the calls the model's replay_node performs for the node kind that stands for that type"""
    tr = translate_dispatch(vlib.REPO)
    preds, types = {}, {}
    names = ["inst", "label", "const_pool", "align", "embed_data", "embed_label", "embed_label_delta", "section", "comment"]
    for l in cat_text.split("\n"):
        t = l.split()
        if t and t[0] == "NODEPRED":
            preds[int(t[1])] = {n for n, v in zip(names, t[2:]) if v == "1"}
        elif t and t[0] == "NODETYPES":
            types = {t[i]: int(t[i + 1]) for i in range(1, len(t), 2)}
    rc, mo, _e = vlib.sh([model, "-dispatch"], timeout=60)
    mrows = {t[1]: (t[2], t[3].split(",") if len(t) > 3 and t[3] else []) for t in (l.split() for l in mo.split("\n")) if len(t) >= 3 and t[0] == "DISPATCH"}
    if tr is None or not preds or not types or len(mrows) != 15:
        ck.violation("C08/translator/dispatch-shape", "BaseBuilder::serialize_to in the tree does not have the if / else-if shape the translator knows (or the harness / model "
                     "tables are incomplete: %d node types, %d model kinds): the dispatch of the model's serialization is no longer tied to the source" % (len(preds), len(mrows)),
                     {"broken": "source translator of serialize_to (tools/checks/c08.py translate_dispatch)"}, no_input=True)
        return 0
    pre, chain = tr
    call_of = {"_emit": "Emit", "bind": "Bind", "embed_const_pool": "ConstPool", "align": "Align", "embed_data_array": "EmbedArray", "embed_label": "EmbedLabel",
               "embed_label_delta": "EmbedDelta", "section": "Section", "comment": "Comment"}
    kind_type = {"inst": "inst", "section": "section", "label": "label", "align": "align", "data": "data", "embedlabel": "embedlabel", "embeddelta": "embeddelta",
                 "comment": "comment", "constpool": "constpool", "sentinel": "sentinel", "func": "func", "funcend": "sentinel", "funcret": "funcret", "jump": "jump", "invoke": "invoke"}
    n = 0
    for kind, (setter, mcalls) in sorted(mrows.items()):
        p = preds.get(types.get(kind_type[kind], -1))
        if p is None:
            continue
        src_calls = []
        for pred, alts in chain:
            if pred in p:
                for npred, calls in alts:
                    if npred is None or npred in p:
                        src_calls = calls
                        break
                break
        want = [call_of.get(c, c) for c in src_calls]
        n += 1
        if want != mcalls or (setter == "1") != ("set_inline_comment" in pre):
            ck.violation("C08/translator/dispatch", "node kind %s (real node type %d, predicates %s): serialize_to's source dispatches to %s (before the chain: %s), "
                         "the model's replay_node to %s (inline comment first: %s)" % (kind, types[kind_type[kind]], sorted(p), src_calls or "nothing", pre, mcalls or "nothing", setter),
                         {"node_kind": kind, "source": src_calls, "model": mcalls, "predicates": sorted(p)})
            break
    return n


def decoder_tie(ck, impl, model, progs):
    """X86Dec.dec_x86 (extracted) against the real accessors (Operand_::op_type, Reg::reg_type/id, x86::Mem::size/base_type/base_id/index_type/
    index_id/offset/segment_id/get_broadcast/is_reg_home, Imm::value) on every operand of the x86 programs of this run and on systematic
    variants of them (each decoded field rewritten).  Returns the number of operands compared."""
    words = set()
    for _text, meta in progs:
        if meta["arch"] == 2:
            continue
        for l in meta["lines"]:
            t, sg = _sigs(l)
            if sg:
                for i in range(len(sg)):
                    words.add(tuple(int(x) for x in t[3 + 4 * i: 7 + 4 * i]))
    rng = random.Random(ck.seed * 7919 + 13)
    for w in sorted(words):
        ty = w[0] & 7
        if ty == 1:
            for rid in (0, 15, 16, 31, 32, 255, 256, 1000, 0xFFFFFFFF):
                words.add((w[0], rid, w[2], w[3]))
            for rt in range(32):
                words.add(((w[0] & ~(31 << 3)) | (rt << 3), w[1], w[2], w[3]))
        elif ty == 2:
            for v in range(8):
                words.add(((w[0] & ~(7 << 18)) | (v << 18), w[1], w[2], w[3]))
                words.add(((w[0] & ~(7 << 21)) | (v << 21), w[1], w[2], w[3]))
            for sz in (0, 1, 2, 4, 6, 8, 10, 16, 32, 64, 128, 255):
                words.add(((w[0] & 0x00FFFFFF) | (sz << 24), w[1], w[2], w[3]))
            for it in range(32):
                words.add(((w[0] & ~(31 << 8)) | (it << 8), w[1], rng.randrange(300), w[3]))
            for bt in range(32):
                words.add(((w[0] & ~(31 << 3)) | (bt << 3), rng.choice([0, 1, 31, 0x7FFFFFFF, 0x80000000, 0xFFFFFFFF]), w[2], rng.choice([0, 1, 0x7FFFFFFF, 0x80000000, 0xFFFFFFFF])))
            words.add((w[0] ^ (1 << 13), w[1], w[2], w[3]))
        elif ty == 4:
            for v in (0, 1, 0x7FFFFFFF, 0x80000000, 0xFFFFFFFF):
                for h in (0, 1, 0x7FFFFFFF, 0x80000000, 0xFFFFFFFF):
                    words.add((w[0], w[1], v, h))
    for _ in range(2000):
        words.add((rng.getrandbits(32), rng.getrandbits(32), rng.getrandbits(32), rng.getrandbits(32)))
    ws = [w for w in sorted(words) if (w[0] & 7) not in (3, 6, 7)]
    inp = "".join("%d %d %d %d\n" % w for w in ws)
    rc1, o1, e1 = vlib.sh([impl, "dec"], inp=inp, timeout=120)
    rc2, o2, e2 = vlib.sh([model, "-dec"], inp=inp, timeout=120)
    l1, l2 = o1.split("\n")[:len(ws)], o2.split("\n")[:len(ws)]
    if rc1 != 0 or rc2 != 0 or len(l1) != len(ws) or len(l2) != len(ws):
        ck.violation("C08/decoder/stream", "decoder tie: harness rc=%s (%d lines), model rc=%s (%d lines) for %d operands: %s" % (rc1, len(l1), rc2, len(l2), len(ws), (e1 + e2)[-300:]),
                     {"broken": "decoder correspondence stream"}, no_input=True)
        return 0
    for w, a, b in zip(ws, l1, l2):
        if a != b:
            ck.violation("C08/decoder", "operand words (signature, base id, data0, data1) = %s: the x86 operand accessors read `%s`, X86Dec.dec_x86 reads `%s`" % (list(w), a, b),
                         {"operand_words": list(w), "impl": a, "model": b})
            break
    return len(ws)


def first_difference(ms, is_, a):
    """index of the first command after which model and implementation dumps differ (None: none), and the number of steps compared;
    the model prints "UNDEF" from the first command whose effect it does not define"""
    upto = len(ms)
    for i, l in enumerate(ms):
        if "UNDEF" in l:
            upto = i
            break
    if ms[:upto] != is_[:upto] or (upto == len(ms) and len(ms) != len(is_) and not a.get("CORRUPT")):
        return next((i for i in range(min(upto, len(is_))) if ms[i] != is_[i]), min(upto, len(is_))), upto
    return None, upto


def strip_bytes(img):
    import re
    img = re.sub(r" rl=[1-9]\d* ", " rl=failed ", img)      # WHICH entry fails first depends on creation order too
    return re.sub(r"(\[\d+ off=\d+ vs=\d+ )[0-9a-f=]+\]", lambda m: m.group(1) + "*]", img)


def shrink(impl, cat, meta, key, allow_xsec, budget=400, pred=None):
    """Delta-debugging over the builder command lines: delete chunks while the SAME violation key is still reported for the smaller
    program (its reference sequence is recomputed by the list oracle, so every candidate is a well-formed question).  Returns
    (program text, number of commands) of the smallest failing program found."""
    lines = list(meta["lines"])
    runs = [0]

    def fails(ls):
        if runs[0] >= budget:
            return False
        if meta["kind"] == "func":
            depth = 0
            for l in ls:
                k = l.split()[0]
                if k == "FN":
                    depth += 1
                elif k == "FE":
                    depth -= 1
                if depth not in (0, 1) or (k == "FR" and depth != 1):
                    return False
            if depth != 0 or any(l == "FR" and ls[i + 1] != "FE" for i, l in enumerate(ls[:-1])):
                return False
        ref, ok = c08_gen.reference_of(ls, cat) if meta["kind"] != "func" else ([], True)
        if not ok:
            return False
        direct = [l for l in ls if l.split()[0] not in EDIT_CMDS]
        if not allow_xsec and (c08_gen.shape_714(ref, c08_gen.inst_label_refs) or (meta["kind"] != "edit" and c08_gen.shape_714(direct, c08_gen.inst_label_refs))):
            return False
        text = c08_gen.program_text(meta["pidx"], meta["arch"], meta["base"][0], meta["base"][1], meta["flags"], ls, ref)
        runs[0] += 1
        if pred is not None:
            return pred(text, ls)
        rc, out, err = vlib.sh([impl, "run"], inp=text, timeout=20)
        if rc != 0:
            return key == "C08/harness-crash"
        m2 = dict(meta, lines=ls, ref=ref)
        return any(k == key for k, _w in judge_program(m2, parse_answers(out).get(meta["pidx"]), cat))

    if not fails(lines):
        return None, len(lines)
    n = 2
    while len(lines) >= 2:
        chunk = max(1, len(lines) // n)
        reduced = False
        i = 0
        while i < len(lines):
            cand = lines[:i] + lines[i + chunk:]
            if cand and fails(cand):
                lines = cand
                reduced = True
            else:
                i += chunk
        if not reduced:
            if chunk == 1:
                break
            n = min(len(lines), n * 2)
        if runs[0] >= budget:
            break
    ref, _ok = c08_gen.reference_of(lines, cat) if meta["kind"] != "func" else ([], True)
    return c08_gen.program_text(meta["pidx"], meta["arch"], meta["base"][0], meta["base"][1], meta["flags"], lines, ref), len(lines)


# ------------------------------------------------------------------------------------------------ main
PROBE_714 = """P 0 1 65536 1114112 1
NS .s1 8
NL
S 1
E 1122334455667788
B 0
E 1122334455667788
S 0
I 461 0
%s
X
END
"""


def probe_714(impl, cat):
    """Does the tree resolve an instruction reference to a label already bound in another section (DESIGN 7.14 repaired)?  If not,
    the generator keeps that shape out of every program (the Assembler itself corrupts the label entry there)."""
    lea = [f for f in cat.forms[1] if f["name"] == "lea_ml"][0]
    ops = " ".join(" ".join(str(x) for x in w) for (_k, w) in lea["ops"])
    text = PROBE_714 % ("I %d %d %s" % (lea["id"], len(lea["ops"]), ops))
    rc, out, err = vlib.sh([impl, "run"], inp=text, timeout=60)
    a = parse_answers(out).get(0)
    if rc != 0 or not a or (0, "R1") not in a["IMG"]:
        return False
    img = a["IMG"][(0, "R1")]
    return "labels=1:8," in img and " unres=0 " in img and " rs=0 " in img and " rl=0 " in img


def gen_all(ck, cat, rng, allow_xsec=False):
    quick = ck.tier == "quick"
    n = int(os.environ.get("C08_N", 2100 if quick else 150000))
    progs = []
    kinds = ["pure"] * 4 + ["edit"] * 4 + ["malformed"] * 2 + ["func"]
    corpus = os.path.join(vlib.VERIF, "corpus", "C08.txt")
    for i in range(n):
        arch = [1, 0, 2][i % 3]
        kind = kinds[(i // 3) % len(kinds)]
        text, meta = c08_gen.make_program(rng, cat, i, arch, kind, allow_xsec=allow_xsec)
        progs.append((text, meta))
    # the proofs' case split over the six operand slots, exhaustively (64 patterns x 3 architectures x validation off/on)
    progs += c08_gen.sweep_programs(cat, n)
    return progs


def run(ck):
    rng = random.Random(ck.seed)
    obl = []
    if os.path.exists(os.path.join(vlib.COQ, "theories", "Properties", "Properties_C08.v")):
        obl = ck.coq_properties()
        ck.log("theorems: %d, failed: %d" % (len(obl), len([o for o in obl if not o["ok"]])))
    impl = ck.build_harness("c08", ["c08_harness.cpp"])
    rc, cat_text, err = vlib.sh([impl, "catalog"], timeout=120)
    if rc != 0:
        ck.violation("C08/harness-crash", "catalog failed: %s" % err[-500:], {"broken": "harness catalog"}, no_input=True)
        return ck.finish("proof", {"evaluations": 0})
    cat = c08_gen.Catalog(cat_text)
    model = None
    if os.path.exists(os.path.join(vlib.COQ, "extract", "Extract_Builder.v")):
        model = ck.ocaml_model("Extract_Builder.v", ["zconv.ml", "c08_driver.ml"], name="c08")

    if ck.replay:
        rp = json.load(open(ck.replay))["replay"]
        text = rp["program"]
        print(text)
        rc, out, err = vlib.sh([impl, "run", "-v"], inp=text, timeout=300)
        print("---- implementation\n" + out[-20000:])
        if model:
            rc, mout, err = vlib.sh([model, "-v"], inp=text, timeout=300)
            print("---- model\n" + mout[-20000:])
        return 0

    allow_xsec = probe_714(impl, cat)
    progs = gen_all(ck, cat, rng, allow_xsec=allow_xsec)
    ck.log("generated %d programs (cross-section references to bound labels %s)" % (len(progs), "included" if allow_xsec else "kept out: DESIGN 7.14 not repaired in this tree"))
    texts = [t for t, _ in progs]
    out = run_sharded(impl, texts, args=("run",))
    crashed = None
    if isinstance(out, tuple):
        p, rc, detail = locate_crash(impl, out[3], args=("run",))
        crashed = (p, rc, detail)
        ck.violation("C08/harness-crash", "the harness died (rc=%s) on a program: %s" % (rc, detail[-400:]), {"program": p, "detail": detail}, no_input=(p is None))
        out = ""
    ans = parse_answers(out)
    mans = {}
    mans_legacy = {}
    if model and not crashed:
        # strict-validation programs: the validator is opaque to the model, its verdict (the Builder's answer to each `I`) is an input:
        # a refused `I` becomes `IR <error>` in the model's copy of the program
        mtexts = []
        n_validated = 0
        for text, meta in progs:
            a = ans.get(meta["pidx"])
            if meta.get("validate") and meta["arch"] != 2:
                # x86: the verdict is COMPUTED by the model (C13's validate over the generated tables, operands decoded by X86Dec.dec_x86)
                n_validated += 1
            elif meta.get("validate") and a and "EB" in a:
                n_validated += 1
                eb = a["EB"][0]
                head, body = text.split("\n", 1)
                blines = body.split("\n")
                for i, l in enumerate(meta["lines"]):
                    if l.startswith("I ") and i < len(eb) and eb[i] != 0 and blines[i] == l:
                        blines[i] = "IR %d" % eb[i]
                text = head + "\n" + "\n".join(blines)
            mtexts.append(text)
        mout = run_sharded(model, mtexts)
        if isinstance(mout, tuple):
            ck.violation("C08/model-driver-crash", "the extracted model driver died: %s" % (mout[2],), {"detail": str(mout[2])}, no_input=True)
        else:
            mans = parse_answers(mout)
        # the model keeps an operand that follows an empty slot (C08_all_operands_kept).  A tree whose op_count_from_emit_args still drops it is
        # reported once per program (C08/operand-after-hole-dropped) at that command; the rest of such a program is then compared against the
        # model fed the command the tree effectively recorded, so that nothing after the first hole escapes the differential
        ltexts = []
        for mt, (text, meta) in zip(mtexts, progs):
            if any(operand_after_hole(l) for l in meta["lines"]):
                ltexts.append("\n".join(legacy_truncate(l) for l in mt.split("\n")))
        if ltexts and mans:
            lout = run_sharded(model, ltexts)
            if not isinstance(lout, tuple):
                mans_legacy = parse_answers(lout)

    stats = {}
    n_err_free = 0
    n_judged = 0
    distinct = set()
    kinds = {}
    disagreements = 0
    steps_compared = 0
    oracle_only = 0
    ref_checked = 0
    n_shrunk = 0
    n_hole_steps = 0
    n_corr_shrunk = 0
    n_verdicts = 0
    n_decoded = 0
    n_dispatch = 0
    n_refused = 0
    verdict_codes = set()
    opcount_rows = 0
    func_by_arch = {}
    samples = []
    for text, meta in progs:
        if crashed:
            break
        a = ans.get(meta["pidx"])
        kinds[meta["kind"]] = kinds.get(meta["kind"], 0) + 1
        for k, v in meta["stats"].items():
            stats[k] = stats.get(k, 0) + v
        js = judge_program(meta, a, cat)
        if meta["stats"].pop("misfit_delta_refused_at_call_vs_at_relocation", 0):
            stats["misfit_delta_refused_at_call_vs_at_relocation"] = stats.get("misfit_delta_refused_at_call_vs_at_relocation", 0) + 1
        if any(k == HOLE_KEY for k, _w in js) and model and mans.get(meta["pidx"]) and a:
            # the disagreement of the images is attributed to the recorded defect only when the tree really dropped the operand at record
            # time (the node list differs from the proven model's at such a command); anything else is judged on its own
            dropped = False
            for tag in ("STEP", "STEPC"):
                fd, _u = first_difference(mans[meta["pidx"]]["STEP"], list(a[tag]), a)
                if fd is not None and fd < len(meta["lines"]) and operand_after_hole(meta["lines"][fd]):
                    dropped = True
            if not dropped:
                js = judge_program(meta, a, cat, holes_known=False)
        n_judged += 1
        if meta["kind"] == "func" and a and a.get("NFRAMES"):
            fa = func_by_arch.setdefault({0: "x86-32", 1: "x86-64", 2: "aarch64"}[meta["arch"]], {"programs": 0, "functions": 0, "frames_with_calls_saves_or_stack": 0})
            fa["programs"] += 1
            fa["functions"] += a["NFRAMES"][0]
            fa["frames_with_calls_saves_or_stack"] += (a["NFRAMES"][1] if len(a["NFRAMES"]) > 1 else 0)
        if a and "EB" in a and not any(a["EB"][0]) and a["EB"][1] == 0:
            n_err_free += 1
        if a and a.get("DUMP") and len(meta["lines"]) > 4:
            distinct.add(a["DUMP"])
        for key, what in js:
            rp = {"program": text, "kind": meta["kind"], "arch": meta["arch"]}
            if ck.match_finding(key) is None and not any(v["key"] == key for v in ck.violations) and n_shrunk < 6:
                n_shrunk += 1
                small, ncmd = shrink(impl, cat, meta, key, allow_xsec)
                if small is not None:
                    rp = {"program": small, "original_program": text, "kind": meta["kind"], "arch": meta["arch"], "commands_after_shrinking": ncmd, "commands_before": len(meta["lines"])}
                    what += "  [shrunk from %d to %d commands: %s]" % (len(meta["lines"]), ncmd, " ; ".join(small.split("\n")[1:1 + min(ncmd, 12)]))
            ck.violation(key, "program %d (%s, arch %d): %s" % (meta["pidx"], meta["kind"], meta["arch"], what), rp)
        # node-list differential with the proven model
        if model and mans:
            m = mans.get(meta["pidx"])
            if m is not None and a is not None and m.get("VERDICT") and "EB" in a:
                # strict validation, x86: the verdict the model computed for each _emit against the error the real Builder returned
                eb = a["EB"][0]
                for st_, e_ in sorted(m["VERDICT"].items()):
                    if st_ < len(eb):
                        n_verdicts += 1
                        n_refused += (1 if e_ != 0 else 0)
                        verdict_codes.add(e_)
                        if eb[st_] != e_ and not any(v["key"] == "C08/validate-verdict" for v in ck.violations):
                            ck.violation("C08/validate-verdict", "program %d (%s, arch %d): command %d `%s`: the Builder under kValidateIntermediate returned %d, the validator model "
                                         "(C13's validate over coq/gen/X86Sigs.v, operands decoded by X86Dec.dec_x86) says %d  [if ./check C13 reports a stale table snapshot, that is the cause]"
                                         % (meta["pidx"], meta["kind"], meta["arch"], st_, meta["lines"][st_] if st_ < len(meta["lines"]) else "?", eb[st_], e_),
                                         {"program": text, "step": st_, "impl": eb[st_], "model": e_, "kind": meta["kind"], "arch": meta["arch"]})
            if m is None or a is None:
                ck.violation("C08/model-no-answer", "model gave no answer for program %d" % meta["pidx"], {"program": text, "broken": "correspondence stream"}, no_input=True)
                continue
            # the reference sequence the oracle feeds to the Assembler (python list) must be, call for call, what the proven model
            # serializes (compared inside the model driver through the model's own [trace])
            rt = m.get("REFTRACE")
            if rt is not None:
                ref_checked += 1
                if not rt.startswith("ok"):
                    ck.violation("C08/oracle-vs-model/reference", "program %d: the list oracle's reference sequence and the model's serialization differ (%s)" % (meta["pidx"], rt),
                                 {"program": text, "broken": "python ListOracle vs BuilderModel.replay", "detail": rt}, no_input=True)
            for tag in (("STEPF",) if meta["kind"] == "func" else ("STEP", "STEPC")):
                is_ = list(a[tag])
                first, upto = first_difference(m["STEP"], is_, a)
                steps_compared += upto
                if first is not None and first < len(meta["lines"]) and operand_after_hole(meta["lines"][first]) and meta["pidx"] in mans_legacy and not m.get("VERDICT", {}).get(first):
                    n_hole_steps += 1
                    ck.violation("C08/operand-after-hole-dropped",
                                 "program %d (%s, arch %d): command %d `%s` has an operand after an empty slot; the %s records the instruction without it (the proven model keeps it: "
                                 "C08_all_operands_kept)" % (meta["pidx"], meta["kind"], meta["arch"], first, meta["lines"][first], "Builder" if tag == "STEP" else "Compiler"),
                                 {"program": text, "step": first, "kind": meta["kind"], "arch": meta["arch"]})
                    first, upto2 = first_difference(mans_legacy[meta["pidx"]]["STEP"], is_, a)
                    steps_compared += max(0, upto2 - upto)
                if first is not None:
                    disagreements += 1
                    if os.environ.get("C08_DEBUG"):
                        print("DISAGREE", meta["pidx"], meta["kind"], meta["double_bind"], meta.get("double_bind_at"), tag, len(is_), upto, [k for k, _ in js])
                    rc1, vo, _ = vlib.sh([impl, "run", "-v"], inp=text, timeout=120)
                    rc2, vm, _ = vlib.sh([model, "-v"], inp=text, timeout=120)
                    va = parse_answers(vo).get(meta["pidx"], {}).get({"STEP": "V", "STEPC": "VC", "STEPF": "VF"}[tag], [])
                    vmm = parse_answers(vm).get(meta["pidx"], {}).get("V", [])
                    di = va[first] if first < len(va) else "?"
                    dm = vmm[first] if first < len(vmm) else "?"
                    cmd = meta["lines"][first] if first < len(meta["lines"]) else "?"
                    if not [k for k, _w in js if ck.match_finding(k) is None]:     # the oracle already exhibits a failing input otherwise
                        # a concrete failing input for the TIE: the program is shrunk (delta debugging) while model and implementation still
                        # disagree about the node list after some command; not for AArch64 strict-validation programs (their verdicts are inputs)
                        small = None
                        if not (meta.get("validate") and meta["arch"] == 2) and n_corr_shrunk < 3:
                            n_corr_shrunk += 1

                            def still_differs(t2, ls2, _tag=tag, _pidx=meta["pidx"]):
                                r1, o1, _ = vlib.sh([impl, "run"], inp=t2, timeout=20)
                                r2, o2, _ = vlib.sh([model], inp=t2, timeout=20)
                                if r1 != 0 or r2 != 0:
                                    return False
                                a2, m2 = parse_answers(o1).get(_pidx), parse_answers(o2).get(_pidx)
                                if not a2 or not m2 or a2.get("CORRUPT"):
                                    return False
                                return first_difference(m2["STEP"], list(a2[_tag]), a2)[0] is not None
                            small, ncmd = shrink(impl, cat, meta, None, allow_xsec, budget=250, pred=still_differs)
                        ck.violation("C08/correspondence/%s/%s" % ("builder" if tag == "STEP" else "compiler", cmd.split()[0] if cmd.split() else "?"),
                                     "program %d: node list of the %s and of the proven model differ after command %d `%s`\n impl : %s\n model: %s\n(the implementation-vs-implementation "
                                     "oracle found no wrong image for this program)%s" % (meta["pidx"], "Builder" if tag == "STEP" else "Compiler", first, cmd, di[:700], dm[:700],
                                                                                            ("  [shrunk from %d to %d commands: %s]" % (len(meta["lines"]), ncmd, " ; ".join(small.split("\n")[1:1 + min(ncmd, 12)]))) if small else ""),
                                     dict({"program": text, "step": first, "impl": di, "model": dm, "broken": "node-list correspondence of BuilderModel.v with /repo"},
                                          **({"shrunk_program": small, "commands_after_shrinking": ncmd} if small else {})), no_input=(small is None))
                    break
        if len(samples) < 4 and a:
            samples.append({"program_head": meta["lines"][:12], "kind": meta["kind"], "arch": meta["arch"], "image_base0": a["IMG"].get((0, "B"), "")[:200]})
    # translator-style tie of constants
    if model:
        rc, mt, err = vlib.sh([model, "-consts"], timeout=60)
        want = []
        for k in ("InvalidArgument", "InvalidLabel", "InvalidSection", "LabelAlreadyBound", "InvalidOperandSize"):
            want.append("ERR %s %d" % (k, cat.err[k]))
        want.append("ERR InvalidState %d" % cat.err["InvalidState"])
        want.append("OPT Reserved %d" % cat.opt["Reserved"])
        want.append("ALIGN data %d" % cat.align["data"])
        want.append("MAXOPS %d %d %d" % cat.maxops)
        for rs in (4, 8):
            want.append("TYPES %d %s" % (rs, " ".join(str(x) for x in cat.types[rs])))
        got = [l for l in mt.split("\n") if l.strip()]
        if got != want:
            bad = [(g, w) for g, w in zip(got, want) if g != w][:2]
            ck.violation("C08/constants", "constants of the model differ from the code's: %s" % (bad or (len(got), len(want)),), {"broken": "constants tie (model -consts vs harness catalog)"}, no_input=True)
        n_decoded = decoder_tie(ck, impl, model, progs)
        n_dispatch = dispatch_tie(ck, cat_text, model)
        # translator tie of the operand-count rule: the C++ source of op_count_from_emit_args / capacity_of_op_count, read from the tree,
        # against the model's op_count / capacity_of on all 64 patterns
        tr = translate_op_count(vlib.REPO)
        rc, mo, err = vlib.sh([model, "-opcount"], timeout=60)
        mrows = {int(t[1]): (int(t[2]), int(t[3])) for t in (l.split() for l in mo.split("\n")) if len(t) == 4 and t[0] == "OPCOUNT"}
        if tr is None or len(mrows) != 64:
            ck.violation("C08/translator/op-count-shape", "op_count_from_emit_args / capacity_of_op_count in the tree do not have the statement shape the translator knows "
                         "(or the model printed %d rows): the operand-count rule of the model is no longer tied to the source" % len(mrows),
                         {"broken": "source translator of op_count_from_emit_args (tools/checks/c08.py translate_op_count)"}, no_input=True)
        else:
            cnt, cap = tr
            bad = [(p, cnt(p), cap(cnt(p), cat.maxops[1], cat.maxops[2]), mrows[p]) for p in range(64) if (cnt(p), cap(cnt(p), cat.maxops[1], cat.maxops[2])) != mrows[p]]
            opcount_rows = 64 - len(bad)
            if bad:
                p0 = bad[0]
                ck.violation("C08/translator/op-count", "operand slots used = %s: the source's op_count_from_emit_args gives %d (capacity %d), the model's op_count %d (capacity %d)"
                             % (format(p0[0], "06b")[::-1], p0[1], p0[2], p0[3][0], p0[3][1]),
                             {"pattern_bits_slot0_first": format(p0[0], "06b")[::-1], "source": [p0[1], p0[2]], "model": list(p0[3]), "all": [list(map(str, b)) for b in bad[:8]]})
    for o in ck.proof_failures():
        ck.violation("C08/proof/" + o["name"], "theorem %s no longer checks (%s)" % (o["name"], getattr(ck, "coq_log", "")[-800:]),
                     {"broken": "theorem " + o["name"], "file": "coq/theories/Properties/Properties_C08.v"}, no_input=True)
    return ck.finish(
        "proof",
        {"evaluations": n_judged, "distinct_nontrivial": len(distinct),
         "rule": "programs (emitter-call sequences with one-shot state, labels, alignment, data, typed data, const pools, label addresses/deltas, comments, "
                 "section switches; 40% with node-list edits, 20% malformed) generated from VERIF_SEED for x86-64/x86-32/AArch64; a program is non-trivial when it "
                 "has more than 4 commands; distinct = distinct final node-list dumps",
         "samples": samples, "programs_by_kind": kinds, "input_distribution": stats, "programs_without_any_error": n_err_free, "cross_section_label_references_generated": allow_xsec,
         "node_list_steps_compared_with_model": steps_compared, "reference_sequences_equal_to_model_serialization": ref_checked, "programs_under_strict_validation": len([1 for _t, m in progs if m.get("validate")]), "commands_with_operand_after_hole_compared_as_recorded": n_hole_steps, "function_programs_by_arch": func_by_arch, "op_count_patterns_equal_to_translated_source": opcount_rows, "validation_verdicts_computed_by_model_and_compared": n_verdicts, "x86_operands_decoded_by_model_equal_to_real_accessors": n_decoded, "serialize_dispatch_node_kinds_equal_to_translated_source": n_dispatch, "of_which_refusals": n_refused, "distinct_verdict_codes": sorted(verdict_codes), "unsupported": {"programs_judged_by_oracle_only": oracle_only}, "model_vs_impl_disagreements": disagreements,
         "traces_validated_against_impl": n_judged if model else 0,
         "proved_vs_compared": {
             "proved_for_all_inputs_in_coq": "the theorems of Properties_C08.v (obligations below) - statements about BuilderModel.v, C03's label machine, C04's relocate_entry and C13's validate; "
                                             "none of them is a finite sweep",
             "compared_in_this_run": {"programs_run_on_real_builder_compiler_assembler": n_judged, "node_list_dumps_equal_to_model_after_each_command": steps_compared,
                                      "operand_slot_patterns_swept_exhaustively": stats.get("operand_pattern_sweep", 0), "validation_verdicts_equal_to_model": n_verdicts,
                                      "op_count_rule_source_vs_model_patterns": opcount_rows, "reference_sequences_equal_to_model_serialization": ref_checked},
             "not_proved_only_compared": "byte equality of images (the instruction encoders are opaque to the model); AArch64 validation verdicts (input of the model); "
                                         "the C++ byte buffers themselves (the relocated-bytes equation for arbitrary label deltas is proved on C03's machine state: C08_same_relocated_bytes_machine)"}},
        assumptions=["theorems are about the Gallina model BuilderModel.v; the model is tied to builder.cpp by the per-command node-list differential of this check",
                     "the instruction encoder is opaque to the model (C01/C02 speak about it); equality of images is established per run by the implementation-vs-implementation oracle",
                     "relocations are compared by effect (images relocated at two bases, label offsets, unresolved count), not entry by entry"],
        checker_cmd="coqc (Coq 8.16.1) -Q coq/theories Verif coq/theories/Properties/Properties_C08.v  [full .vo build of its dependencies]",
        trusted_base=["Coq 8.16.1 kernel incl. vm_compute (no native_compute)", "extraction (ExtrOcamlBasic only) + OCaml 4.13.1 + zarith glue in ml/zconv.ml",
                      "harness/c08_harness.cpp (node dump through public node accessors), ml/c08_driver.ml (printer), tools/c08_gen.py (generator, list oracle), tools/checks/c08.py (differ, judge)"])

"""C05 — Register allocation preserves the meaning of Compiler programs (translation validation).

S2 theorems : coq/theories/Properties/Properties_C05.v — soundness of the validator RaIRModel.validate for every
              instruction semantics / input / initial machine state (re-checked by coqc on every run)
S3 tie      : harness/c05_harness.cpp builds generated programs with x86::Compiler of /repo's working tree, dumps the node
              list before and after run_passes() as RaIR terms (uses/defs from InstAPI::query_rw_info, never from RAInst);
              the EXTRACTED validator (coq/extract/Extract_RegAlloc.v + ml/c05_driver.ml) runs on every pair
S4 search   : independent of the validator: every compiled function is JIT-executed on the x86-64 host on many inputs and
              compared (return value, memory effects) with a source-level interpreter over unbounded virtual registers.
              A validator rejection is re-run on many more inputs to obtain a concrete diverging input.
Directed probes exhibit the recorded defects of the pinned tree (known_findings.jsonl / fixes/C05-*.patch); while a defect
is present the generator feature that triggers it is switched off in the random stream, so that the stream stays a
meaningful check of everything else (and is switched on again automatically once the defect is repaired).
"""
import json
import os
import random
from concurrent.futures import ThreadPoolExecutor

import vlib

# (probe name, generator feature bits that trigger the defect, what)
PROBES = [
    ("unreachable-into-loop", 0,
     "register allocator crashes (null dereference in liveness analysis) when dead code behind an unconditional jump branches into a live loop"),
    ("rm-write-zero-extension", 1,
     "a written 32-bit register operand of an 8-byte virtual register is replaced by its spill slot: the memory form does not zero bits 32..63"),
    ("same-reg-and32", 1,
     "and/or r32,r32 same-register idiom on an 8-byte virtual register is treated as read-only although it zero-extends"),
    ("same-reg-idiom-partial", 2,
     "8/16-bit xor/sub same-register idiom on a wider virtual register is treated as write-only: the upper bytes are lost"),
    ("and-zero", 4,
     "`and reg, 0` is treated as read-only: the cleared register is not written back and a later reload restores the old value"),
]
ALL_FEATURES = 2047


def parse_blocks(text):
    """harness output -> list of dict(index, lines, X, U, G, nS, nT, inserted)"""
    out, cur = [], None
    for line in text.split("\n"):
        if line.startswith("P "):
            cur = {"index": int(line.split()[1]), "head": line, "lines": [], "X": None, "U": None, "G": None, "nS": 0, "nT": 0, "ins": 0,
                   "slot": 0, "swap": 0, "tramp": 0, "sa": 0, "byref": 0}
            out.append(cur)
        elif cur is None:
            continue
        elif line.startswith("S "):
            cur["nS"] += 1
        elif line.startswith("T "):
            cur["nT"] += 1
            t = line.split()
            if t[1] == "-":
                cur["ins"] += 1
                if t[2] == "label":
                    cur["tramp"] += 1
            if t[2] == "swap":
                cur["swap"] += 1
            if t[2] == "op" and t[3].startswith("ARGTMP"):
                cur["byref"] = 1
            if " s" in line[4:]:
                cur["slot"] += 1
        elif line.startswith("M "):
            cur["sa"] = 1
        elif line.startswith("X "):
            cur["X"] = line[2:]
        elif line.startswith("U "):
            cur["U"] = line[2:]
        elif line.startswith("G "):
            cur["G"] = line[2:]
    return out


def run_harness(impl, args, timeout=600):
    rc, out, err = vlib.sh([impl] + [str(a) for a in args], timeout=timeout)
    return rc, out, err


def run_model(model, text, timeout=900, short=False):
    """short: no second round of the IR counterexample search (used by the audit, whose damaged dumps need no input)"""
    env = dict(os.environ, C05_IR_SHORT="1") if short else None
    rc, out, err = vlib.sh([model], inp=text, timeout=timeout, env=env)
    res = {}
    for line in out.split("\n"):
        t = line.split(None, 3)
        if len(t) >= 3 and t[0] == "R":
            res[int(t[1])] = (t[2], t[3] if len(t) > 3 else "")
    return rc, res, err


import re as _re


def reason_of(mv):
    """refusal reason printed by the driver (reason=...)"""
    m = _re.search(r"reason=(\S+)", mv[1] if len(mv) > 1 else "")
    return m.group(1) if m else (mv[0] if mv[0] != "ok" else "ok")


def corrupt_dump(block_text, kind, rng):
    """`refusal is justified` audit: damage the TARGET side of a real dump the way a wrong allocator would (python, untrusted) -
    the validator is expected to refuse. Returns the damaged text or None if the block has no suitable line."""
    lines = block_text.split("\n")
    tix = [i for i, l in enumerate(lines) if l.startswith("T ")]
    if kind == "drop-inserted-move":
        c = [i for i in tix if lines[i].startswith("T - mov ")]
        if not c:
            return None
        del lines[rng.choice(c)]
    elif kind == "shift-reload-slot":
        c = [i for i in tix if _re.match(r"T - mov r\S+ s-?\d+ ", lines[i])]
        if not c:
            return None
        i = rng.choice(c)
        lines[i] = _re.sub(r"(T - mov r\S+ s)(-?\d+) ", lambda m: "%s%d " % (m.group(1), int(m.group(2)) + 8), lines[i], count=1)
    elif kind == "retarget-inserted-move":
        c = [i for i in tix if _re.match(r"T - mov r0\.\d+ ", lines[i])]
        if not c:
            return None
        i = rng.choice(c)
        lines[i] = _re.sub(r"T - mov r0\.(\d+) ", lambda m: "T - mov r0.%d " % ((int(m.group(1)) + 1) % 16 if int(m.group(1)) != 3 else 5), lines[i], count=1)
    elif kind == "stack-argument-through-wrong-register":
        # a load of a stack argument goes through a register that does not hold the SA address (RaIRModel.sa_step must notice)
        c = [i for i in tix if _re.match(r"T - mov \S+ a\d+:", lines[i])]
        if not c:
            return None
        i = rng.choice(c)
        lines[i] = _re.sub(r" a(\d+):", lambda m: " a%d:" % ((int(m.group(1)) + 1 + rng.randrange(14)) % 16), lines[i], count=1)
    elif kind == "by-reference-copy-stored-elsewhere":
        # the copy of a by-reference argument lands 16 bytes away from the temporary whose address is passed
        # (the store goes through a register that holds the address of ANOTHER place: RaIRModel.sa_step / sa_from must notice)
        c = [i for i in tix if _re.match(r"T - mov t\d+:-?\d+ r1\.\d+ 16 0 16", lines[i])]
        if not c:
            return None
        i = rng.choice(c)
        if rng.random() < 0.5:
            lines[i] = _re.sub(r"T - mov t(\d+):(-?\d+) ", lambda m: "T - mov t%s:%d " % (m.group(1), int(m.group(2)) + 16), lines[i], count=1)
        else:
            lines[i] = _re.sub(r"T - mov t(\d+):", lambda m: "T - mov t%d:" % ((int(m.group(1)) + 1 + rng.randrange(14)) % 16), lines[i], count=1)
    else:
        return None
    return "\n".join(lines)


# mnemonic -> algebraic class of RwRuleModel.alu (the only hand-written part of the idiom table; its meaning is alu_sem, the
# theorems C05_idiom_* are about these classes). first-operand access the DB must show: x = read-write, w = write-only.
IDIOM_SPEC = [
    ("xor", "AXor", "x"), ("sub", "ASub", "x"), ("or", "AOr", "x"), ("and", "AAnd", "x"), ("add", "AAdd", "x"),
    ("shl", "AShl", "x"), ("shr", "AShr", "x"), ("sar", "ASar", "x"), ("rol", "ARol", "x"), ("ror", "ARor", "x"),
    ("pxor", "VXor", "x"), ("vpxor", "VXor", "w"), ("vpxord", "VXor", "w"), ("kxorq", "VXor", "w"),
    ("psubd", "VSubD", "x"), ("vpsubd", "VSubD", "w"), ("pcmpeqd", "VCmpEqD", "x"), ("vpcmpeqd", "VCmpEqD", "w"),
    ("pand", "VAnd", "x"), ("vpand", "VAnd", "w"), ("vpandd", "VAnd", "w"), ("kandq", "VAnd", "w"),
    ("por", "VOr", "x"), ("vpor", "VOr", "w"), ("korq", "VOr", "w"),
]


def gen_idiom_tags(ck, impl):
    """translator: instruction ids of the tagged mnemonics from the tree under test (InstAPI::string_to_inst_id, round trip
    through inst_id_to_string), cross-checked with db/isa_x86.json (the mnemonic exists, its first operand has the expected
    access); result = text of coq/gen/C05IdiomTags.v. Returns (text, problems)."""
    import json as _json
    problems = []
    rc, out, err = vlib.sh([impl, "tags"] + [m for m, _, _ in IDIOM_SPEC], timeout=60)
    ids = {}
    for line in out.split("\n"):
        t = line.split()
        if len(t) == 3:
            if t[0] != t[2] or t[1] == "0":
                problems.append("mnemonic %s does not round-trip through the instruction id (%s -> %s)" % (t[0], t[1], t[2]))
            ids[t[0]] = int(t[1])
    db = _json.load(open(os.path.join(vlib.REPO, "db", "isa_x86.json")))
    forms = {}
    for grp in db["instructions"]:
        for ins in grp["instructions"]:
            txt = ins.get("any") or ins.get("x64") or ins.get("x86") or ""
            txt = _re.sub(r"^\[[^\]]*\]\s*", "", txt)
            name = txt.split(" ")[0] if txt else ""
            forms.setdefault(name, []).append(txt)
    for m, cls, acc in IDIOM_SPEC:
        if m not in ids:
            problems.append("no instruction id for %s" % m)
        fs = forms.get(m, [])
        if not fs:
            problems.append("mnemonic %s is not in db/isa_x86.json" % m)
        elif not any(_re.match(r"%s %s:" % (_re.escape(m), acc), f, _re.I) for f in fs):
            problems.append("db/isa_x86.json: first operand of %s is not '%s:' in any form (%s)" % (m, acc, fs[:2]))
    rows = ";\n    ".join("(%d, %s) (* %s *)" % (ids.get(m, 0), cls, m) for m, cls, _ in IDIOM_SPEC)
    text = ("(* GENERATED by tools/checks/c05.py (gen_idiom_tags) from the x86 instruction ids of the tree under test and\n"
            "   db/isa_x86.json - do not edit. instruction id -> algebraic class used by RwRuleModel.idiom_of. *)\n"
            "From Coq Require Import NArith List Bool.\nFrom Verif Require Import RegAlloc.RwRuleModel.\nImport ListNotations.\nLocal Open Scope N_scope.\n\n"
            "Definition idiom_tags : list (N * alu) :=\n  [ %s ].\n\n"
            "Lemma idiom_tags_distinct : ids_distinct idiom_tags = true.\nProof. vm_compute. reflexivity. Qed.\n" % rows)
    return text, problems


def own_regen(ck, name, text):
    """like ck.coq_regen, but only THIS property's generated file is recompiled (the scratch gen dir holds nothing else):
    None if the text equals the committed coq/gen/<name>, else (gen_dir, failed_files, log)."""
    import shutil
    committed = os.path.join(vlib.COQ, "gen", name)
    if os.path.exists(committed) and open(committed).read() == text:
        return None
    wgen = os.path.join(ck.work, "gen")
    shutil.rmtree(wgen, ignore_errors=True)
    os.makedirs(wgen)
    open(os.path.join(wgen, name), "w").write(text)
    ck.coq_make(["theories/RegAlloc/RwRuleModel.vo"])
    rc, out, err = vlib.sh(["coqc", "-Q", os.path.join(vlib.COQ, "theories"), "Verif", "-Q", wgen, "VerifGen", "-w", "-all", os.path.join(wgen, name)], cwd=wgen, timeout=600)
    return wgen, ([name] if rc != 0 else []), (out + err)[-2000:]


def replay_cmd(seed, index, features):
    return {"seed": seed, "index": index, "features": features,
            "cmd": "build/harness/c05-plain-* %d %d 1 2000 %d 1 | build/ml/c05/c05-*" % (seed, index, features)}


def run(ck):
    rng = random.Random(ck.seed)
    impl = ck.build_harness("c05", ["c05_harness.cpp"])
    # translator tie: the instruction-id -> idiom-class table is regenerated from the tree under test on every run
    tags_text, tag_problems = gen_idiom_tags(ck, impl)
    regen = own_regen(ck, "C05IdiomTags.v", tags_text)
    gen_dir = None
    if regen is not None:
        gen_dir, failed, rlog = regen
        ck.log("idiom tag table differs from the committed snapshot (instruction ids changed): regenerated in %s, failed: %s" % (gen_dir, failed))
        if failed:
            ck.violation("C05/idiom-tags", "the regenerated idiom tag table no longer checks: %s %s" % (failed, rlog[-400:]),
                         {"broken": "coq/gen/C05IdiomTags.v (ids_distinct)"}, no_input=True)
    for pr in tag_problems:
        ck.violation("C05/idiom-tags", "idiom tag table: " + pr, {"broken": "translator gen_idiom_tags vs db/isa_x86.json"}, no_input=True)
    obl = ck.coq_properties(gen_dir=gen_dir)
    ck.log("theorems: %d, failed: %d" % (len(obl), len([o for o in obl if not o["ok"]])))
    model = ck.ocaml_model("Extract_RegAlloc.v", ["zconv.ml", "c05_driver.ml"], name="c05", gen_dir=gen_dir)

    if ck.replay:
        rp = json.load(open(ck.replay))["replay"]
        if rp.get("probe") == "jt7":
            rc, out, err = run_harness(impl, ["jt7", 60, 30])
        elif "probe" in rp:
            rc, out, err = run_harness(impl, ["probe", rp["probe"], 200, 1])
        elif rp.get("skel"):
            rc, out, err = run_harness(impl, ["skel", rp["seed"], rp["index"], 1, 2000, 1])
        elif rp.get("x32"):
            rc, out, err = run_harness(impl, ["x32", rp["seed"], rp["index"], 1, 1])
        elif rp.get("a64"):
            rc, out, err = run_harness(impl, ["a64", rp["seed"], rp["index"], 1, 1, rp.get("lists", 1)])
        else:
            rc, out, err = run_harness(impl, [rp["seed"], rp["index"], 1, 2000, rp.get("features", ALL_FEATURES), 1])
        print(out[-20000:])
        print("harness rc:", rc)
        print("validator:", run_model(model, out)[1])
        return 0

    # ------------------------------------------------------------------ value semantics of the tagged instructions vs the host CPU
    # (what the idiom theorems C05_idiom_* are about): every IDIOM_SPEC mnemonic is executed on the host in its register /
    # same-register / immediate forms at every operand size on boundary + random values; the extracted alu_sem must give the
    # same result wherever alu_defined holds (theorem C05_idiom_verdicts_rest_on_specified_semantics: no verdict elsewhere)
    rc, out, err = vlib.sh([impl, "alu", str(ck.seed)] + [m for m, _, _ in IDIOM_SPEC], timeout=300)
    arc, aout, aerr = vlib.sh([model], inp=out, timeout=600)
    alu = {"harness_rc": rc, "mnemonics": len(IDIOM_SPEC), "executions": len([l for l in out.split("\n") if l.startswith("A ")])}
    alu_bad = [l for l in aout.split("\n") if l.startswith("AR bad")]
    alu_unsup = [l[len("AR unsupported "):] for l in aout.split("\n") if l.startswith("AR unsupported")]
    m = _re.search(r"AR summary compared=(\d+) unspecified=(\d+) bad=(\d+) forms=(\d+) never_compared=(\S+)", aout)
    if m:
        alu.update({"compared_equal": int(m.group(1)) - int(m.group(3)), "outside_specification": int(m.group(2)), "differ": int(m.group(3)),
                    "forms": int(m.group(4)), "forms_never_compared": [] if m.group(5) == "-" else m.group(5).split(",")})
    alu["not_executable_on_this_host"] = alu_unsup
    ck.log("alu_sem vs host CPU: %s" % alu)
    if alu_bad:
        ck.violation("C05/alu-semantics", "the value semantics behind the idiom theorems differs from the host CPU: %s" % alu_bad[0][7:300],
                     {"cmd": "c05_harness alu %d <mnemonics> | c05 driver" % ck.seed, "line": alu_bad[0]})
    elif rc != 0 or arc != 0 or not m or alu.get("forms_never_compared") or any("assemble-error" in u or "no-id" in u for u in alu_unsup):
        ck.violation("C05/alu-semantics", "the comparison of alu_sem with the host CPU did not cover every tagged mnemonic/size/form: %s %s" % (alu, (err + aerr)[-200:]),
                     {"broken": "c05_harness alu / IDIOM_SPEC"}, no_input=True)

    # ------------------------------------------------------------------ the inserted-move whitelist of the dumper vs the host CPU
    # every instruction form target_move accepts (mov/movzx/xchg, legacy SSE, VEX, EVEX moves, kmovq; register, load, save) is
    # described by target_move AND executed on the host on random register/stack contents; the extracted tstep must turn the
    # same contents into the same destination register, source register and stack window - this ties the width / keep /
    # extension parameters of the T lines (what the proven validator believes about an inserted instruction) to the CPU
    rc, out, err = vlib.sh([impl, "moves", str(ck.seed)], timeout=300)
    mrc, mout, merr = vlib.sh([model], inp=out, timeout=600)
    moves = {"harness_rc": rc, "executions": len([l for l in out.split("\n") if l.startswith("V ")])}
    mv_bad = [l for l in mout.split("\n") if l.startswith("VR bad")]
    mv_unsup = [l[len("VR unsupported "):] for l in mout.split("\n") if l.startswith("VR unsupported")]
    mm = _re.search(r"VR summary compared_equal=(\d+) bad=(\d+) shapes=(\d+)", mout)
    if mm:
        moves.update({"compared_equal": int(mm.group(1)), "differ": int(mm.group(2)), "t_line_shapes": int(mm.group(3))})
    moves["not_accepted_or_not_executable"] = mv_unsup
    ck.log("inserted moves vs host CPU: %s" % moves)
    if mv_bad:
        ck.violation("C05/move-semantics", "an inserted move is not what its T line says: %s" % mv_bad[0][7:400],
                     {"cmd": "c05_harness moves %d | c05 driver" % ck.seed, "line": mv_bad[0]})
    elif rc != 0 or mrc != 0 or not mm or moves.get("t_line_shapes", 0) < 12 or mv_unsup:
        ck.violation("C05/move-semantics", "the comparison of the move whitelist with the host CPU did not run completely: %s %s" % (moves, (err + merr)[-200:]),
                     {"broken": "c05_harness moves / target_move"}, no_input=True)

    # ------------------------------------------------------------------ directed probes (recorded defects)
    features = ALL_FEATURES
    probe_results = {}
    for name, bits, what in PROBES:
        rc, out, err = run_harness(impl, ["probe", name, 200], timeout=120)
        blocks = parse_blocks(out)
        verdict = None
        if rc != 0:
            verdict = "crash rc=%d" % rc
        elif not blocks or blocks[0]["X"] is None:
            verdict = "no-result " + (blocks[0]["G"] or blocks[0]["U"] or "" if blocks else "")
        elif not blocks[0]["X"].startswith("ok"):
            verdict = blocks[0]["X"]
        _, mres, _ = run_model(model, out) if rc == 0 else (0, {}, "")
        mv = mres.get(0, ("none", ""))
        probe_results[name] = {"execution": verdict or "ok", "validator": mv[0]}
        if verdict is not None:
            ck.violation("C05/probe/" + name, "%s [%s; validator: %s %s]" % (what, verdict, mv[0], mv[1][:160]),
                         {"probe": name, "execution": verdict, "validator": list(mv)})
        elif mv[0] != "ok":
            # executes correctly on 200 inputs but the proven validator refuses it
            ck.violation("C05/probe/" + name, "%s [validator: %s %s; no diverging input among 200]" % (what, mv[0], mv[1][:200]),
                         {"probe": name, "validator": list(mv), "broken": "RaIRModel.validate on probe " + name}, no_input=True)
    # recorded, not yet repaired defect: a block named by several jump-table entries / tables and entered by falling through
    # (the generator shape "mode 7", never used by the random stream): 60 fixed programs, the first miscompiled one is reported
    rc, out, err = run_harness(impl, ["jt7", 60, 30], timeout=300)
    _, mres, _ = run_model(model, out) if rc == 0 else (0, {}, "")
    jt_bad = [b for b in parse_blocks(out) if (b["X"] or "").startswith("diverge") or mres.get(b["index"], ("none", ""))[0] != "ok"]
    probe_results["jump-table-merged-targets"] = {"programs": 60, "miscompiled_or_refused": len(jt_bad), "harness_rc": rc}
    if rc != 0 or jt_bad:
        features &= ~256          # keep that shape out of the random stream while the defect is present
        b0 = jt_bad[0] if jt_bad else None
        ck.violation("C05/probe/jump-table-merged-targets",
                     "detector programs for the (repaired) jump-table defect - entries bound back to back, one block named by several entries/tables, also "
                     "entered by falling through - are miscompiled again, by that or another defect: %s" % (("program jt7 index %d: %s; validator: %s" % (b0["index"], b0["X"], " ".join(mres.get(b0["index"], ("none", "")))[:200])) if b0 else "harness rc=%d" % rc),
                     {"probe": "jt7", "index": b0["index"] if b0 else -1, "execution": b0["X"] if b0 else None},
                     no_input=not (rc != 0 or any((b["X"] or "").startswith("diverge") for b in jt_bad)))
    # detector for the repaired defect bc95664 (consecutive OUT registers of ld1 {v,v,..} overwrote live values): 120 fixed
    # programs with register lists; a refusal by the allocator for conflicting lists is the separate recorded finding.
    rc, out, err = run_harness(impl, ["a64", 777, 0, 120, 0, 1], timeout=600)
    _, mres, _ = run_model(model, out)
    blocks = parse_blocks(out)
    lst_refused = [b for b in blocks if b["G"] and "ConsecutiveRegsAllocation" in b["G"]]
    lst_bad = [b for b in blocks if not (b["G"] and "ConsecutiveRegsAllocation" in b["G"]) and mres.get(b["index"], ("none", ""))[0] != "ok"]
    a64_lists = 1        # the random AArch64 stream runs with register lists (bc95664 repaired the clobbering)
    if lst_refused:
        ck.violation("C05/a64/conflicting-lists-refused", "a64::Compiler refuses a valid function with conflicting register lists: %s (a64 seed 777 index %d)" %
                     (lst_refused[0]["G"], lst_refused[0]["index"]), {"a64": True, "seed": 777, "index": lst_refused[0]["index"], "lists": 1})
    probe_results["a64-register-lists"] = {"programs": len(blocks), "refused_by_validator": len(lst_bad), "refused_by_allocator": len(lst_refused), "harness_rc": rc}
    if rc != 0 or len(blocks) != 120 or lst_bad:
        b0 = lst_bad[0] if lst_bad else None
        mv0 = mres.get(b0["index"], ("none", "")) if b0 else ("none", "")
        ce = "ir-counterexample" in mv0[1]
        ck.violation("C05/probe/a64-list-out-clobber",
                     "detector programs for the (repaired) AArch64 register-list defect (ld1 {v..}: consecutive destination registers overwrote live values / crash) "
                     "fail again, by that or another defect: %s" %
                     (("program a64 seed 777 index %d: %s %s" % (b0["index"], mv0[0], mv0[1][:300])) if b0 else "harness rc=%d after %d programs" % (rc, len(blocks))),
                     {"a64": True, "seed": 777, "index": b0["index"] if b0 else len(blocks), "lists": 1}, no_input=not (ce or rc != 0))
    ck.log("probes: %s -> generator features %d" % (probe_results, features))

    # ------------------------------------------------------------------ random stream
    nprog = 800 if ck.tier == "quick" else 24000
    inputs = 20 if ck.tier == "quick" else 60
    seed = ck.seed
    shard = 40 if ck.tier == "quick" else 250
    ranges = [(i, min(shard, nprog - i)) for i in range(0, nprog, shard)]

    def one(r):
        first, count = r
        rc, out, err = run_harness(impl, [seed, first, count, inputs, features], timeout=1500)
        mrc, mres, merr = run_model(model, out, timeout=2500)
        return first, count, rc, out, mrc, mres, (err[-300:] + merr[-300:])
    with ThreadPoolExecutor(max_workers=vlib.NPROC) as ex:
        results = list(ex.map(one, ranges))

    stats = {"programs": 0, "executed_ok": 0, "validated_ok": 0, "unsupported": 0, "emit_or_ra_error": 0, "source_instrs": 0, "target_instrs": 0,
             "inserted_instrs": 0, "with_inserted": 0, "with_slots": 0, "with_swaps": 0, "with_trampolines": 0, "with_sa_register_arguments": 0, "with_by_reference_call_arguments": 0, "with_frame_pointer": 0, "by_pressure_class": {}}
    unsupported_why = {}
    samples = []
    nontrivial = 0
    disagreements = 0
    refusal_hist = {}
    audit_blocks, sa_blocks, byref_blocks = [], [], []
    for first, count, rc, out, mrc, mres, errtxt in results:
        blocks = parse_blocks(out)
        if len(audit_blocks) < 24:
            for chunk in out.split("\nE\n")[:3]:
                if "\nT - mov " in chunk and "\nX ok" in chunk:
                    audit_blocks.append(chunk + "\nE\n")
        if len(sa_blocks) < 15 or len(byref_blocks) < 15:
            for chunk in out.split("\nE\n"):
                if "\nX ok" in chunk and "\nM " in chunk and len(sa_blocks) < 15 and _re.search(r"\nT - mov \S+ a\d+:", chunk):
                    sa_blocks.append(chunk + "\nE\n")
                if "\nX ok" in chunk and " op ARGTMP|" in chunk and len(byref_blocks) < 15:
                    byref_blocks.append(chunk + "\nE\n")
        if rc != 0 or mrc != 0 or len(blocks) != count:
            # localise the crashing program
            bad = first + max(0, len(blocks) - 1)
            rc1, out1, err1 = run_harness(impl, [seed, bad, 1, inputs, features], timeout=300)
            if rc1 != 0:
                ck.violation("C05/crash", "allocator/harness crashed (rc=%d) on generated program seed=%d index=%d features=%d" % (rc1, seed, bad, features),
                             replay_cmd(seed, bad, features))
            else:
                ck.violation("C05/harness", "shard %d+%d failed (harness rc=%s, model rc=%s, %d blocks) but program %d alone runs: %s" %
                             (first, count, rc, mrc, len(blocks), bad, errtxt), {"shard": [first, count], "broken": "C05 harness/model driver"}, no_input=True)
        for b in blocks:
            stats["programs"] += 1
            idx = b["index"]
            cls = idx % 6
            stats["by_pressure_class"][str(cls)] = stats["by_pressure_class"].get(str(cls), 0) + 1
            if b["G"]:
                stats["emit_or_ra_error"] += 1
                ck.violation("C05/ra-error", "Compiler/allocator returned an error for a valid generated program: %s (seed=%d index=%d)" % (b["G"], seed, idx),
                             replay_cmd(seed, idx, features))
                continue
            mv = mres.get(idx, ("none", ""))
            x = b["X"] or "none"
            if b["U"]:
                stats["unsupported"] += 1
                unsupported_why[b["U"]] = unsupported_why.get(b["U"], 0) + 1
            stats["source_instrs"] += b["nS"]; stats["target_instrs"] += b["nT"]; stats["inserted_instrs"] += b["ins"]
            stats["with_inserted"] += 1 if b["ins"] else 0
            stats["with_slots"] += 1 if b["slot"] else 0
            stats["with_swaps"] += 1 if b["swap"] else 0
            stats["with_sa_register_arguments"] += b["sa"]
            stats["with_by_reference_call_arguments"] += b["byref"]
            stats["with_frame_pointer"] += 1 if " fp=1" in b["head"] else 0
            stats["with_trampolines"] += 1 if b["tramp"] else 0
            if b["ins"] or b["slot"]:
                nontrivial += 1
            if x.startswith("ok"):
                stats["executed_ok"] += 1
            if mv[0] == "ok":
                stats["validated_ok"] += 1
            if len(samples) < 6 and (b["slot"] or idx < 2):
                samples.append({"seed": seed, "index": idx, "head": b["head"], "execution": x, "validator": mv[0] + " " + mv[1][:60],
                                "source_instrs": b["nS"], "target_instrs": b["nT"], "inserted": b["ins"]})
            if x.startswith("diverge") or (not b["U"] and mv[0] != "ok"):
                disagreements += 1
                refusal_hist[reason_of(mv)] = refusal_hist.get(reason_of(mv), 0) + 1
            if x.startswith("diverge"):
                ck.violation("C05/miscompile", "compiled function differs from the source program: %s; validator: %s %s (seed=%d index=%d features=%d)" %
                             (x, mv[0], mv[1][:200], seed, idx, features), dict(replay_cmd(seed, idx, features), execution=x, validator=list(mv)))
            elif not x.startswith("ok"):
                ck.violation("C05/execution", "could not execute generated program: %s (seed=%d index=%d)" % (x, seed, idx),
                             dict(replay_cmd(seed, idx, features), broken="C05 harness: " + x), no_input=True)
            elif not b["U"] and mv[0] != "ok":
                # validator refuses, the first inputs agree: search harder for a concrete diverging input
                rc2, out2, err2 = run_harness(impl, [seed, idx, 1, 3000, features], timeout=600)
                b2 = parse_blocks(out2)
                x2 = b2[0]["X"] if b2 and b2[0]["X"] else "none"
                if x2.startswith("diverge"):
                    ck.violation("C05/miscompile", "compiled function differs from the source program: %s; validator: %s %s (seed=%d index=%d features=%d)" %
                                 (x2, mv[0], mv[1][:200], seed, idx, features), dict(replay_cmd(seed, idx, features), execution=x2, validator=list(mv)))
                else:
                    ck.violation("C05/validator-reject", "the proven validator refuses the allocation of program seed=%d index=%d features=%d (%s %s) but 3000 inputs "
                                 "execute like the source program" % (seed, idx, features, mv[0], mv[1][:500]),
                                 dict(replay_cmd(seed, idx, features), validator=list(mv), broken="RaIRModel.validate (clause at the reported target pc)"), no_input=True)
    # ------------------------------------------------------------------ AArch64 stream: validator only (no AArch64 CPU here)
    na64 = 300 if ck.tier == "quick" else 10000
    ashard = 30 if ck.tier == "quick" else 200
    aranges = [(i, min(ashard, na64 - i)) for i in range(0, na64, ashard)]

    def one_a64(r):
        first, count = r
        rc, out, err = run_harness(impl, ["a64", seed, first, count, 0, a64_lists], timeout=1500)
        mrc, mres, merr = run_model(model, out, timeout=2500)
        return first, count, rc, out, mrc, mres, (err[-300:] + merr[-300:])
    with ThreadPoolExecutor(max_workers=vlib.NPROC) as ex:
        aresults = list(ex.map(one_a64, aranges))
    a64 = {"programs": 0, "validated_ok": 0, "unsupported": 0, "source_instrs": 0, "target_instrs": 0, "inserted_instrs": 0, "with_slots": 0, "with_trampolines": 0}
    for first, count, rc, out, mrc, mres, errtxt in aresults:
        blocks = parse_blocks(out)
        if rc != 0 or mrc != 0 or len(blocks) != count:
            bad = first + max(0, len(blocks) - 1)
            rc1, out1, err1 = run_harness(impl, ["a64", seed, bad, 1, 0, a64_lists], timeout=300)
            if rc1 != 0:
                ck.violation("C05/a64/crash", "AArch64 allocator/harness crashed (rc=%d) on generated program seed=%d index=%d" % (rc1, seed, bad),
                             {"a64": True, "seed": seed, "index": bad})
            else:
                ck.violation("C05/harness", "a64 shard %d+%d failed (harness rc=%s, model rc=%s): %s" % (first, count, rc, mrc, errtxt),
                             {"shard": [first, count], "broken": "C05 harness/model driver (a64)"}, no_input=True)
        for b in blocks:
            a64["programs"] += 1
            idx = b["index"]
            if b["G"] and "ConsecutiveRegsAllocation" in b["G"]:
                a64["refused_conflicting_lists"] = a64.get("refused_conflicting_lists", 0) + 1
                ck.violation("C05/a64/conflicting-lists-refused", "a64::Compiler refuses a valid function with conflicting register lists: %s (seed=%d index=%d)" % (b["G"], seed, idx),
                             {"a64": True, "seed": seed, "index": idx, "lists": 1})
                continue
            if b["G"]:
                ck.violation("C05/a64/ra-error", "a64::Compiler returned an error for a valid generated program: %s (seed=%d index=%d)" % (b["G"], seed, idx),
                             {"a64": True, "seed": seed, "index": idx})
                continue
            if b["U"]:
                a64["unsupported"] += 1
                unsupported_why["a64: " + b["U"]] = unsupported_why.get("a64: " + b["U"], 0) + 1
                continue
            mv = mres.get(idx, ("none", ""))
            a64["source_instrs"] += b["nS"]; a64["target_instrs"] += b["nT"]; a64["inserted_instrs"] += b["ins"]
            a64["with_slots"] += 1 if b["slot"] else 0
            a64["with_trampolines"] += 1 if b["tramp"] else 0
            if b["ins"] or b["slot"]:
                nontrivial += 1
            if (b["X"] or "").startswith("serialize-error"):
                ck.violation("C05/a64/serialize", "the allocated AArch64 program cannot be assembled: %s (seed=%d index=%d)" % (b["X"], seed, idx),
                             {"a64": True, "seed": seed, "index": idx, "broken": "serialization of a64 allocator output"}, no_input=True)
            if mv[0] == "ok":
                a64["validated_ok"] += 1
            else:
                disagreements += 1
                refusal_hist["a64:" + reason_of(mv)] = refusal_hist.get("a64:" + reason_of(mv), 0) + 1
                # no AArch64 CPU: the search oracle is the pair of extracted IR interpreters run by the driver under random
                # instruction semantics and inputs (a counterexample is a concrete diverging run of the dumped pair)
                ce = mv[1][mv[1].find("ir-counterexample"):] if "ir-counterexample" in mv[1] else None
                if ce:
                    ck.violation("C05/a64/miscompile", "AArch64 allocation of program seed=%d index=%d changes the meaning of the program: %s; validator: %s %s" %
                                 (seed, idx, ce[:300], mv[0], mv[1][:200]), {"a64": True, "seed": seed, "index": idx, "lists": a64_lists, "validator": list(mv), "counterexample": ce})
                else:
                    ck.violation("C05/a64/validator-reject", "the proven validator refuses the AArch64 allocation of program seed=%d index=%d (%s %s); no AArch64 "
                                 "execution oracle is available on this host" % (seed, idx, mv[0], mv[1][:400]),
                                 {"a64": True, "seed": seed, "index": idx, "validator": list(mv), "broken": "RaIRModel.validate_full on a64::Compiler output"}, no_input=True)
    ck.log("a64 stream: %s" % a64)

    # ------------------------------------------------------------------ x86-32 stream: validator only (32-bit code cannot run in this process)
    nx32 = 300 if ck.tier == "quick" else 8000
    xranges = [(i, min(ashard, nx32 - i)) for i in range(0, nx32, ashard)]

    def one_x32(r):
        first, count = r
        rc, out, err = run_harness(impl, ["x32", seed, first, count], timeout=1500)
        mrc, mres, merr = run_model(model, out, timeout=2500)
        return first, count, rc, out, mrc, mres, (err[-300:] + merr[-300:])
    with ThreadPoolExecutor(max_workers=vlib.NPROC) as ex:
        xresults = list(ex.map(one_x32, xranges))
    x32 = {"programs": 0, "validated_ok": 0, "unsupported": 0, "source_instrs": 0, "target_instrs": 0, "inserted_instrs": 0, "with_slots": 0, "with_swaps": 0, "with_sa_register_arguments": 0, "unencodable_byte_spill": 0}
    for first, count, rc, out, mrc, mres, errtxt in xresults:
        blocks = parse_blocks(out)
        if rc != 0 or mrc != 0 or len(blocks) != count:
            bad = first + max(0, len(blocks) - 1)
            ck.violation("C05/x86-32/crash", "x86-32 allocator/harness failed (harness rc=%s, model rc=%s) near program seed=%d index=%d: %s" % (rc, mrc, seed, bad, errtxt),
                         {"x32": True, "seed": seed, "index": bad})
        for b in blocks:
            x32["programs"] += 1
            idx = b["index"]
            if b["G"]:
                ck.violation("C05/x86-32/ra-error", "x86::Compiler (32-bit) returned an error for a valid generated program: %s (seed=%d index=%d)" % (b["G"], seed, idx),
                             {"x32": True, "seed": seed, "index": idx})
                continue
            if b["U"]:
                x32["unsupported"] += 1
                unsupported_why["x86-32: " + b["U"]] = unsupported_why.get("x86-32: " + b["U"], 0) + 1
                continue
            mv = mres.get(idx, ("none", ""))
            x32["source_instrs"] += b["nS"]; x32["target_instrs"] += b["nT"]; x32["inserted_instrs"] += b["ins"]
            x32["with_slots"] += 1 if b["slot"] else 0
            x32["with_swaps"] += 1 if b["swap"] else 0
            x32["with_sa_register_arguments"] += b["sa"]
            if b["ins"] or b["slot"]:
                nontrivial += 1
            xx = b["X"] or ""
            if xx.startswith("serialize-error"):
                if "InvalidRexPrefix" in xx and "mov byte ptr [esp" in xx:
                    x32["unencodable_byte_spill"] += 1
                    ck.violation("C05/x86-32/byte-spill-non-byte-register", "the allocated x86-32 program cannot be assembled: %s (seed=%d index=%d)" % (xx, seed, idx),
                                 {"x32": True, "seed": seed, "index": idx})
                else:
                    ck.violation("C05/x86-32/serialize", "the allocated x86-32 program cannot be assembled: %s (seed=%d index=%d)" % (xx, seed, idx),
                                 {"x32": True, "seed": seed, "index": idx, "broken": "serialization of x86-32 allocator output"}, no_input=True)
            if mv[0] == "ok":
                x32["validated_ok"] += 1
            else:
                disagreements += 1
                refusal_hist["x86-32:" + reason_of(mv)] = refusal_hist.get("x86-32:" + reason_of(mv), 0) + 1
                ce = mv[1][mv[1].find("ir-counterexample"):] if "ir-counterexample" in mv[1] else None
                if ce:
                    ck.violation("C05/x86-32/miscompile", "x86-32 allocation of program seed=%d index=%d changes the meaning of the program: %s; validator: %s %s" %
                                 (seed, idx, ce[:300], mv[0], mv[1][:200]), {"x32": True, "seed": seed, "index": idx, "validator": list(mv), "counterexample": ce})
                else:
                    ck.violation("C05/x86-32/validator-reject", "the proven validator refuses the x86-32 allocation of program seed=%d index=%d (%s %s)" % (seed, idx, mv[0], mv[1][:400]),
                                 {"x32": True, "seed": seed, "index": idx, "validator": list(mv), "broken": "RaIRModel.validate_full on 32-bit x86::Compiler output"}, no_input=True)
    ck.log("x86-32 stream: %s" % x32)
    stats["programs"] += 0
    # ------------------------------------------------------------------ systematic CFG skeletons (x86-64, executed)
    # every skeleton of 2..5 blocks (terminator of each block: fall through / conditional / unconditional to any block, backward
    # ones guarded) x pressure {8, 14, 15, 28}: 61 696 programs. thorough: all of them; quick: 32 windows of 10 consecutive ones.
    SKEL_TOTAL = 4 * (5 + 49 + 729 + 14641)
    if ck.tier == "quick":
        sranges = [(rng.randrange(0, SKEL_TOTAL - 10), 10) for _ in range(20)] + [(0, 30)]
    else:
        sranges = [(i, min(400, SKEL_TOTAL - i)) for i in range(0, SKEL_TOTAL, 400)]

    def one_skel(r):
        first, count = r
        rc, out, err = run_harness(impl, ["skel", seed, first, count, 12 if ck.tier == "quick" else 30], timeout=1500)
        mrc, mres, merr = run_model(model, out, timeout=2500)
        return first, count, rc, out, mrc, mres, (err[-300:] + merr[-300:])
    with ThreadPoolExecutor(max_workers=vlib.NPROC) as ex:
        sresults = list(ex.map(one_skel, sranges))
    skel = {"skeletons_total": SKEL_TOTAL, "programs": 0, "executed_ok": 0, "validated_ok": 0}
    for first, count, rc, out, mrc, mres, errtxt in sresults:
        blocks = parse_blocks(out)
        if rc != 0 or mrc != 0 or len(blocks) != count:
            ck.violation("C05/skeleton/crash", "allocator/harness failed on CFG skeleton window %d+%d (harness rc=%s, model rc=%s): %s" % (first, count, rc, mrc, errtxt),
                         {"skel": True, "seed": seed, "index": first + max(0, len(blocks) - 1)})
        for b in blocks:
            skel["programs"] += 1
            idx = b["index"]
            mv = mres.get(idx, ("none", ""))
            x = b["X"] or "none"
            if b["G"] or b["U"]:
                ck.violation("C05/skeleton/unsupported", "CFG skeleton %d could not be processed: %s" % (idx, b["G"] or b["U"]), {"skel": True, "seed": seed, "index": idx, "broken": "C05 harness"}, no_input=True)
                continue
            if b["ins"] or b["slot"]:
                nontrivial += 1
            if x.startswith("ok"):
                skel["executed_ok"] += 1
            if mv[0] == "ok":
                skel["validated_ok"] += 1
            if x.startswith("diverge") or mv[0] != "ok":
                disagreements += 1
                refusal_hist["skeleton:" + reason_of(mv)] = refusal_hist.get("skeleton:" + reason_of(mv), 0) + 1
                ck.violation("C05/miscompile" if x.startswith("diverge") else "C05/validator-reject",
                             "CFG skeleton %d (seed %d): execution %s; validator: %s %s" % (idx, seed, x, mv[0], mv[1][:300]),
                             {"skel": True, "seed": seed, "index": idx, "execution": x, "validator": list(mv), "broken": "RaIRModel.validate_full"}, no_input=not x.startswith("diverge"))
    ck.log("skeleton stream: %s" % skel)

    # ------------------------------------------------------------------ `refusal is justified` audit
    # (1) histogram of the refusal reasons seen in this run (empty on a correct tree); (2) sensitivity: real accepted dumps are
    # damaged the way a wrong allocator would (drop an inserted move, reload from a slot 8 bytes further, send an inserted move
    # to another register) and validated again - what is still accepted must be explainable (dead move)
    audit = {"accepted_dumps_damaged": len(audit_blocks), "with_sa_register": len(sa_blocks), "with_by_reference_arguments": len(byref_blocks), "corruptions": {}}
    arng = random.Random(ck.seed * 7 + 1)
    for kind in ("drop-inserted-move", "shift-reload-slot", "retarget-inserted-move", "stack-argument-through-wrong-register", "by-reference-copy-stored-elsewhere"):
        src_blocks = sa_blocks if kind == "stack-argument-through-wrong-register" else byref_blocks if kind == "by-reference-copy-stored-elsewhere" else audit_blocks
        texts = [t for t in (corrupt_dump(b, kind, arng) for b in src_blocks) if t]
        _, cres, _ = run_model(model, "".join(texts), timeout=900, short=True) if texts else (0, {}, "")
        hist = {}
        for v in cres.values():
            hist[reason_of(v)] = hist.get(reason_of(v), 0) + 1
        audit["corruptions"][kind] = {"tried": len(texts), "still_accepted": hist.get("ok", 0), "refusal_reasons": {k: v for k, v in hist.items() if k != "ok"}}
        if texts and hist.get("ok", 0) * 2 > len(texts):
            ck.violation("C05/audit/" + kind, "the validator still accepts more than half of the dumps damaged by '%s' (%d of %d)" % (kind, hist.get("ok", 0), len(texts)),
                         {"broken": "sensitivity of RaIRModel.validate_full", "kind": kind}, no_input=True)
    ck.log("audit: %s; refusal histogram: %s" % (audit, refusal_hist))
    # coverage must not silently erode
    if stats["programs"] and stats["unsupported"] * 20 > stats["programs"]:
        ck.violation("C05/coverage", "more than 5%% of the generated programs are outside the modelled subset: %s" % unsupported_why,
                     {"broken": "C05 dumper coverage", "unsupported": unsupported_why}, no_input=True)
    for o in ck.proof_failures():
        ck.violation("C05/proof/" + o["name"], "theorem %s no longer checks (%s)" % (o["name"], getattr(ck, "coq_log", "")[-800:]),
                     {"broken": "theorem " + o["name"], "file": "coq/theories/Properties/Properties_C05.v"}, no_input=True)
    ck.log("stream: %s" % stats)
    return ck.finish(
        "translation_validation",
        {"programs": stats["validated_ok"] + a64["validated_ok"] + x32["validated_ok"] + skel["validated_ok"], "disagreements_checked": disagreements,
         "evaluations": stats["programs"] * inputs + a64["programs"] + x32["programs"], "distinct_nontrivial": nontrivial,
         "rule": "programs generated from VERIF_SEED (index mod 6 = pressure class: 1-6, 8-13, 13-17, 18-37, 40-99, 100-200 simultaneously live values; "
                 "straight-line, diamonds, loops, irreducible jumps; mul/div/shift-by-cl fixed registers, partial writes, same-register idioms, "
                 "register-or-memory operands); a program is non-trivial when the allocator inserted at least one instruction or replaced a register "
                 "operand by a frame slot; every program is validated by the extracted validator AND executed on %d inputs against the interpreter" % inputs,
         "samples": samples, "refusal_histogram": refusal_hist, "refusal_audit": audit, "stream": stats, "a64_stream": a64, "x86_32_stream": x32, "cfg_skeletons": skel, "unsupported": unsupported_why, "probes": probe_results, "generator_features": features, "alu_semantics_vs_host": alu, "inserted_moves_vs_host": moves,
         "level_detail": "translation validation: PROVED in Coq - an accepted (source, allocated) pair behaves alike for every input, every instruction semantics respecting the uses/defs and every initial register/stack content, and terminates alike; COMPARED per run - every generated program is allocated by the real allocator, validated by the extracted validator, and (x86-64) executed against a source-level interpreter; the programs are generated from VERIF_SEED plus the exhaustive list of CFG skeletons of up to 5 blocks (thorough tier: all of them)",
         "traces_validated_against_impl": stats["validated_ok"]},
        assumptions=["theorems are about the RaIR model; the dumper (harness/c05_harness.cpp) is trusted to print the node lists, to hand the raw facts of "
                     "InstAPI::query_rw_info + the virtual register size to the extracted classify/idiom_of (proved partial-write rule; idiom classes from a generated id table, their value semantics compared with the host CPU on every run), to strip "
                     "prolog/epilog (compared with emit_prolog/emit_epilog of the final frame) and to describe inserted instructions (a whitelist of move/load/save/swap forms; every x86 form of it is executed on the host CPU on each run and compared with the extracted tstep on whole registers and a stack window); which register holds the stack-argument address / the address of a by-reference temporary, and that the frame pointer is never defined, is decided by extracted proven functions (sa_step, reg_untouched), not by the dumper",
                     "instruction semantics are abstracted to uses/defs (their truth is C12's subject); flags are six pseudo registers",
                     "AArch64 (GP w/x and 128-bit vector registers, calls through a register with register and stack arguments) is validated but NOT executed (no AArch64 CPU/emulator on this host); x86-64 GP virtual registers of 1/2/4/8 bytes, calls of C helpers with register and stack arguments; 16-byte vector registers (SSE2 integer subset), AVX and AVX-512 functions with 32- and 64-byte vectors (32 vector registers), 64-bit mask registers and a re-aligned stack, annotated jump tables, calls of SysV and Windows-x64 callees; x86-32 (cdecl/fastcall; validated, not executed); or immediates as call arguments in this version (function arguments in registers and on the stack are covered)",
                     "generated programs never read a virtual register beyond its size and define every register on every path"],
        checker_cmd="coqc (Coq 8.16.1) -Q coq/theories Verif coq/theories/Properties/Properties_C05.v  [full .vo build of its dependencies]",
        trusted_base=["Coq 8.16.1 kernel incl. vm_compute (no native_compute)", "no axioms: every theorem 'Closed under the global context'",
                      "extraction (ExtrOcamlBasic only) + OCaml 4.13.1 + ml/zconv.ml + ml/c05_driver.ml (parser, opcode-key interning)",
                      "harness/c05_harness.cpp (generator, dumper, interpreter, JIT execution), tools/checks/c05.py"])

"""C19 — Constant pool returns aligned, stable, deduplicated offsets with exact contents.

S2 theorems  : coq/theories/Properties/Properties_C19.v (re-checked by coqc on every run) about the Gallina model
               coq/theories/ConstPool/ConstPoolModel.v of ConstPool::add/fill (gap-loop quirk, uint32 node offsets included)
S3 tie       : harness/c19_harness.cpp drives the REAL ConstPool::add/fill/size/alignment/min_item_size/reset and
               embed_const_pool (x86 Assembler, x86 Builder, a64 Assembler) / x86::Compiler::_new_const of /repo's working
               tree; the extracted model (coq/extract/Extract_ConstPool.v + ml/c19_driver.ml) consumes the same command
               stream; every returned offset / error / accessor / byte image must be identical
               + X: constants read back ON THE HOST (JitRuntime) through label+offset operands (Compiler global/local, Builder)
               + the extracted, proven-sound Coq judge (ConstPoolJudge.judge) applied to the implementation's transcripts
S4 search    : an independent python monitor (interval list + dedup map + byte comparison; knows nothing of gaps, trees
               or the model) judges the property on EVERY answer of the implementation; a violated history is reported
               with the shortest prefix of the sequence that exhibits it
"""
import itertools
import json
import random
from concurrent.futures import ThreadPoolExecutor

import os

import c19_params
import vlib

VALID = (1, 2, 4, 8, 16, 32, 64)
INVALID = [0, 3, 5, 6, 7, 9, 10, 12, 15, 17, 24, 31, 33, 48, 63, 65, 96, 127, 128, 255, 256, 1 << 16, (1 << 32) + 4, 1 << 63, (1 << 64) - 1]
TRIPLES = [(1, 2, 4), (4, 8, 16), (2, 8, 32), (1, 16, 64), (8, 16, 32), (4, 32, 64), (1, 4, 8), (2, 4, 16), (16, 32, 64), (1, 8, 64)]


# ------------------------------------------------------------------ generator
class SeqGen:
    """Builds one command sequence (list of lines); keeps its own record of what was added (only to derive new inputs)."""

    def __init__(self, rng, first="N"):
        self.rng = rng
        self.lines = [first]
        self.hist = []          # (size, data) of valid adds, in order
        self.counter = 0
        self.stats = {}

    def count(self, k):
        self.stats[k] = self.stats.get(k, 0) + 1

    def fresh(self, size):
        self.counter += 1
        c = self.counter
        # unique in its first bytes; the upper part repeats a fixed pattern so that halves of DIFFERENT fresh constants coincide
        b = bytes([(c & 0xFF), ((c >> 8) & 0xFF) | 0x80]) + bytes([0x11, 0x22, 0x33, 0x44, 0x55, 0x66] * 11)
        return b[:size]

    def add(self, size, data):
        self.lines.append("A %d %s" % (size, data.hex() if data else "-"))
        if size in VALID:
            self.hist.append((size, data))

    def add_invalid(self, size):
        self.lines += ["Q", "F"]
        n = min(size, 80)
        self.lines.append("A %d %s" % (size, bytes(self.rng.randrange(256) for _ in range(n)).hex() if n else "-"))
        self.lines += ["Q", "F"]
        self.count("invalid")

    def finish(self, embed=None, execute=None):
        self.lines += ["Q", "F"]
        if embed is not None:
            self.lines.append("E %d %d" % embed)
        if execute is not None:
            self.lines.append("X %d" % execute)
        self.lines.append("S")
        return self.lines


def gen_exhaustive(triple, length, kinds, rng):
    """All sequences of exactly `length` adds over the symbol set {kinds} x {3 sizes}. kinds: f=fresh value, r=repeat the first
    value of that size (fresh if none), s=aligned part of the most recent wider constant (fresh if none)."""
    syms = [(k, s) for s in triple for k in kinds]
    out = []
    seen = set()
    for word in itertools.product(syms, repeat=length):
        g = SeqGen(rng)
        for (k, s) in word:
            data = None
            if k == "r":
                data = next((d for (sz, d) in g.hist if sz == s), None)
            elif k == "s":
                w = next(((sz, d) for (sz, d) in reversed(g.hist) if sz > s), None)
                if w:
                    # alternate between leading and trailing part
                    parts = w[0] // s
                    i = (len(g.hist) * 7) % parts
                    data = w[1][i * s:(i + 1) * s]
            if data is None:
                data = g.fresh(s)
            g.add(s, data)
        key = tuple(g.lines)
        if key not in seen:      # "repeat"/"part" fall back to a fresh value when there is nothing to repeat: drop duplicates
            seen.add(key)
            out.append(g.finish(execute=(len(out) // 16) % 4 if len(out) % 16 == 0 else None))
    return out


def gen_boundary():
    """The case splits of the proofs, systematically: every pool size p = 0..64 (p distinct 1-byte constants, no gaps) x every
    size s of the next constant (all (p mod 64, s) cases of align_up_diff and of the if-chain of ConstPool_addGap), followed by
    two fresh constants of every size in descending order (gap re-use in every class, several gaps of one class, appends)."""
    out = []
    for p in range(0, 65):
        for s in (2, 4, 8, 16, 32, 64):
            g = SeqGen(None)
            for i in range(p):
                g.add(1, bytes([i + 1]))
            g.add(s, g.fresh(s))
            g.lines += ["Q", "F"]
            for rep in range(2):
                for z in (32, 16, 8, 4, 2, 1):
                    g.add(z, bytes([200 + rep * 8 + z.bit_length()]) if z == 1 else g.fresh(z))
            k = (p * 6 + s.bit_length())
            out.append(g.finish(embed=(k % 8, p % 7) if k % 3 == 0 else None, execute=k % 4 if k % 5 == 0 else None))
    return out


def gen_random(rng, max_len, idx):
    g = SeqGen(rng, first="R" if (idx % 3 == 1) else "N")
    alpha = [0x00, 0xFF, rng.randrange(256)][:rng.choice([1, 2, 3, 3])]
    atoms = [bytes(rng.choice(alpha) for _ in range(4)) for _ in range(rng.choice([1, 2, 3, 6]))]
    n = rng.randrange(1, max_len + 1)
    wts = rng.choice([[1, 1, 2, 3, 3, 2, 2], [4, 4, 2, 1, 1, 1, 1], [1, 1, 1, 1, 3, 4, 5], [2, 2, 2, 2, 2, 2, 2]])
    for _ in range(n):
        r = rng.random()
        if r < 0.05:
            g.add_invalid(rng.choice(INVALID) if rng.random() < 0.8 else rng.randrange(0, 66))
            continue
        size = rng.choices(VALID, weights=wts)[0]
        r = rng.random()
        data = None
        if r < 0.18:
            c = [d for (s, d) in g.hist if s == size]
            if c:
                data = rng.choice(c); g.count("repeat")
        elif r < 0.43:
            c = [(s, d) for (s, d) in g.hist if s > size]
            if c:
                s, d = rng.choice(c)
                i = rng.randrange(s // size)
                data = d[i * size:(i + 1) * size]; g.count("part-of-wider")
        elif r < 0.55:
            c = [d for (s, d) in g.hist if s < size]
            if c:
                data = b""
                while len(data) < size:
                    data += rng.choice(c)
                data = data[:size]; g.count("widened")
        elif r < 0.68:
            data = g.fresh(size); g.count("fresh")
        if data is None:
            if size >= 4:
                data = b"".join(rng.choice(atoms) for _ in range(size // 4))
            else:
                data = bytes(rng.choice(alpha) for _ in range(size))
            g.count("alphabet")
        g.add(size, data)
        r = rng.random()
        if r < 0.03:
            g.lines.append("Q")
        elif r < 0.06:
            g.lines += ["Q", "F"]
    return g.finish(embed=(idx % 8, rng.choice([0, 1, 2, 3, 5, 8, 13, 16, 31, 32, 33, 63, 64, 65, 100])) if idx % 2 == 0 else None,
                    execute=(idx // 3) % 4 if idx % 3 == 0 else None), g.stats


def gen_fixed():
    """Hand-written sequences aimed at the case splits of the proofs (gap reuse, several gaps of one class, the unit test)."""
    out = []

    def seq(items, embed=None, execute=None):
        g = SeqGen(None)
        for (s, d) in items:
            if s in VALID:
                g.add(s, d)
            else:
                g.lines += ["Q", "F", "A %d %s" % (s, d.hex() if d else "-"), "Q", "F"]
        return g.finish(embed, execute)
    z = bytes(64)
    # unit test of constpool.cpp: combined constants
    out.append(seq([(1, z[:1]), (2, z[:2]), (4, z[:4]), (4, z[:4]), (32, z[:32])], (0, 3)))
    # 1-byte then 8-byte: gaps 1,2,4 ; then fill them
    out.append(seq([(1, b"\x01"), (8, b"\x02" * 8), (1, b"\x03"), (2, b"\x04\x04"), (4, b"\x05" * 4), (1, b"\x06")], (1, 5)))
    # several gaps of the same class: the quirk pops more than one
    out.append(seq([(1, b"\x01"), (2, b"\x02\x02"), (1, b"\x03"), (2, b"\x04\x04"), (1, b"\x05"), (2, b"\x06\x06"), (1, b"\x07"), (1, b"\x08"), (1, b"\x09"), (1, b"\x0a")], (2, 1)))
    out.append(seq([(4, b"\x01" * 4), (64, b"\x02" * 64), (4, b"\x03" * 4), (64, b"\x04" * 64), (4, b"\x05" * 4), (64, b"\x06" * 64), (32, b"\x07" * 32), (16, b"\x08" * 16),
                    (4, b"\x09" * 4), (8, b"\x0a" * 8), (16, b"\x0b" * 16), (32, b"\x0c" * 32)], (3, 7)))
    # sharing: halves, quarters, equal halves
    w = bytes(range(64))
    out.append(seq([(64, w), (32, w[32:]), (16, w[48:]), (8, w[8:16]), (4, w[60:]), (2, w[0:2]), (1, w[:1]), (4, w[:4]), (64, w)], (0, 0)))
    out.append(seq([(4, w[:4]), (8, w[:8]), (4, w[4:8]), (4, w[:4]), (16, w[:16]), (8, w[:8]), (8, w[8:16])], (3, 0)))
    out.append(seq([(16, b"\xab" * 16), (8, b"\xab" * 8), (4, b"\xab" * 4), (2, b"\xab" * 2), (1, b"\xab")], (1, 0)))
    # invalid sizes on an empty and a non-empty pool
    out.append(seq([(0, b""), (3, b"abc"), (65, bytes(65)), (8, w[:8]), (0, b""), (12, w[:12]), (128, bytes(80)), ((1 << 64) - 1, b"x"), (8, w[:8])], (0, 9)))
    # empty pool through every emitter
    for m in range(8):
        out.append(seq([], (m, 6)))
    out.append(seq([(16, w[:16]), (8, w[8:16]), (2, w[:2]), (64, w), (1, w[5:6])], (6, 5)))
    out.append(seq([(16, w[:16]), (8, w[8:16]), (2, w[:2]), (64, w), (1, w[5:6])], (7, 9)))
    out.append(seq([(16, w[:16]), (8, w[8:16]), (2, w[:2]), (32, w[:32])], (5, 3)))
    # host execution: read every constant back through its label, all three emitters, empty and non-empty pools
    for m in range(4):
        out.append(seq([(1, b"\x01"), (8, w[8:16]), (1, b"\x03"), (2, w[2:4]), (4, w[4:8]), (64, w), (32, w[32:]), (4, w[60:]), (16, w[16:32]), (3, b"abc"), (1, b"\x01")], None, m))
        out.append(seq([], None, m))
    out.append(seq([(8, w[:8]), (4, w[4:8]), (1, b"\x77")], (4, 2)))
    out.append(seq([(64, w), (32, w[32:]), (4, w[60:])], (4, 0)))
    return out


# ------------------------------------------------------------------ independent monitor
class Monitor:
    """Judges the property on the implementation's answers. Independent of the model: an interval list of storage, a map
    (size, bytes) -> offset, and byte comparison of the images."""

    def __init__(self, report):
        self.report = report    # report(key, what)
        self.classes = {}       # how each successful add was served, judged from the answers alone
        self.reset()

    def cls(self, k):
        self.classes[k] = self.classes.get(k, 0) + 1

    def reset(self):
        self.stored = []        # (off, size, data) regions holding bytes (first constant that claimed fresh storage)
        self.dedup = {}
        self.adds = []          # (size, data, off)
        self.maxsize = 0
        self.q = None           # last accessor answer
        self.last_f = None
        self.snap = None        # (q, f) taken right before an invalid-size add
        self.pending_invalid = 0

    def on_add(self, size, data, ans):
        a = ans.split()
        if size not in VALID:
            if a[:3] != ["A", "err", "InvalidArgument"] or "WROTE-OFFSET" in a:
                self.report("C19/invalid-size-not-refused", "add(size=%d) answered %r" % (size, ans))
            self.pending_invalid = 2
            self.snap = (self.q, self.last_f)
            return
        if a[:2] != ["A", "ok"]:
            self.report("C19/valid-size-refused", "add(size=%d) answered %r" % (size, ans))
            return
        off = int(a[2])
        if off % size:
            self.report("C19/misaligned-offset", "add(size=%d) returned offset %d" % (size, off))
        key = (size, data)
        if key in self.dedup:
            self.cls("dedup-hit")
            if self.dedup[key] != off:
                self.report("C19/not-stable-or-not-deduplicated", "add(size=%d, %s) returned %d, the same constant got %d before" % (size, data.hex(), off, self.dedup[key]))
        else:
            over = [(o, s, b) for (o, s, b) in self.stored if o < off + size and off < o + s]
            if not over:
                hw = max([o + s for (o, s, _) in self.stored] or [0])
                self.cls("gap-reuse" if off + size <= hw else ("append-padded" if off > hw else "append"))
                self.stored.append((off, size, data))
            elif len(over) == 1 and over[0][0] <= off and off + size <= over[0][0] + over[0][1]:
                o, s, b = over[0]
                self.cls("part-of-wider")
                if b[off - o:off - o + size] != data:
                    self.report("C19/overlap", "add(size=%d, %s) was placed at %d inside the constant at %d (%s) whose bytes there differ" % (size, data.hex(), off, o, b.hex()))
            else:
                self.report("C19/overlap", "add(size=%d) was placed at %d, overlapping storage %s" % (size, off, [(o, s) for (o, s, _) in over]))
            self.dedup[key] = off
        self.adds.append((size, data, off))
        self.maxsize = max(self.maxsize, size)

    def on_q(self, ans):
        a = ans.split()
        size, align, mn = int(a[1]), int(a[2]), int(a[3])
        self.q = (size, align, mn)
        for (s, d, o) in self.adds:
            if o + s > size:
                self.report("C19/size-does-not-cover", "size()=%d but a constant of %d bytes lives at %d" % (size, s, o))
                break
        pay = sum(s for (_, s, _) in self.stored)
        if size > 2 * pay:
            self.report("C19/size-exceeds-twice-payload", "size()=%d but the constants own only %d bytes (C19_quirk_cost: size <= 2 * payload)" % (size, pay))
        bud = sum(2 * s - 1 for (s, _, _) in self.adds)
        if size > bud:
            self.report("C19/size-exceeds-growth-bound", "size()=%d but the answered adds allow at most %d bytes (C19_size_growth_bound: sum of 2*s-1)" % (size, bud))
        if align != self.maxsize:
            self.report("C19/alignment-not-max", "alignment()=%d, largest constant added has %d bytes" % (align, self.maxsize))
        if self.adds:
            if mn not in [s for (s, _, _) in self.adds] or any(mn > s for (_, s, _) in self.stored) or size % mn:
                self.report("C19/min-item-size", "min_item_size()=%d, size()=%d, stored sizes %s" % (mn, size, sorted(set(s for (_, s, _) in self.stored))))
        elif mn != 0 or size != 0:
            self.report("C19/empty-pool-not-empty", "no constant added but %r" % ans)
        self.after_invalid()

    def on_f(self, ans):
        a = ans.split()
        if "GUARD-BROKEN" in a:
            self.report("C19/fill-out-of-bounds", "fill() wrote outside [dst, dst+size())")
            a.remove("GUARD-BROKEN")
        img = bytes.fromhex(a[1]) if len(a) > 1 else b""
        self.last_f = img
        if self.q is not None and len(img) != self.q[0]:
            self.report("C19/fill-length", "image has %d bytes, size()=%d" % (len(img), self.q[0]))
        for (s, d, o) in self.adds:
            if img[o:o + s] != d:
                self.report("C19/fill-mismatch", "bytes at offset %d are %s, the constant added there is %s" % (o, img[o:o + s].hex(), d.hex()))
                break
        cov = bytearray(len(img))
        for (o, s, _) in self.stored:
            cov[o:o + s] = b"\x01" * len(cov[o:o + s])
        for i, b in enumerate(img):
            if not cov[i] and b:
                self.report("C19/gap-not-zero", "byte %d of the image is %#x but no constant covers it" % (i, b))
                break
        self.after_invalid()

    def after_invalid(self):
        if self.pending_invalid:
            self.pending_invalid -= 1
            if self.pending_invalid == 0 and self.snap is not None:
                if self.snap != (self.q, self.last_f):
                    self.report("C19/invalid-size-changed-state", "accessors/image differ before %r and after %r a refused add" % (self.snap[0], self.q))
                self.snap = None

    def on_e(self, cmd, ans):
        mode, pre = int(cmd.split()[1]), int(cmd.split()[2])
        left, _, right = ans.partition("|")
        a = left.split()
        img = bytes.fromhex(a[1]) if len(a) > 1 and a[1] != "UNBOUND" else b""
        kv = dict(x.split("=", 1) for x in right.split())
        lab, end, pad, aux = int(kv["lab"]), int(kv["end"]), int(kv["pad"]), kv["aux"]
        name = ["x86-assembler", "x86-builder", "a64-assembler", "x86-compiler", "x86-assembler-logged", "x86-compiler-local",
                "a64-builder", "a64-compiler"][mode]
        logged = None
        if ",log=" in aux:
            aux, _, logged = aux.partition(",log=")
        if aux not in ("ok", "ok,nopool") or (len(a) > 1 and a[1] == "UNBOUND"):
            self.report("C19/embed/%s/failed" % name, "embedding answered %r" % ans[-200:])
            return
        al = max(self.q[1], 1) if self.q else 1
        if mode == 5:
            pre = lab   # the pool follows a function body of unknown length: only the alignment of the label is judged
        if lab % al or not (pre <= lab < pre + al):   # padding bytes before the label are the emitter's (0xCC on x86), not the pool's
            self.report("C19/embed/%s/label-misaligned" % name, "prefix %d, alignment %d, pool label bound at %d" % (pre, al, lab))
        cov = bytearray(len(img))
        for (o, s_, _) in self.stored:
            cov[o:o + s_] = b"\x01" * len(cov[o:o + s_])
        for i, b in enumerate(img):
            if not cov[i] and b:
                self.report("C19/embed/%s/gap-not-zero" % name, "byte %d of the embedded pool is %#x but no constant covers it (the destination was not zero before)" % (i, b))
                break
        if self.last_f is not None and img != self.last_f:
            self.report("C19/embed/%s/image-differs" % name, "embedded bytes differ from fill(): %s vs %s" % (img.hex()[:200], self.last_f.hex()[:200]))
        if logged is not None and self.q is not None and self.q[0] > 0:
            item, _, hx = logged.partition(":")
            want = min(self.q[2], 8)
            if int(item) != want or hx != img.hex():
                self.report("C19/embed/%s/log-differs" % name, "logged data directives (item size %s, expected %d) denote %s, the image is %s" % (item, want, hx[:160], img.hex()[:160]))
        if end != lab + len(img):
            self.report("C19/embed/%s/length" % name, "label %d + image %d != section size %d" % (lab, len(img), end))
        for (s, d, o) in self.adds:
            if (lab + o) % s:
                self.report("C19/embed/%s/constant-misaligned" % name, "constant of %d bytes ends up at section offset %d" % (s, lab + o))
                break


    def on_x(self, cmd, ans):
        mode = int(cmd.split()[1])
        name = ["x86-compiler-global", "x86-compiler-local", "x86-builder", "x86-compiler-3-functions"][mode]
        a = ans.split()
        if a[1:2] == ["UNSUPPORTED"]:
            return
        if a[1:2] == ["ERROR"] or "GUARD-BROKEN" in a:
            self.report("C19/execute/%s/failed" % name, "generating/running the reader function answered %r" % ans[:100])
            return
        got = bytes.fromhex(a[1]) if len(a) > 1 else b""
        pos = 0
        for i, (s, d, o) in enumerate(self.adds):
            if got[pos:pos + s] != d:
                self.report("C19/execute/%s/constant-differs" % name, "the host read %s through the operand of successful add #%d (size %d, offset %d); the constant is %s" % (
                    got[pos:pos + s].hex(), i, s, o, d.hex()))
                break
            pos += s
        self.executed = getattr(self, "executed", 0) + len(self.adds)


def parse_add(line):
    t = line.split()
    size = int(t[1])
    data = bytes.fromhex(t[2]) if len(t) > 2 and t[2] != "-" else b""
    return size, data


def monitor_sequence(lines, answers):
    """Runs the monitor over one sequence; returns list of (key, what, index of the line where it was detected)."""
    found = []
    cur = [0]
    mon = Monitor(lambda key, what: found.append((key, what, cur[0])))
    for i, (c, a) in enumerate(zip(lines, answers)):
        cur[0] = i
        k = c[0]
        try:
            if k in "NR":
                mon.reset()
                if a.strip() != k:
                    found.append(("C19/protocol", "harness answered %r to %r" % (a, c), i))
            elif k == "A":
                size, data = parse_add(c)
                mon.on_add(size, data[:size] if size in VALID else data, a)
            elif k == "Q":
                mon.on_q(a)
            elif k == "F":
                mon.on_f(a)
            elif k == "E":
                mon.on_e(c, a)
            elif k == "X":
                mon.on_x(c, a)
        except (ValueError, IndexError, KeyError) as e:
            found.append(("C19/protocol", "unparsable answer %r to %r (%s)" % (a[:100], c[:100], e), i))
    if getattr(mon, "executed", 0):
        mon.classes["read-back-on-host"] = mon.executed
    return found, mon.classes


# ------------------------------------------------------------------ running
def run_stream(exe, lines, timeout):
    rc, out, err = vlib.sh([exe], inp="\n".join(lines) + "\n", timeout=timeout)
    ans = out.splitlines()
    return rc, ans, err


def run_chunks(exe, seqs, nshards, timeout):
    """seqs: list of line lists. Shards whole sequences over processes. Returns (answers, failures): answers[i] is the list of
    answer lines of sequence i, or None when it was not (completely) executed because its shard died or hung; failures is a
    list of (rc, stderr tail, index of the first sequence of the shard that was not completely answered)."""
    shards = [[] for _ in range(nshards)]
    for i, s in enumerate(seqs):
        shards[i % nshards].append(i)

    def work(idx):
        lines = []
        for i in idx:
            lines += seqs[i]
        rc, ans, err = run_stream(exe, lines, timeout)
        res = {}
        pos = 0
        culprit = None
        for i in idx:
            n = len(seqs[i])
            if culprit is None and pos + n <= len(ans):
                res[i] = ans[pos:pos + n]
            else:
                res[i] = None
                if culprit is None:
                    culprit = i
            pos += n
        if rc != 0 and culprit is None:
            culprit = idx[-1] if idx else None
        return rc, err, res, culprit
    out = {}
    failures = []
    with ThreadPoolExecutor(max_workers=nshards) as ex:
        for rc, err, res, culprit in ex.map(work, shards):
            out.update(res)
            if culprit is not None:
                failures.append((rc, err[-500:], culprit))
    return [out.get(i) for i in range(len(seqs))], failures


def shrink(impl, lines, key):
    """Greedy minimisation of a violating history: drop adds one by one while the monitor still reports `key`."""
    adds = [l for l in lines if l[0] == "A"]
    tail = [l for l in lines if l[0] == "E"][-1:] if "/embed/" in key else ([l for l in lines if l[0] == "X"][-1:] if "/execute/" in key else [])

    def build(adds):
        out = [lines[0]]
        for a in adds:
            out += [a] if int(a.split()[1]) in VALID else ["Q", "F", a, "Q", "F"]
        return out + ["Q", "F"] + tail

    def fails(adds):
        ls = build(adds)
        rc, ans, _ = run_stream(impl, ls, 20)
        if rc != 0 or len(ans) != len(ls):
            return key == "C19/crash"
        return any(k == key for (k, _, _) in monitor_sequence(ls, ans)[0])
    if key == "C19/hang" or not fails(adds):
        return lines
    i = len(adds) - 1
    while i >= 0:
        cand = adds[:i] + adds[i + 1:]
        if fails(cand):
            adds = cand
        i -= 1
    return build(adds)


def canon(impl_line, cmd=""):
    left, _, right = impl_line.partition(" | ")
    left = left.rstrip()
    if cmd[:1] == "E" and cmd.split()[1] != "5":
        # the model also predicts where the label is bound and how long the section becomes (embed_layout, C19_embed_layout)
        kv = dict(x.split("=", 1) for x in right.split() if "=" in x)
        hx = left.split()[1] if len(left.split()) > 1 else ""
        base = "E %s %s %s" % (hx, kv.get("lab"), kv.get("end"))
        if cmd.split()[1] == "4" and ",log=" in kv.get("aux", ""):
            item, _, loghex = kv["aux"].partition(",log=")[2].partition(":")
            loghex = loghex.split(":")[0]
            w = int(item)
            base += " L%dx%d" % (w, (len(loghex) // 2) // w if w else 0)
        return base
    return left


def run(ck):
    ck.log("tier=%s seed=%d repo=%s" % (ck.tier, ck.seed, vlib.REPO))
    impl = ck.build_harness("c19", ["c19_harness.cpp"])
    model = ck.ocaml_model("Extract_ConstPool.v", ["zconv.ml", "c19_driver.ml"], name="c19")

    if ck.replay:
        rp = json.load(open(ck.replay))
        lines = rp["replay"].get("commands") or []
        _, ai, _ = run_stream(impl, lines, 120)
        _, am, _ = run_stream(model, lines, 120)
        for c, x, y in zip(lines, ai, am):
            print("%-40s impl: %-60s model: %s" % (c[:40], x[:60], y[:60]))
        for (key, what, i) in monitor_sequence(lines, ai)[0]:
            print("MONITOR %s at line %d: %s" % (key, i, what))
        return 0

    # the stages are independent: theorems (make + coqc), sanitizer build and the streams run concurrently
    bg = ThreadPoolExecutor(max_workers=4)
    def coq_all():
        ck.coq_properties()
        # translator tie: the structural constants are re-extracted from the source of VERIF_REPO and the generated
        # coq/gen/C19_Params.v (src_params = model_params) is re-checked by coqc (own regen: only this file is compiled)
        par, problems = c19_params.extract(vlib.REPO)
        text = c19_params.coq_text(par)
        committed = os.path.join(vlib.COQ, "gen", "C19_Params.v")
        same = os.path.exists(committed) and open(committed).read() == text
        wdir = os.path.join(ck.work, "gen")
        os.makedirs(wdir, exist_ok=True)
        open(os.path.join(wdir, "C19_Params.v"), "w").write(text)
        rc, out, err = vlib.sh(["coqc", "-Q", os.path.join(vlib.COQ, "theories"), "Verif", "-Q", wdir, "VerifGen", "-w", "-all",
                                os.path.join(wdir, "C19_Params.v")], cwd=wdir, timeout=300)
        ok = rc == 0 and "Closed under the global context" in out
        ck.obligations.append({"name": "C19_params_ok", "ok": ok, "assumptions": [] if ok else None})
        return {"same_as_committed_snapshot": same, "ok": ok, "problems": problems + c19_params.differences(par), "log": (out + err)[-600:]}
    f_coq = bg.submit(coq_all)
    f_asan = bg.submit(ck.build_harness, "c19", ["c19_harness.cpp"], "asan")

    rng = random.Random(ck.seed * 7919 + 19)
    quick = ck.tier == "quick"
    seqs = gen_fixed() + gen_boundary()
    n_fixed = len(seqs)
    dist = {"fixed_sequences": n_fixed, "of_which_boundary_sequences_pool_size_0_to_64_times_6_sizes": 65 * 6}
    # bounded-exhaustive
    rot = ck.seed % len(TRIPLES)
    triples = TRIPLES[rot:] + TRIPLES[:rot]
    ex_plan = [(triples[0], 6, "fr"), (triples[1], 5, "frs"), (triples[2], 5, "frs"), (triples[3], 5, "fr")] if quick else \
              [(t, 6, "fr") for t in triples[:4]] + [(t, 5, "frs") for t in triples] + [(t, 6, "frs") for t in triples[:2]]
    dist["exhaustive"] = []
    for (t, n, kinds) in ex_plan:
        s = gen_exhaustive(t, n, kinds, rng)
        dist["exhaustive"].append({"sizes": list(t), "adds": n, "kinds": kinds, "sequences": len(s)})
        seqs += s
    n_ex = len(seqs) - n_fixed
    # random
    n_rand = 4000 if quick else 60000
    kinds = {}
    for i in range(n_rand):
        ln = rng.choice([6, 12, 25, 50, 100, 200]) if quick else rng.choice([6, 12, 25, 50, 100, 200, 200])
        s, st = gen_random(rng, ln, i)
        for k, v in st.items():
            kinds[k] = kinds.get(k, 0) + v
        seqs.append(s)
    dist["random_sequences"] = n_rand
    dist["random_value_kinds"] = kinds
    total_lines = sum(len(s) for s in seqs)
    n_adds = sum(1 for s in seqs for l in s if l[0] == "A")
    sizes_hist = {}
    for s in seqs:
        for l in s:
            if l[0] == "A":
                z = l.split()[1]
                z = z if int(z) in VALID else "invalid"
                sizes_hist[z] = sizes_hist.get(z, 0) + 1
    dist["adds_by_size"] = sizes_hist
    ck.log("sequences: %d (%d fixed, %d exhaustive, %d random), %d commands, %d adds" % (len(seqs), n_fixed, n_ex, n_rand, total_lines, n_adds))

    tmo = 150 if quick else 2400    # generous: the machine may be loaded; a timeout is reported as a hang
    step = 8 if quick else 4
    sub = list(range(n_fixed)) + list(range(n_fixed, len(seqs), step))

    def run_asan():
        asan_exe = f_asan.result()
        return asan_exe, run_chunks(asan_exe, [seqs[j] for j in sub], max(2, vlib.NPROC // 2), tmo)
    f_san = bg.submit(run_asan)
    with ThreadPoolExecutor(max_workers=2) as ex:
        fi = ex.submit(run_chunks, impl, seqs, max(2, vlib.NPROC // 2), tmo)
        fm = ex.submit(run_chunks, model, seqs, max(2, vlib.NPROC // 2), tmo)
        ri, fail_i = fi.result()
        rm, fail_m = fm.result()
    ck.log("streams done")
    if fail_m:
        ck.violation("C19/model-driver-crash", "model driver failed: %s" % (fail_m[:1],), {"detail": str(fail_m[:1]), "broken": "ml/c19_driver.ml"}, no_input=True)
    # a shard of the implementation died or hung: the first sequence it did not answer completely is re-run alone
    for (rc, err, ci) in fail_i[:3]:
        lines = seqs[ci]
        rc2, ans2, err2 = run_stream(impl, lines, 20)
        if rc2 != 0 or len(ans2) != len(lines):
            kind = "hang" if rc2 == 124 else "crash"
            ck.violation("C19/" + kind, "the implementation %s (rc=%s) on a history of %d adds: %s" % (
                "does not terminate" if kind == "hang" else "crashed", rc2, sum(1 for l in lines[:len(ans2) + 1] if l[0] == "A"), err2[-300:]),
                {"commands": lines[:len(ans2) + 1], "stderr": err2[-500:]})
        else:
            ri[ci] = ans2
            ck.violation("C19/crash-not-reproducible-alone", "a harness process failed (rc=%s: %s) but sequence %d alone runs" % (rc, err[-200:], ci),
                         {"commands": lines, "broken": "harness stream (state carried over R/N between sequences?)"}, no_input=True)
    # the extracted Coq judge (C19_judge_sound / C19_judge_accepts_model) applied to the ANSWERS OF THE IMPLEMENTATION
    jseqs, jidx = [], []
    for si, (lines, ai) in enumerate(zip(seqs, ri)):
        if ai is None or (not quick and si >= n_fixed + n_ex and si % 4):
            continue
        if quick and si >= n_fixed + n_ex and si % 4 and sum(1 for l in lines if l[0] == "A") > 60:
            continue    # the judge is quadratic in the history length: in the quick tier long random histories are sampled 1 in 4
        # one transcript per (Q, F) snapshot: the last one and up to two earlier ones (stability: earlier constants must still read back)
        snaps = [i for i in range(1, len(lines)) if lines[i] == "F" and lines[i - 1] == "Q"]
        snaps = snaps[-1:] + snaps[:-1][:2]
        try:
            for sn in snaps:
                q = ai[sn - 1].split(); f = ai[sn].split()
                jl = ["j"]
                for c, a in zip(lines[:sn], ai[:sn]):
                    if c[0] == "A":
                        t = c.split(); r = a.split()
                        hx = t[2] if len(t) > 2 else "-"
                        if int(t[1]) in VALID:
                            hx = hx[:2 * int(t[1])]
                        jl.append("a %s %s %s" % (t[1], hx, "ok " + r[2] if r[1] == "ok" else "err"))
                jl.append("J %s %s %s %s" % (f[1] if len(f) > 1 and f[1] != "GUARD-BROKEN" else "-", q[1], q[2], q[3]))
                jseqs.append(jl); jidx.append(si)
        except (IndexError, ValueError):
            continue
    f_judge = bg.submit(run_chunks, model, jseqs, max(2, vlib.NPROC // 2), tmo)     # judged while the monitor runs below

    disagreements = 0
    served = {}
    quirk = {"gaps_lost_by_pop_several_quirk": 0, "histories_where_the_quirk_fired": 0, "adds_that_reused_a_gap_per_model": 0}
    n_shrunk = [0]
    nontrivial = set()
    judged = 0
    first_corr = None
    corr_seqs = []      # histories on which model and implementation disagree although the monitor sees no violation yet
    for si, (lines, ai, am) in enumerate(zip(seqs, ri, rm)):
        if ai is None:
            continue
        found, classes = monitor_sequence(lines, ai)
        for k, v in classes.items():
            served[k] = served.get(k, 0) + v
        judged += len(lines)
        seen_keys = set()
        for (key, what, i) in found:
            if key in seen_keys:
                continue
            seen_keys.add(key)
            if ck.match_finding(key) is None and not any(v["key"] == key for v in ck.violations) and n_shrunk[0] < 8:
                n_shrunk[0] += 1
                small = shrink(impl, lines[:i + 1], key)
            else:
                small = lines[:i + 1]
            ck.violation(key, what + " [after %d adds; minimised history has %d adds]" % (sum(1 for l in lines[:i + 1] if l[0] == "A"), sum(1 for l in small if l[0] == "A")),
                         {"commands": small, "impl": ai[:i + 1][-6:], "model": (am or [])[:i + 1][-6:], "found_in_history_of_commands": i + 1})
        # non-trivial: the sequence re-used a gap, shared a sub-constant or hit an existing constant (judged on the answers)
        if any(classes.get(k) for k in ("gap-reuse", "part-of-wider", "dedup-hit")):
            nontrivial.add(tuple(l for l in lines if l[0] == "A"))
        if am is None:
            continue
        for i, (x, y) in enumerate(zip(ai, am)):
            if x.startswith("X UNSUPPORTED"):
                continue
            if x.strip() == "S" and y.startswith("S "):
                t = y.split()
                quirk["gaps_lost_by_pop_several_quirk"] += int(t[1])
                quirk["histories_where_the_quirk_fired"] += 1 if int(t[1]) else 0
                quirk["adds_that_reused_a_gap_per_model"] += int(t[2])
                continue
            if canon(x, lines[i]).split() != y.split():
                disagreements += 1
                if not found and first_corr is None:
                    first_corr = (lines[:i + 1], x, y)
                if not found and len(corr_seqs) < 40:
                    corr_seqs.append(lines)
                break
    rj, fail_j = f_judge.result()
    n_judged = 0
    for jl, aj, si in zip(jseqs, rj, jidx):
        if aj is None:
            continue
        n_judged += 1
        if aj[-1].strip() != "J 1":
            ck.violation("C19/coq-judge-rejects", "the proven judge (ConstPoolJudge.judge, C19_judge_sound) rejects the transcript of the implementation "
                         "for a history of %d adds (answer %r)" % (len(jl) - 2, aj[-1]), {"commands": seqs[si], "impl": ri[si][-4:]})
    if any(rc != 124 for (rc, _, _) in fail_j):
        ck.violation("C19/model-driver-crash", "judge stream failed: %s" % (fail_j[:1],), {"detail": str(fail_j[:1]), "broken": "ml/c19_driver.ml (judge)"}, no_input=True)
    elif fail_j:
        # the judge is a terminating Coq function (quadratic in the history length): a timeout means a loaded machine, not a verdict
        ck.notes.append("%d judge shards hit the %ds time limit; their remaining transcripts were not judged" % (len(fail_j), tmo))
    ck.log("coq judge: %d transcripts of the implementation judged" % n_judged)

    # the same streams under ASan/UBSan (memory safety of add/fill/embed on the generated histories; exploration, not an obligation)
    asan, (ra, fail_a) = f_san.result()
    if fail_i:
        sub, ra, fail_a = [], [], []    # the plain build already died or hung (reported above)
    ck.log("sanitizer streams done (%d sequences)" % len(sub))
    for (rc, err, ci) in fail_a[:4]:
        lines = seqs[sub[ci]]
        rc2, ans2, err2 = run_stream(asan, lines, 40)
        rep = [l for l in err2.splitlines() if "ERROR" in l or "runtime error" in l][:2]
        ck.violation("C19/sanitizer", "ASan/UBSan build of the implementation failed (rc=%s) on a history of %d adds: %s" % (rc2, sum(1 for l in lines if l[0] == "A"), rep or err2[-300:]),
                     {"commands": lines[:len(ans2) + 1], "stderr": err2[-1500:]}, no_input=(rc2 == 0))
    san_diff = sum(1 for j, a in zip(sub, ra) if a is not None and ri[j] is not None and a != ri[j])
    if san_diff:
        j = next(j for j, a in zip(sub, ra) if a is not None and ri[j] is not None and a != ri[j])
        ck.violation("C19/sanitizer-build-differs", "the sanitizer build answers differently from the plain build on %d sequences (uninitialised memory?)" % san_diff,
                     {"commands": seqs[j]})
    skipped = sum(1 for x in ri if x is None)
    if skipped:
        ck.notes.append("%d sequences were not executed by the implementation because their harness process died or hung" % skipped)

    tr = f_coq.result()
    bg.shutdown()
    if not tr["ok"]:
        ck.violation("C19/translator/source-parameters", "the structural constants extracted from constpool.{h,cpp} are not the ones the model is built from "
                     "(coq/gen/C19_Params.v: src_params = model_params fails): %s" % ("; ".join(tr["problems"]) or tr["log"]),
                     {"broken": "translator tie C19_params_ok: " + "; ".join(tr["problems"]), "log": tr["log"]}, no_input=True)
    ck.log("theorems: %d, failed: %d" % (len(ck.obligations), len(ck.proof_failures())))
    # sharper search: a changed placement policy may be harmless so far and bite only later. Every disagreeing history (up to 40) is
    # EXTENDED with probing adds (fresh constants of every size, twice; parts of every earlier wider constant; every earlier constant
    # again) and judged again by the monitor on the implementation's answers.
    if first_corr is not None and not any(not v["no_input"] for v in ck.violations):
        ext_found = 0
        for lines in corr_seqs:
            adds = [l for l in lines if l[0] == "A" and int(l.split()[1]) in VALID]
            probe = []
            for rep in range(2):
                for z in (64, 32, 16, 8, 4, 2, 1):
                    probe.append("A %d %s" % (z, bytes([0xB0 + rep * 8 + z.bit_length()] * z).hex()))
            for a in adds[-12:]:
                t = a.split(); z = int(t[1]); d = bytes.fromhex(t[2])
                for part in (z // 2, z // 4):
                    if part >= 1:
                        probe.append("A %d %s" % (part, d[z - part:z].hex()))
                probe.append(a)
            ext = [l for l in lines if l[0] in "NR" or (l[0] == "A" and int(l.split()[1]) in VALID)] + probe + ["Q", "F", "E 0 3", "X 0"]
            rc, ans, _ = run_stream(impl, ext, 30)
            if rc != 0 or len(ans) != len(ext):
                ck.violation("C19/crash", "the implementation crashed or hung (rc=%s) on an extended disagreeing history" % rc, {"commands": ext[:len(ans) + 1]})
                ext_found += 1
                continue
            for (key, what, i) in monitor_sequence(ext, ans)[0][:2]:
                ext_found += 1
                small = shrink(impl, ext[:i + 1], key) if n_shrunk[0] < 8 else ext[:i + 1]
                n_shrunk[0] += 1
                ck.violation(key, what + " [found by extending a history on which model and implementation disagree; minimised history has %d adds]"
                             % sum(1 for l in small if l[0] == "A"), {"commands": small, "found_by": "extension search"})
        ck.notes.append("extension search over %d disagreeing histories found %d violations" % (len(corr_seqs), ext_found))
    if first_corr is not None and not any(not v["no_input"] for v in ck.violations):
        lines, x, y = first_corr
        ck.violation("C19/correspondence", "implementation and proven model disagree after %r: impl %r, model %r; the independent monitor found no violated "
                     "history among %d disagreeing sequences" % (lines[-1][:80], x[:120], y[:120], disagreements),
                     {"commands": lines, "impl": x, "model": y, "broken": "correspondence of ConstPoolModel.v (coq/theories/ConstPool) with /repo"}, no_input=True)
    for o in ck.proof_failures():
        if o["name"] == "C19_params_ok":
            continue
        ck.violation("C19/proof/" + o["name"], "theorem %s no longer checks (%s)" % (o["name"], getattr(ck, "coq_log", "")[-800:]),
                     {"broken": "theorem " + o["name"], "file": "coq/theories/Properties/Properties_C19.v"}, no_input=True)

    k = n_fixed + 3
    samples = [{"commands": seqs[j][:12], "impl": (ri[j] or [])[:12], "model": (rm[j] or [])[:12]} for j in (1, 2, k, len(seqs) - 1) if j < len(seqs)]
    return ck.finish(
        "proof",
        {"evaluations": n_adds, "distinct_nontrivial": len(nontrivial),
         "rule": "command sequences generated from VERIF_SEED: hand-written corner sequences, ALL sequences of n adds over 3 sizes x {fresh, repeat, part-of-wider} "
                 "(bounded exhaustive), random sequences of <= 200 adds over a small value alphabet (repeats, parts of wider constants, widened, invalid sizes); "
                 "a sequence counts as non-trivial when, judged from the implementation's answers alone, at least one add re-used a gap, was served from a part of a "
                 "wider constant or hit an identical earlier constant (distinct add-lists counted)",
         "proved_vs_compared": {
             "proved_in_coq_for_all_histories": "every theorem listed under `theorems` (universally quantified over histories / states; bounded statements: none; "
                                                "vm_compute is used only in the witness/example theorems)",
             "compared_on_every_generated_history": "offset/error of every add, accessors and image at every Q/F, label offset + section size + image at every E, "
                                                    "bytes read on the host at every X: implementation vs extracted model, all %d histories" % len(seqs),
             "judged_on_the_implementation_answers": "python monitor: all %d histories; extracted Coq judge: %d transcripts (quick: random histories longer than 60 adds "
                                                     "1 in 4; thorough: random histories 1 in 4); ASan/UBSan: %d histories (all fixed+boundary ones, every %dth other)"
                                                     % (len(seqs), n_judged, len(sub), step),
             "re_extracted_from_source": "structural constants of constpool.{h,cpp} (tools/c19_params.py -> coq/gen/C19_Params.v, lemma C19_params_ok re-checked by coqc)"},
         "samples": samples, "sequences": len(seqs), "commands": total_lines, "answers_judged_by_monitor": judged,
         "model_vs_impl_disagreeing_sequences": disagreements, "adds_served_as": served, "model_path_counters": quirk, "sequences_also_run_under_asan_ubsan": len(sub), "translator": {k: tr[k] for k in ("same_as_committed_snapshot", "ok", "problems")}, "transcripts_judged_by_extracted_coq_judge": n_judged, "input_distribution": dist},
        assumptions=["the C++ harness calls the real ConstPool::add/fill/reset/size/alignment/min_item_size and embed_const_pool/_new_const of /repo's working tree",
                     "theorems are about the Gallina model; the model is tied to the code by the differential run of this check (exact offsets, errors, accessors, byte images)",
                     "the per-size red-black tree is modelled as a key-sorted list (set semantics; the tree itself is C18's subject); allocation never fails (C15's subject)",
                     "theorems carry the guard `pool size <= 2^32` (Node::_offset is a uint32_t); larger pools are outside the statement"],
        checker_cmd="coqc (Coq 8.16.1) -Q coq/theories Verif coq/theories/Properties/Properties_C19.v  [full .vo build of its dependencies]",
        trusted_base=["Coq 8.16.1 kernel incl. vm_compute (no native_compute)", "no axioms: every theorem 'Closed under the global context'",
                      "extraction (ExtrOcamlBasic only) + OCaml 4.13.1 + zarith glue in ml/zconv.ml", "harness/c19_harness.cpp, ml/c19_driver.ml, tools/checks/c19.py (generator, differ, python monitor)"])

"""C20 — Formatter and logger text faithfully denotes the instruction and operands.

S2 theorems  : coq/theories/Properties/Properties_C20.v (numbers, hex column, lexer, register names, operand round trip ...)
S3 tie (T)   : harness command D dumps the raw x86 reg_format_info tables of /repo's working tree -> coq/gen/X86RegTables.v,
               theorem C20_name_tables_match re-checked by coqc (tools/c20_gen.py)
S3 tie (C)   : harness/c20_harness.cpp (real Formatter::format_operand / format_instruction / Assembler + StringLogger) vs the
               extracted model (coq/extract/Extract_Fmt.v + ml/c20_driver.ml) on the same command stream: texts must be equal
S4 search    : the PROVEN parsers (extracted parse_operand / parse_inst / parse_hexcol) are applied to AsmJit's own text for
               every case: a text that does not parse back to the given operands / emitted bytes is the violating input.
               A second reader written independently in python (tools/c20_gen.py: py_parse_operand) judges the same texts.
"""
import json
import os
import random
import re
import vlib
from concurrent.futures import ThreadPoolExecutor

import c20_gen as G


def run_exe(exe, lines, shards=16, timeout=900, args=()):
    """Feed `lines` to `exe` (sharded); returns list of answers or ("ERR", detail)."""
    if not lines:
        return []
    shards = max(1, min(shards, len(lines) // 200 + 1))
    chunks = [lines[i::shards] for i in range(shards)]

    def one(chunk):
        rc, out, err = vlib.sh([exe] + list(args), inp="\n".join(chunk) + "\n", timeout=timeout)
        ans = out.split("\n")[:-1]
        if rc != 0 or len(ans) != len(chunk):
            return ("ERR", rc, len(ans), len(chunk), (out[-300:] + err[-300:]))
        return ans
    with ThreadPoolExecutor(max_workers=shards) as ex:
        rs = list(ex.map(one, chunks))
    out = [None] * len(lines)
    for i, r in enumerate(rs):
        if isinstance(r, tuple):
            return r
        out[i::shards] = r
    return out


def run_session(exe, lines, timeout=900):
    """E commands share an assembler session: one process, in order."""
    rc, out, err = vlib.sh([exe], inp="\n".join(lines) + "\n", timeout=timeout)
    ans = out.split("\n")[:-1]
    if rc != 0 or len(ans) != len(lines):
        return ("ERR", rc, len(ans), len(lines), (out[-300:] + err[-300:]))
    return ans


def own_regen(ck, files):
    """Translator tie for the three gen files C20 owns (vlib.coq_regen recompiles every property's gen files: minutes). None if all
    texts equal the committed snapshots, else (gen_dir, failed, log) after compiling ONLY these files in a scratch VerifGen directory."""
    import os
    import shutil
    gen = os.path.join(vlib.COQ, "gen")
    if all(os.path.exists(os.path.join(gen, n)) and open(os.path.join(gen, n)).read() == txt for n, txt in files.items()):
        return None
    wgen = os.path.join(ck.work, "gen")
    shutil.rmtree(wgen, ignore_errors=True)
    os.makedirs(wgen)
    order = [n for n in ("X86RegTables.v", "InstNames.v", "InstNameTables.v", "FmtSourceTables.v", "X86ExplainTables.v", "FmtEnumTables.v") if n in files]
    for n in order:
        open(os.path.join(wgen, n), "w").write(files[n])
    args = ["-Q", os.path.join(vlib.COQ, "theories"), "Verif", "-Q", wgen, "VerifGen", "-w", "-all"]
    failed, log = [], ""
    for n in order:
        rc, out, err = vlib.sh(["coqc"] + args + [os.path.join(wgen, n)], cwd=wgen, timeout=600)
        if rc != 0:
            failed.append(n)
            log += (out + err)[-2000:]
    return wgen, failed, log


def run(ck):
    rng = random.Random(ck.seed)
    impl = ck.build_harness("c20", ["c20_harness.cpp"])

    # ---------------------------------------------------------------- translator tie (T): raw register-name tables
    rc, out, err = vlib.sh([impl], inp="D\nT\n", timeout=60)
    dl = out.split("\n")
    gen_dir = None
    failed = []
    enum_tables_failed = False
    if rc != 0 or len(dl) < 2 or not dl[0].startswith("D "):
        ck.violation("C20/harness-crash", "harness failed on D/T: rc=%s %s" % (rc, (out + err)[-400:]), {"commands": ["D", "T"], "broken": "harness"}, no_input=True)
        tables = None
    else:
        tables = G.parse_dump(dl[0])
        dn = vlib.sh([impl], inp="DN 2\nDN 6\n", timeout=60)[1].split("\n")
        files = {"InstNameTables.v": G.gen_name_tables_v(dn[0], dn[1], G.load_x86_aliases(vlib.REPO)),
                 "X86RegTables.v": G.gen_tables_v(tables),
                 "InstNames.v": G.gen_names_v(G.load_inst_names(vlib.REPO), G.load_a64_inst_names(vlib.REPO))}
        try:
            files["X86ExplainTables.v"] = G.gen_explain_tables_v(vlib.REPO)
        except Exception as e:
            ck.violation("C20/explain-tables-unreadable", "the immediate-explanation tables of x86formatter.cpp could not be read from the source text: %s" % e,
                         {"broken": "translator gen_explain_tables_v"}, no_input=True)
        try:
            ed = vlib.sh([impl], inp="DE\nDF 2\nDF 6\nDT\n", timeout=60)[1].split("\n")
            files["FmtEnumTables.v"] = G.gen_enum_tables_v(vlib.REPO, *[l.split(" ", 1)[1].split(",") for l in ed[:4]])
        except Exception as e:
            ck.violation("C20/enum-tables-unreadable", "the enums of globals.h / cpuinfo.h / type.h or the dumps DE/DF/DT could not be read: %s" % e,
                         {"broken": "translator gen_enum_tables_v"}, no_input=True)
        ds = vlib.sh([impl], inp="DS\n", timeout=60)[1].split("\n")[0]
        try:
            ds2 = vlib.sh([impl], inp="DS2\n", timeout=60)[1].split("\n")[0]
            files["FmtSourceTables.v"] = G.gen_source_tables_v(ds, ds2)
        except Exception as e:
            ck.violation("C20/harness-crash", "harness failed on DS: %s" % e, {"commands": ["DS"], "broken": "harness"}, no_input=True)
        r = own_regen(ck, files)
        ck.log("coq/gen snapshot: %s" % ("current for this tree (fast path)" if r is None else "DIFFERS from this tree: regenerated and re-checked (slow path)"))
        if r is not None:
            gen_dir, failed, log = r
            ck.notes.append("coq/gen regenerated from the working tree (differs from the committed snapshot); failed: %s" % failed)
            if "InstNameTables.v" in failed:
                # search with an independent python decoder: which id prints a name that is not the enum's
                found = False
                for arch, dump, names in ((2, dn[0], G.load_inst_names(vlib.REPO)), (6, dn[1], G.load_a64_inst_names(vlib.REPO))):
                    idx, tab = G.parse_name_dump(dump)
                    for i in sorted(names):
                        got = G.py_decode_name(tab, idx[i])
                        if got != names[i]:
                            found = True
                            ck.violation("C20/inst-name-table/arch%d/id%d" % (arch, i), "the instdb name table prints instruction id %d as %r; the InstId enum "
                                         "calls it %r" % (i, got, names[i]), {"command": "X %d 0 %d %s 0 N 0" % (arch, i, names[i]), "impl": got})
                if not found:
                    ck.violation("C20/inst-name-tables", "regenerated coq/gen/InstNameTables.v no longer satisfies its lemmas (alias formatting?): %s" % log[-500:],
                                 {"broken": "lemmas of coq/gen/InstNameTables.v"}, no_input=True)
            enum_tables_failed = "FmtEnumTables.v" in failed       # the python oracles on DE / DF / DT below name the entry; if they find none it is reported there
            if "X86ExplainTables.v" in failed:
                # the explanation differential below names the concrete lines; here: which table differs from the model's (python comparison with the committed snapshot)
                try:
                    old_txt = open(os.path.join(vlib.COQ, "gen", "X86ExplainTables.v")).read().split("\n")
                    new_txt = files["X86ExplainTables.v"].split("\n")
                    diff = [(a_, b_) for a_, b_ in zip(old_txt, new_txt) if a_ != b_ and a_.startswith("Definition")]
                except Exception:
                    diff = []
                for a_, b_ in diff[:4]:
                    nm = a_.split()[1]
                    ck.violation("C20/explain-table/%s" % nm, "the table %s of explain_const in x86formatter.cpp is now %s; the model (and the snapshot) has %s"
                                 % (nm[4:], b_.split(":=", 1)[1].strip()[:300], a_.split(":=", 1)[1].strip()[:300]),
                                 {"command": "X 2 16 <instruction using %s>" % nm[4:], "impl": b_, "model": a_})
                if not diff:
                    ck.violation("C20/explain-tables", "regenerated coq/gen/X86ExplainTables.v no longer satisfies explain_tables_ok: %s" % log[-500:],
                                 {"broken": "lemma explain_tables_ok (coq/gen/X86ExplainTables.v)"}, no_input=True)
            if "FmtSourceTables.v" in failed:
                bad = G.find_bad_source_entries(ds)
                # the size-word / vector-register tables of DS2: compare with python's own statement (SDM size words; Arm ARM arrangement specifiers)
                nv0_ = len(ck.violations)
                try:
                    sizes_, v64_, v128_ = G.parse_ds2(ds2)
                    py_sizes = {1: "byte ptr ", 2: "word ptr ", 4: "dword ptr ", 6: "fword ptr ", 8: "qword ptr ", 10: "tbyte ptr ", 16: "xmmword ptr ", 32: "ymmword ptr ", 64: "zmmword ptr "}
                    for k_, g_ in enumerate(sizes_):
                        if g_ != py_sizes.get(k_, ""):
                            ck.violation("C20/source-table/size-word/%d" % k_, "an x86 memory operand of size %d prints %r in front of '['; expected %r" % (k_, g_, py_sizes.get(k_, "")),
                                         {"command": "O 2 0 M %d 0 0 2 6 0 0 0 0 0 0 0" % k_, "impl": g_})
                    for t_, got_, cnt in ((10, v64_, {1: 8, 2: 4, 3: 2, 4: 1, 5: 2, 6: 1}), (11, v128_, {1: 16, 2: 8, 3: 4, 4: 2, 5: 4, 6: 2})):
                        for et_, g_ in enumerate(got_):
                            w_ = "d3" if (et_ == 0 and t_ == 10) else ("q3" if et_ == 0 else ("v3.%d%s" % (cnt[et_], "?bhsdbh"[et_]) if et_ in cnt else "v3.?"))
                            if g_ != w_:
                                ck.violation("C20/source-table/vec%d/%d" % (t_, et_), "the AArch64 vector register (type %d, id 3) with element type %d prints %r; expected %r" % (t_, et_, g_, w_),
                                             {"command": "O 6 0 V %d 3 %d -1" % (t_, et_), "impl": g_})
                except Exception:
                    pass
                for nm, i, got, want in bad[:6]:
                    ck.violation("C20/source-table/%s/%d" % (nm, i), "the %s name table of the formatter prints entry %d as %r; it is %r" % (nm, i, got, want),
                                 {"command": "DS", "impl": ds, "entry": [nm, i, got, want]})
                if not bad and len(ck.violations) == nv0_:
                    ck.violation("C20/source-tables", "regenerated coq/gen/FmtSourceTables.v no longer satisfies small_tables_check: %s" % log[-500:],
                                 {"broken": "lemma source_small_tables_ok (coq/gen/FmtSourceTables.v)"}, no_input=True)
            if "InstNames.v" in failed:
                # search: which mnemonic breaks the premise (python's own statement of it) -> concrete line
                badn = G.find_bad_inst_names(G.load_inst_names(vlib.REPO), G.load_a64_inst_names(vlib.REPO))
                for arch_, id_, nm_, why_ in badn[:6]:
                    ck.violation("C20/inst-name/arch%d/id%d" % (arch_, id_), "instruction id %d of %s is called %r, which %s: its lines cannot be read back unambiguously"
                                 % (id_, "x86" if arch_ == 2 else "AArch64", nm_, why_), {"command": "X %d 0 %d %s 0 N 0" % (arch_, id_, nm_ or "?"), "impl": nm_})
            if "InstNames.v" in failed and not badn:
                ck.violation("C20/inst-names", "the instruction-name lists of the InstId enums no longer satisfy names_check (a mnemonic that is a prefix "
                             "keyword / not an identifier, or two x86 ids with one name): %s" % log[-500:],
                             {"broken": "lemma inst_names_ok (coq/gen/InstNames.v)"}, no_input=True)
            if "X86RegTables.v" in failed:
                # search: which (type,id) prints a wrong name — independent python reading of the tables vs the manuals' names
                bad = G.find_bad_table_entries(tables)
                if bad:
                    for (t, i, got, want) in bad[:5]:
                        ck.violation("C20/x86-reg-name/type%d/id%d" % (t, i),
                                     "AsmJit's register-name table prints RegType %d id %d as %r; the architectural name is %r" % (t, i, got, want),
                                     {"command": "O 2 0 R %d %d" % (t, i), "impl": got, "expected": want})
                else:
                    ck.violation("C20/name-tables", "regenerated coq/gen/X86RegTables.v no longer satisfies C20_name_tables_match: %s" % log[-600:],
                                 {"broken": "theorem C20_name_tables_match (coq/gen/X86RegTables.v)"}, no_input=True)
    if gen_dir and failed:
        gen_dir = None     # the other theorems are still checked, against the committed snapshot of the tables
    obl = ck.coq_properties(gen_dir=gen_dir) if gen_dir else ck.coq_properties()
    ck.log("theorems: %d, failed: %d" % (len(obl), len([o for o in obl if not o["ok"]])))
    mfail = ck.coq_make(["theories/Fmt/TextModel.vo", "theories/Fmt/X86FmtModel.vo", "theories/Fmt/X86InstModel.vo", "theories/Fmt/A64FmtModel.vo", "theories/Fmt/LogLine.vo", "theories/Fmt/LabelVirt.vo", "theories/Fmt/DataNode.vo", "theories/Fmt/X86Explain.vo", "theories/Fmt/RegList.vo", "theories/Fmt/VirtNames.vo", "theories/Fmt/FuncValue.vo", "theories/Fmt/LogOptions.vo", "theories/Fmt/Directives.vo", "theories/Fmt/A64Virt.vo", "theories/Fmt/FuncLine.vo", "theories/Fmt/Transcript.vo", "theories/Fmt/A64VirtRead.vo", "theories/Fmt/A32Regs.vo", "theories/Fmt/LogInsts.vo", "theories/Fmt/Strict.vo", "theories/Fmt/StrictOps.vo", "theories/Fmt/EnumNames.vo", "theories/Fmt/EnvCheck.vo", "theories/Fmt/LogIndent.vo", "theories/Fmt/DataBytes.vo", "theories/Fmt/DomainCheck.vo", "theories/Fmt/FuncCheck.vo", "theories/Fmt/PlainLog.vo", "theories/Fmt/StrictSmall.vo", "theories/Fmt/NodeRead.vo", "theories/Fmt/NonVacuity.vo"])
    if mfail:
        raise RuntimeError("model theories do not compile: %s %s" % (mfail, getattr(ck, "coq_log", "")[-800:]))
    model = ck.ocaml_model("Extract_Fmt.v", ["zconv.ml", "c20_driver.ml"], name="c20")

    # /repo carries the fix "print the AArch64 memory-operand extend operator when its shift amount is zero" (f9834ed): the model is
    # the FIXED behaviour (a64_mem_toks true); a tree that drops the operator again disagrees with model, proven parser and python
    # reader on concrete operands -> VIOLATION key C20/a64-mem-extend-dropped/<op>
    margs = ["--a64-fixed"]
    # embedded-data node: /repo prints TotalSize including the repeat count since 21e8af3; the model is the fixed behaviour
    margs.append("--embed-total-fixed")

    if ck.replay:
        rp = json.load(open(ck.replay))
        cmds = rp["replay"].get("commands") or [rp["replay"]["command"]]
        for c in cmds:
            print("input:", c)
            a = vlib.sh([impl], inp=c + "\n")[1].strip("\n")
            print(" impl :", a)
            print(" model:", vlib.sh([model] + margs, inp=c + "\n")[1].strip("\n"))
            if c[0] in "OX" and a[:2] in ("O ", "X "):
                p = "P %s %s | %s" % (c[0], c.split(" ", 3)[1] + " " + c.split(" ", 3)[3], a[2:])
                print(" proven parser on AsmJit's text:", vlib.sh([model] + margs, inp=p + "\n")[1].strip("\n"))
        return 0

    # ---------------------------------------------------------------- generated stream
    isa = G.load_inst_names(vlib.REPO)
    isa64 = G.load_a64_inst_names(vlib.REPO)
    try:
        forms = G.load_isa_forms(vlib.REPO, vlib.sh)
    except Exception as e:                       # node missing: fall back to the template generator only (recorded)
        forms = None
        ck.notes.append("ISA database not readable (%s): DB-driven emission skipped" % e)
    try:
        forms64 = G.load_a64_forms(vlib.REPO, vlib.sh)
    except Exception as e:
        forms64 = None
        ck.notes.append("AArch64 ISA database not readable (%s): DB-driven a64 emission skipped" % e)
    G._A64_NAMES["names"] = isa64
    cmds = G.gen_stream(rng, ck.tier, isa, forms) + G.gen_stream_a64(rng, ck.tier, isa64, vlib.REPO, forms64)
    corpus = os.path.join(vlib.VERIF, "corpus", "C20.txt")
    if os.path.exists(corpus):
        cmds = [l.rstrip("\n") for l in open(corpus) if l.strip() and not l.startswith("#")] + cmds
    par = [c for c in cmds if c[0] != "E"]
    ses = [c for c in cmds if c[0] == "E"]
    ck.log("stream: %d commands (%d emitted through an Assembler session)" % (len(cmds), len(ses)))
    ri = run_exe(impl, par)
    # FuncNode lines: the values the text has to denote are the ones the FuncDetail of the API reports (dumped by the harness); the model
    # query is built from that dump and from python's reading of the TypeId enum
    tnames = G.load_type_names(vlib.REPO)
    par_m = par if isinstance(ri, tuple) else [G.func_model_cmd(c, x, tnames) if c.startswith("Q ") else c for c, x in zip(par, ri)]
    rm = run_exe(model, par_m, args=margs)
    si = run_session(impl, ses) if ses else []
    sm = run_exe(model, ses, args=margs) if ses else []
    for nm, r in (("impl", ri), ("model", rm), ("impl-session", si), ("model-session", sm)):
        if isinstance(r, tuple):
            ck.violation("C20/harness-crash", "%s run failed: %s" % (nm, r), {"commands": cmds[:3], "detail": str(r), "broken": "harness"}, no_input=True)
    if any(isinstance(r, tuple) for r in (ri, rm, si, sm)):
        ri = rm = si = sm = []
        par = ses = []

    kinds = {}
    disagreements = 0
    nontrivial = set()
    phase2 = []          # (origin command, impl answer, phase-2 command, expected answer or None)
    abi_checked = abi_disagree = 0
    for cmd, x, y in zip(par, ri, rm):
        k = cmd[0]
        if cmd.startswith("Q ") and " ##" in x:
            x, fdump = x.split(" ##", 1)
            try:
                frets, fargs = G.parse_func_dump(fdump)
            except Exception:
                frets = fargs = None
            vt = G.func_value_texts(x[2:])
            if x == y and frets is not None and vt is not None and len(vt[0]) == len(frets) and len(vt[1]) == len(fargs):
                # the proven reader on every value text AsmJit printed
                arch = 6 if cmd.split()[2] == "6" else 2
                for txt, v in zip(vt[0] + vt[1], frets + [p[0] for p in fargs]):
                    phase2.append((cmd, "Q " + txt, G.func_value_words(v, tnames), "P Q %d | %s" % (arch, txt)))
                # and the proven reader of the WHOLE line (FuncLine.parse_func_line): label id, return value, arguments with their names
                if len(frets) <= 1:
                    wl = "1 ## %s ## %s" % (G.func_value_words(frets[0], tnames) if frets else "void",
                                             "; ".join("%s %s" % (G.func_value_words(p[0], tnames), nm) for p, nm in zip(fargs, G.func_arg_names(cmd))))
                    phase2.append((cmd, x, wl, "P QL %d | %s" % (arch, x[2:])))
            elif x == y:
                ck.violation("C20/func-node-split/%s" % re.sub(r"\s+", "_", cmd)[:120], "the FuncNode line %r does not split into the %s return and %s argument "
                             "values of its FuncDetail" % (x[2:], len(frets or []), len(fargs or [])), {"command": cmd, "impl": x})
            ex = G.abi_expect(cmd)
            if ex is not None and frets is not None:
                abi_checked += 1
                got = ([v[1] for v in frets] or [None])[0], [p[0][1] for p in fargs]
                if got != (ex[0], ex[1]):
                    abi_disagree += 1       # the assignment itself is C06's subject; recorded, not judged here
        kinds[k] = kinds.get(k, 0) + 1
        if cmd.startswith("O 5 "):
            # AArch32 register operands (A32Regs.v): text compared; "r<id>" read back by the proven parse_a32_gp
            nontrivial.add(x)
            f5 = cmd.split()
            if x != y:
                disagreements += 1
                ck.violation("C20/a32-reg/%s" % re.sub(r"\s+", "_", cmd), "AArch32 register text differs from the model: %r impl %r model %r" % (cmd, x, y),
                             {"command": cmd, "impl": x, "model": y})
            elif f5[3] == "R" and f5[4] == "5":
                phase2.append((cmd, x, y, "P R5 %s | %s" % (f5[5], x[2:])))
            continue
        if k in "OX":
            nontrivial.add(x)
        if x != y:
            disagreements += 1
            if k == "T":
                ck.violation("C20/enum-values", "enumerator values changed: impl %s / model %s" % (x, y),
                             {"command": cmd, "impl": x, "model": y, "broken": "correspondence C20 stream (constants)"}, no_input=True)
                continue
            if k == "N":
                j = G.judge_number(cmd, x)
                if j:
                    ck.violation(j[0], j[1] + " [model: %s]" % y, {"command": cmd, "impl": x, "model": y})
                else:
                    ck.violation("C20/correspondence/N", "number text differs from the model but reads back correctly: %r impl %r model %r" % (cmd, x, y),
                                 {"command": cmd, "impl": x, "model": y, "broken": "correspondence fmt_num"}, no_input=True)
                continue
        if k == "N":
            j = G.judge_number(cmd, x)
            if j:
                ck.violation(j[0], j[1], {"command": cmd, "impl": x, "model": y})
        if k in "YZ":
            nontrivial.add(x)
            if x != y:
                ck.violation("C20/%s/%s" % ("data" if k == "Y" else "node", re.sub(r"\s+", "_", cmd)[:120]),
                             "%s text differs from the model: %r impl %r model %r" % ("format_data" if k == "Y" else "format_node", cmd, x, y),
                             {"command": cmd, "impl": x, "model": y})
            elif k == "Y":
                phase2.append((cmd, x, y, "P D | %s" % x[2:]))
            elif k == "Z" and cmd.split()[2] == "-" and not (int(cmd.split()[1]) & 512 and cmd.split()[3] != "0") and cmd.split()[4] in ("L", "A", "S", "EL", "EX", "CP", "SN"):
                # non-instruction Builder nodes without inline comment / position prefix: the proven reader NodeRead.parse_node_body on AsmJit's text
                fz = cmd.split()
                kz = fz[4]
                if kz == "L":
                    wz = "L 0"
                elif kz == "A":
                    wz = "A %s %s" % ("0" if fz[5] == "0" else "1", fz[6])
                elif kz == "S":
                    wz = "S %s" % fz[5]
                elif kz == "EL":
                    wz = "EL %s" % fz[5]
                elif kz == "EX":
                    wz = "EX %s %s" % (fz[5], fz[6])
                elif kz == "CP":
                    n_, m2_ = int(fz[5]), int(fz[6])
                    wz = "CP %d %d" % (8 * n_ if m2_ == 0 else ((8 * n_ + 15) // 16) * 16 + 16 * m2_, 16 if m2_ > 0 else (8 if n_ > 0 else 0))
                else:
                    wz = "SN %s" % fz[5]
                phase2.append((cmd, x, wz, "P ZN | %s" % x[2:]))
            elif k == "Z" and cmd.split()[4] == "D":
                # independent judgement: the node emits size*count*repeat bytes; "TotalSize" must say so
                size, count, rep = (int(v) for v in cmd.split()[5:8])
                m = re.search(r"TotalSize=(\d+)\}", x)
                if not m or int(m.group(1)) != size * count * rep:
                    ck.violation("C20/embed-node-totalsize", "format_node prints %r for an embedded-data node of %d x %d bytes repeated %d times (%d bytes are emitted)"
                                 % (x[2:], count, size, rep, size * count * rep), {"command": cmd, "impl": x})
        if cmd.startswith("RL "):
            nontrivial.add(x)
            if x != y:
                ck.violation("C20/reglist/%s" % re.sub(r"\s+", "_", cmd), "register list text differs from the model: %r impl %r model %r" % (cmd, x, y),
                             {"command": cmd, "impl": x, "model": y})
            elif cmd.split()[1] == "5":
                phase2.append((cmd, x, y, "P RL | %s" % x[3:]))
            continue
        if cmd.startswith("W6 ") and x == y and cmd.split()[5] != "!":
            # the proven AArch64 virtual-register reader on the printed operand: index, element suffix (python's own: the text behind the name), element index
            f6 = cmd.split()
            body6 = x[3:].split("[")[0]
            suf6 = body6[body6.index("."):] if "." in body6 else "-"
            venv6 = "%d %s" % (len(G.A64_VREG_TABLE), " ".join("%d %s" % (vt, nm) for vt, nm in G.A64_VREG_TABLE))
            phase2.append((cmd, x, "%s %s %s" % (f6[3], suf6, f6[7]), "P V6 %s | %s" % (venv6, x[3:])))
        if k in "KJQ" or cmd.startswith("W6 "):
            nontrivial.add(x)
            if x != y:
                ck.violation("C20/compiler-text/%s" % re.sub(r"\s+", "_", cmd)[:140],
                             "Compiler-side text (virtual registers / home operand / FuncRet) differs from the model: %r impl %r model %r" % (cmd, x, y),
                             {"command": cmd, "impl": x, "model": y})
            continue
        if k in "WBU":
            nontrivial.add(x)
            if x != y:
                ck.violation("C20/%s/%s" % ("label" if k == "B" else "virt-reg", re.sub(r"\s+", "_", cmd)[:140]),
                             "%s text differs from the model: %r impl %r model %r" % ("label" if k == "B" else "virtual register", cmd, x, y),
                             {"command": cmd, "impl": x, "model": y})
            elif k == "W" and G.virt_expect(cmd) is not None:
                e = G.virt_expect(cmd)
                venv = "%d %s" % (len(G.VREG_TABLE), " ".join("%d %s" % (vt, nm) for vt, nm in G.VREG_TABLE))
                # one reader for physical / unnamed / named virtual registers (VirtNames.read_reg, proven for names over [A-Za-z0-9_.])
                phase2.append((cmd, x, y, "P V %s %s | %s" % (venv, "R %d %d" % (e[1], e[2]) if e[0] == "R" else "V %d %s" % (e[0], e[1]), x[2:])))
                if cmd.split()[5] == "-":
                    phase2.append((cmd, x, y, "P W %d %s | %s" % (e[0], e[1], x[2:])))
            elif k == "B" and cmd.split()[2] == "3":
                phase2.append((cmd, x, y, "P B %s %s | %s" % (cmd.split()[1], cmd.split()[6], x[2:])))
        if k in "OX":
            f = cmd.split(" ", 3)
            xt = x[2:]
            if k == "X" and int(cmd.split()[2]) & 16:
                xt = G.strip_explanations(xt)        # the {…} behind immediates is compared with the model, not parsed
                if x != y and xt == G.strip_explanations(y[2:]):
                    ck.violation("C20/explain/%s/%s" % (cmd.split()[4], re.sub(r"\s+", "_", " ".join(cmd.split()[5:]))[:100]),
                                 "kExplainImms: AsmJit explains the immediate as %r, the model (SDM names, FormatterInternal_explain_const transliterated) as %r "
                                 "for %r" % (x[2:], y[2:], cmd), {"command": cmd, "impl": x, "model": y})
            phase2.append((cmd, x if xt == x[2:] else x[:2] + xt, y if xt == x[2:] else y[:2] + G.strip_explanations(y[2:]), "P %s %s %s | %s" % (k, f[1], f[3], xt)))

    # E: the assembler sets InstOptions::kX86_Rex itself (FIXUP_GPB) when spl/bpl/sil/dil/r8b.. are encoded, and logs the modified
    # options: for such operands the line may carry "rex " although the caller did not ask for it (same bytes, modelled as is)
    def mtext(cmd, y):
        return G.subst_named_labels(y[2:]) if G.uses_named_label(cmd) else y[2:]
    ses_eff = list(ses)      # the command whose model text is compared (options / mnemonic as the assembler changed them)
    # candidates: options the assembler may add by itself (rex for spl..r15b, short for a rel8 jump to a bound label)
    def itext_of(x):
        return re.split(r" *(;|\$)", x.split(" ", 3)[3], 1)[0]
    alt_idx, alt_cmds = [], []
    for i, (cmd, x, y) in enumerate(zip(ses, si, sm)):
        if cmd.split()[1] != "2" or not x.startswith("E 0 ") or itext_of(x) == mtext(cmd, y):
            continue
        adds = (["rex"] if G.has_gpb_rex(cmd) else []) + (["short"] if G.has_bound_label_operand(cmd) else [])
        variants = [[a] for a in adds] + ([adds] if len(adds) == 2 else [])
        for v in variants:
            c2 = cmd
            for a in v:
                c2 = G.with_opt(c2, a)
            alt_idx.append(i); alt_cmds.append(c2)
    short_added = 0
    if alt_cmds:
        am = run_exe(model, alt_cmds, args=margs)
        if not isinstance(am, tuple):
            sm = list(sm)
            for i, c2, a in zip(alt_idx, alt_cmds, am):
                if itext_of(si[i]) == mtext(ses[i], a):
                    sm[i] = a
                    ses_eff[i] = c2
                    short_added += 1 if int(c2.split()[5]) & G.IO["short"] and not int(ses[i].split()[5]) & G.IO["short"] else 0
    alt_idx = sorted(set(i for i in alt_idx if ses_eff[i] != ses[i]))
    rex_added = len([i for i in alt_idx if int(ses_eff[i].split()[5]) & G.IO["rex"] and not int(ses[i].split()[5]) & G.IO["rex"]])
    # likewise the a64 assembler turns ldr/str with an unscaled offset into ldur/stur (same family) and logs the id it emitted
    alt2 = [i for i, (cmd, x, y) in enumerate(zip(ses, si, sm)) if cmd.split()[1] == "6" and cmd.split()[4] in G.A64_UNSCALED and
            x.startswith("E 0 ") and re.split(r" *(;|\$)", x.split(" ", 3)[3], 1)[0] != mtext(cmd, y)]
    if alt2:
        am = run_exe(model, [G.with_mnem(ses[i], G.A64_UNSCALED[ses[i].split()[4]]) for i in alt2], args=margs)
        if not isinstance(am, tuple):
            sm = list(sm)
            for i, a in zip(alt2, am):
                sm[i] = a
                ses_eff[i] = G.with_mnem(ses[i], G.A64_UNSCALED[ses[i].split()[4]])
    unscaled_renamed = len(alt2)
    # E: logger lines
    e_ok = 0
    e_arch = {}
    mn_seen = {}
    named = 0
    e_err = {}
    failed_msgs = []
    for ei, (cmd, x, y) in enumerate(zip(ses, si, sm)):
        kinds["E"] = kinds.get("E", 0) + 1
        m = re.match(r"E (\d+) (\S+) ?(.*)$", x)
        if not m:
            ck.violation("C20/protocol", "harness answered %r to %r" % (x, cmd), {"command": cmd, "impl": x}, no_input=True)
            continue
        err, hx, lg = int(m.group(1)), m.group(2), m.group(3)
        if err != 0:
            e_err[err] = e_err.get(err, 0) + 1
            lg, _, emsg = lg.partition("## ")
            lg = lg.rstrip(" ")
            if hx != "-" or lg:
                ck.violation("C20/failed-emit-logged", "refused instruction left bytes or a log line: %r -> %r" % (cmd, x), {"command": cmd, "impl": x})
            # the message handed to the error handler (EmitterUtils::log_instruction_failed): "<error name>: <instruction> [; comment]" - the
            # instruction text has to be the one the model prints for the instruction that was refused
            failed_msgs.append((ei, cmd, emsg, y))
            continue
        e_ok += 1
        e_arch[cmd.split()[1]] = e_arch.get(cmd.split()[1], 0) + 1
        mn_seen.setdefault(cmd.split()[1], set()).add(cmd.split()[4])
        nontrivial.add(lg)
        ff = int(cmd.split()[2])
        mc = ff & 1
        comment = G.e_comment(cmd)
        j = G.judge_log_line(cmd, hx, lg, mc, comment)
        if j is not None and j[0] is not None:
            ck.violation(j[0] + "/" + re.sub(r"\s+", "_", cmd)[:120], j[1] + " [model text: %s]" % y[2:], {"command": cmd, "impl": x, "model": y})
            continue
        rel, imm, col = j[2] if j else (0, 0, "")
        if G.uses_named_label(cmd):
            y = y[:2] + G.subst_named_labels(y[2:])
        phase2.append((cmd, x, y, "F 44 26 %d %s %d %d %s | %s" % (mc, hx, rel, imm, comment, y[2:])))
        if mc:
            phase2.append((cmd, x, y, "C %s" % col))
            if hx != "-":
                phase2.append((cmd, x, y, "G | %s" % lg))
        # the proven line parser (and the python reader) on the logged instruction text of the really emitted instruction
        itext = re.split(r" *(;|\$)", lg, 1)[0]
        if G.uses_named_label(cmd):
            named += 1          # named labels are free text: compared with the python model of format_label, not parsed
            continue
        xcmd = "X %s 0 %s" % (cmd.split()[1], G.e_to_x(ses_eff[ei]))
        phase2.append((xcmd, "X " + itext, "X " + y[2:], "P X %s %s | %s" % (cmd.split()[1], G.e_to_x(ses_eff[ei]), itext)))

    # ---------------------------------------------------------------- whole logs (Transcript.v): runs of consecutive kMachineCode lines of the session, as ONE text,
    # through the proven parse_log + columns_bytes: the bytes read off the log are the bytes that were appended
    tr_stat = {"logs": 0, "lines": 0, "bytes_agree": 0}
    runs, cur = [], []
    for ei, (cmd, x) in enumerate(zip(ses, si)):
        m_ = re.match(r"E 0 (\S+) (.*)$", x)
        if m_ and int(cmd.split()[2]) & 1 and m_.group(1) != "-" and m_.group(2).endswith("$") and "$" not in m_.group(2)[:-1]:
            cur.append((m_.group(1), m_.group(2)))
            if len(cur) == 40:
                runs.append(cur); cur = []
        elif cur:
            runs.append(cur); cur = []
    if cur:
        runs.append(cur)
    runs = [r_ for r_ in runs if len(r_) >= 2][:(60 if ck.tier == "quick" else 2000)]
    tp = run_exe(model, ["PL | %s" % "".join(lg for _, lg in r_) for r_ in runs], args=margs) if runs else []
    if isinstance(tp, tuple):
        ck.violation("C20/harness-crash", "model driver failed on whole logs: %s" % (tp,), {"broken": "ml/c20_driver.ml"}, no_input=True)
        tp = []
    for r_, a in zip(runs, tp):
        tr_stat["logs"] += 1
        tr_stat["lines"] += len(r_)
        want_hex = "".join(hx for hx, _ in r_)
        m_ = re.match(r"PL (\d+) (\S*)$", a)
        if m_ and int(m_.group(1)) == len(r_) and len(m_.group(2)) == len(want_hex) and all(g == "." or g == w for g, w in zip(m_.group(2), want_hex)):
            tr_stat["bytes_agree"] += 1
        else:
            ck.violation("C20/log-transcript/%s" % re.sub(r"\W+", "_", r_[0][1])[:100], "a log of %d lines reads back (proven parse_log / columns_bytes) as %r; the appended bytes are %s; log: %r"
                         % (len(r_), a[3:200], want_hex[:200], "".join(lg for _, lg in r_)[:400]), {"impl": "".join(lg for _, lg in r_), "bytes": want_hex})

    # ---------------------------------------------------------------- whole logs WITHOUT kMachineCode (PlainLog.v, the default logger flags): runs of consecutive such lines as ONE
    # text through the proven parse_plain_log: every line gives the model's instruction text and the comment
    runs, cur = [], []
    for ei, (cmd, x, y) in enumerate(zip(ses, si, sm)):
        m_ = re.match(r"E 0 (\S+) (.*)$", x)
        if m_ and not int(cmd.split()[2]) & 1 and m_.group(2).endswith("$") and "$" not in m_.group(2)[:-1] and ses_eff[ei] == cmd and not G.uses_named_label(cmd):
            cur.append((m_.group(2), mtext(cmd, y), G.e_comment(cmd)))
            if len(cur) == 40:
                runs.append(cur); cur = []
        elif cur:
            runs.append(cur); cur = []
    if cur:
        runs.append(cur)
    runs = [r_ for r_ in runs if len(r_) >= 2][:(60 if ck.tier == "quick" else 2000)]
    tp = run_exe(model, ["PLP | %s" % "".join(lg for lg, _, _ in r_) for r_ in runs], args=margs) if runs else []
    if isinstance(tp, tuple):
        ck.violation("C20/harness-crash", "model driver failed on plain logs: %s" % (tp,), {"broken": "ml/c20_driver.ml"}, no_input=True)
        tp = []
    tr_stat["plain_logs"] = tr_stat["plain_lines"] = tr_stat["plain_logs_agree"] = 0
    for r_, a in zip(runs, tp):
        tr_stat["plain_logs"] += 1
        tr_stat["plain_lines"] += len(r_)
        want_ = "PLP " + " ||| ".join("%s ### %s" % (t_, c_) for _, t_, c_ in r_)
        if a == want_:
            tr_stat["plain_logs_agree"] += 1
        else:
            ck.violation("C20/plain-log-transcript/%s" % re.sub(r"\W+", "_", r_[0][0])[:100], "a log of %d lines without kMachineCode reads back (proven parse_plain_log) as %r; expected %r; log: %r"
                         % (len(r_), a[4:300], want_[4:300], "".join(lg for lg, _, _ in r_)[:400]), {"impl": "".join(lg for lg, _, _ in r_)})

    # ---------------------------------------------------------------- messages of refused instructions
    fm_stat = {"messages": 0, "agree": 0, "agree_with_assembler_added_option": 0, "without_instruction_text": 0}
    fm_alt = []
    # the error names: whole table (harness DE) against python's reading of the Error enum; beyond the enum the name is "<Unknown>"
    enames = G.load_error_names(vlib.REPO)
    de = vlib.sh([impl], inp="DE\n", timeout=60)[1].split("\n")[0]
    de_names = de[3:].split(",") if de.startswith("DE ") else []
    fm_stat["error_names_compared"] = len(de_names)
    if len(de_names) != len(enames) + 2:
        ck.violation("C20/error-name-table/length", "error_as_string covers %d codes (+2 beyond), the Error enum has %d" % (len(de_names) - 2, len(enames)),
                     {"command": "DE", "impl": de}, no_input=not de_names)
    for code_, got_ in enumerate(de_names):
        want_ = enames.get(code_, "<Unknown>")
        if got_ != want_:
            ck.violation("C20/error-name/%d" % code_, "error_as_string(%d) is %r; the Error enum calls this code %r (messages of refused instructions start with this name)"
                         % (code_, got_, want_), {"command": "DE", "impl": de, "code": code_})

    # Formatter::format_feature over the whole id range of both architectures against python's reading of the CpuFeatures enums; an id that is not a
    # feature has to print "<Unknown>"
    for arch_, which_ in ((2, "X86"), (6, "ARM")):
        fnames = G.load_feature_names(vlib.REPO, which_)
        df = vlib.sh([impl], inp="DF %d\n" % arch_, timeout=60)[1].split("\n")[0]
        got_l = df[3:].split(",") if df.startswith("DF ") else []
        fm_stat["feature_names_compared_%s" % which_] = len(got_l)
        if not got_l:
            ck.violation("C20/harness-crash", "harness failed on DF %d" % arch_, {"commands": ["DF %d" % arch_], "broken": "harness"}, no_input=True)
        for id_, g_ in enumerate(got_l):
            w_ = fnames.get(id_, "<Unknown>")
            if g_ != w_:
                if which_ == "X86" and id_ not in fnames and g_ == fnames.get(max(fnames)):
                    # CpuFeatures::X86::kMaxValue is stale (names kAMX_TILE, the enum ends with kAMX_TRANSPOSE): ids beyond the enum print the last name.
                    # Fix proposed: fixes/C20-x86-feature-max-value.patch
                    ck.violation("C20/x86-feature-max-value", "Formatter::format_feature(X64, %d) prints %r for an id that is no feature (the enum ends at %d = %s): "
                                 "CpuFeatures::X86::kMaxValue does not name the last feature" % (id_, g_, max(fnames), fnames[max(fnames)]), {"command": "DF 2", "impl": df, "id": id_})
                else:
                    ck.violation("C20/feature-name/%s/%d" % (which_, id_), "Formatter::format_feature prints feature %d of CpuFeatures::%s as %r; the enum calls it %r"
                                 % (id_, which_, g_, w_), {"command": "DF %d" % arch_, "impl": df, "id": id_})

    # Formatter::format_type_id over all 256 TypeId values against python's reading of the TypeId enum (values without an enumerator are not judged)
    dt = vlib.sh([impl], inp="DT\n", timeout=60)[1].split("\n")[0]
    dt_names = dt[3:].split(",") if dt.startswith("DT ") else []
    fm_stat["type_names_compared"] = len([i_ for i_ in range(len(dt_names)) if i_ in tnames])
    for id_, g_ in enumerate(dt_names):
        if id_ in tnames and g_ != tnames[id_]:
            if 45 <= id_ <= 50 and g_ == "uint%s" % tnames[id_].lstrip("maskx"):
                # the mask / mmx cases of format_type_id are unreachable (it switches on scalar_of(type_id)). Fix proposed: fixes/C20-mask-mmx-type-names.patch
                ck.violation("C20/mask-mmx-type-names", "Formatter::format_type_id(TypeId %d = k%s) prints %r: the type's own name %r is never printed" % (id_, tnames[id_].capitalize(), g_, tnames[id_]),
                             {"command": "DT", "impl": dt, "id": id_})
            else:
                ck.violation("C20/type-name/%d" % id_, "Formatter::format_type_id(%d) prints %r; the TypeId enum calls it %r" % (id_, g_, tnames[id_]), {"command": "DT", "impl": dt, "id": id_})

    if enum_tables_failed and not any(v.get("key", "").startswith(("C20/error-name", "C20/feature-name", "C20/type-name", "C20/x86-feature-max-value", "C20/mask-mmx-type-names"))
                                       for v in ck.violations):
        ck.violation("C20/enum-tables", "regenerated coq/gen/FmtEnumTables.v no longer satisfies enum_tables_ok although python's oracles find no differing entry "
                     "(the naming rules of EnumNames.v and of tools/c20_gen.py disagree)", {"broken": "lemma enum_tables_ok (coq/gen/FmtEnumTables.v)"}, no_input=True)

    def plain_flags(c):
        f_ = c.split()
        f_[2] = "1024"          # log_instruction_failed formats with FormatFlags::kRegType only, whatever the logger's flags are
        return " ".join(f_)
    failed_msgs = [(ei, plain_flags(cmd), emsg, y) for ei, cmd, emsg, y in failed_msgs]
    fy = run_exe(model, [fm[1] for fm in failed_msgs], args=margs) if failed_msgs else []
    if isinstance(fy, tuple):
        ck.violation("C20/harness-crash", "model driver failed on refused-instruction commands: %s" % (fy,), {"broken": "ml/c20_driver.ml"}, no_input=True)
        failed_msgs, fy = [], []
    failed_msgs = [(ei, cmd, emsg, y2) for (ei, cmd, emsg, _), y2 in zip(failed_msgs, fy)]
    fm_model = {}
    for ei, cmd, emsg, y in failed_msgs:
        fm_model[ei] = y
        fm_stat["messages"] += 1
        comment = G.e_comment(cmd)
        want = mtext(cmd, y) + ("" if comment == "-" else " ; " + comment)
        name, sep, body = emsg.partition(": ")
        err_ = int(si[ei].split()[1])
        if sep and name != enames.get(err_, "<Unknown>"):
            ck.violation("C20/failed-emit-error-name/%s" % re.sub(r"\s+", "_", cmd)[:100], "%r was refused with error %d (%s) but the message says %r"
                         % (cmd, err_, enames.get(err_), name), {"command": cmd, "impl": si[ei]})
        if not sep or not re.fullmatch(r"[A-Za-z]+", name):
            fm_stat["without_instruction_text"] += 1      # errors reported before an instruction is formatted
            continue
        if body == want:
            fm_stat["agree"] += 1
        else:
            fm_alt.append((ei, cmd, body, comment))
    if fm_alt:
        alts = []
        for ei, cmd, body, comment in fm_alt:
            # the state the assembler changed itself before it gave up: rex / short / long options (x86), ldr/str.. -> ldur/stur.. when the scaled
            # offset does not fit (a64: the message names the unscaled form it tried last)
            mn_ = cmd.split()[4]
            alts += [G.with_rex(cmd), G.with_opt(cmd, "short"), G.with_opt(cmd, "long"),
                     G.with_mnem(cmd, G.A64_UNSCALED[mn_]) if cmd.split()[1] == "6" and mn_ in G.A64_UNSCALED else cmd]
        am = run_exe(model, alts, args=margs)
        if isinstance(am, tuple):
            am = ["?"] * len(alts)
        for k_, (ei, cmd, body, comment) in enumerate(fm_alt):
            tail = "" if comment == "-" else " ; " + comment
            if any(mtext(c2, a) + tail == body for c2, a in zip(alts[4 * k_:4 * k_ + 4], am[4 * k_:4 * k_ + 4])):
                fm_stat["agree_with_assembler_added_option"] += 1
            elif cmd.split()[1] == "6" and (int(cmd.split()[3]) >> 27) & 15 and re.sub(r"^(\w+)\.\w+( |$)", r"\1\2", mtext(cmd, fm_model[ei]) + tail) == body:
                # independent rule: the message of a refused CONDITIONAL instruction has to name the condition (the a64 assembler strips it from the id
                # at entry and passes the stripped id to log_instruction_failed). Fix proposed: fixes/C20-a64-failed-message-drops-cond.patch
                ck.violation("C20/a64-failed-message-drops-cond", "the error message of the refused %r names %r: the condition code of %r is missing"
                             % (cmd, body, mtext(cmd, fm_model[ei])), {"command": cmd, "impl": si[ei], "model": fm_model[ei]})
            else:
                ck.violation("C20/failed-emit-message/%s" % re.sub(r"\s+", "_", cmd)[:120], "the error message of the refused %r names the instruction %r; the model prints %r"
                             % (cmd, body, mtext(cmd, fm_model[ei]) + tail), {"command": cmd, "impl": si[ei], "model": fm_model[ei]})

    # ---------------------------------------------------------------- logger options: indentation and paddings (LogOptions.v)
    lo_stat = {"instruction_lines": 0, "label_lines": 0, "agree": 0, "split_back": 0}
    cand = [i for i, (cmd, x, y) in enumerate(zip(ses, si, sm)) if x.startswith("E 0 ") and ses_eff[i] == ses[i] and not G.uses_named_label(cmd)
            and not re.search(r"\bL\d", y)]
    lo = []
    for i in rng.sample(cand, min(len(cand), 600 if ck.tier == "quick" else 4000)):
        # boundaries of the model's case splits: padding 0 (= default) / 1 / exactly the text length / one more / beyond (up to 300: the extracted model pads with unary naturals); indentation 0 / 255 (uint8)
        tl = len(sm[i]) - 2
        ind = rng.choice([0, 1, 2, 4, 7, 15, 255])
        p1 = rng.choice([0, 0, 1, 20, 44, 60, 100, tl + ind, tl + ind + 1, max(1, tl + ind - 1), 300, 43, 45])
        p2 = rng.choice([0, 0, 1, 10, 25, 26, 27, 40, 200])
        lo.append(("EO %d %d %d %s" % (ind, p1, p2, ses[i][2:]), i, ind, p1, p2))
    for _ in range(60):
        ind, p1, p2 = rng.choice([0, 1, 3, 8, 255]), rng.choice([0, 1, 3, 4, 5, 12, 44, 70, 300]), rng.choice([0, 1, 5, 26, 33])
        lo.append(("EB %d %d %d %d %s" % (ind, p1, p2, rng.choice([0, 1]), rng.choice(["-", "-", "entry", "loop_head", "x"])), None, ind, p1, p2))
    la = run_session(impl, [c[0] for c in lo]) if lo else []
    if isinstance(la, tuple):
        ck.violation("C20/harness-crash", "harness failed on logger-option commands: %s" % (la,), {"broken": "harness"}, no_input=True)
        la = []
    lo_q, lo_g = [], []
    for (c, i, ind, p1, p2), a in zip(lo, la):
        if c.startswith("EB "):
            m = re.match(r"EB 0 (\d+) (.*)$", a)
            if not m:
                ck.violation("C20/protocol", "harness answered %r to %r" % (a, c), {"command": c, "impl": a}, no_input=True)
                continue
            f = c.split()
            lo_q.append((c, m.group(2), "FL %d %d %d %s %s %s" % (ind, p1, p2, f[4], m.group(1), f[5])))
            continue
        m = re.match(r"E 0 (\S+) (.*)$", a)
        if not m:
            ck.violation("C20/log-options/emit", "the instruction of %r is not emitted any more with logger options set: %r" % (c, a), {"command": c, "impl": a})
            continue
        hx, lg = m.group(1), m.group(2)
        mc = int(ses[i].split()[2]) & 1
        comment = G.e_comment(ses[i])
        lo_q.append((c, lg, "FI %d %d %d %d %s 0 0 %s | %s" % (ind, p1, p2, mc, hx, comment, sm[i][2:])))
        if mc and hx != "-":
            lo_g.append((c, lg, "%d|%s|%s|%s" % (ind, sm[i][2:], hx.upper(), "" if comment == "-" else comment)))
    lm = run_exe(model, [q[2] for q in lo_q] + ["GI | %s" % g[1] for g in lo_g], args=margs) if lo_q else []
    if isinstance(lm, tuple):
        ck.violation("C20/harness-crash", "model driver failed on logger-option commands: %s" % (lm,), {"broken": "ml/c20_driver.ml"}, no_input=True)
        lm = []
    for (c, lg, q), a in zip(lo_q, lm[:len(lo_q)]):
        lo_stat["label_lines" if c.startswith("EB ") else "instruction_lines"] += 1
        nontrivial.add(lg)
        if a.split(" ", 1)[1] == lg:
            lo_stat["agree"] += 1
        else:
            ck.violation("C20/log-options/%s" % re.sub(r"\s+", "_", c)[:140], "logger line with indentation/padding options differs from the model: %r impl %r model %r"
                         % (c, lg, a.split(" ", 1)[1]), {"command": c, "impl": lg, "model": a})
    for (c, lg, want), a in zip(lo_g, lm[len(lo_q):]):
        if a == "GI " + want:
            lo_stat["split_back"] += 1
        else:
            ck.violation("C20/log-options-parse/%s" % re.sub(r"\s+", "_", c)[:140], "the logger line %r of %r splits back (proven splitter) into %r, expected %r"
                         % (lg, c, a[3:], want), {"command": c, "impl": lg})

    # ---------------------------------------------------------------- AArch64 virtual registers under kRegType: independent rule "the 32-bit and the
    # 64-bit view of one virtual register print differently when the register type is asked for" (x86 prints @gpd / @gpq)
    if not isinstance(ri, tuple):
        w6 = {}
        for cmd, x in zip(par, ri):
            if cmd.startswith("W6 "):
                f = cmd.split()
                if int(f[1]) & 1024 and f[5] != "!" and f[2] in ("5", "6"):
                    w6.setdefault((f[1], f[3], f[5], f[6], f[7]), {})[f[2]] = (cmd, x)
        for k6, d in sorted(w6.items()):
            if len(d) == 2 and d["5"][1] == d["6"][1]:
                ck.violation("C20/a64-virt-reg-size-not-shown", "with kRegType set the w view and the x view of virtual register %s print alike: %r and %r both give %r"
                             % (k6[2] if k6[2] != "-" else "%" + k6[1], d["5"][0], d["6"][0], d["5"][1][3:]), {"commands": [d["5"][0], d["6"][0]], "impl": d["5"][1]})

    # ---------------------------------------------------------------- non-instruction lines an Assembler logs: align, embed, embed_data_array,
    # embed_label, embed_label_delta, comment (Directives.v / DataNode.v); every line has to denote what was really appended
    dd_stat = {"lines": 0, "agree": 0, "refused": 0, "data_lines_denote_appended_bytes": 0, "align_lines_read_back": 0, "label_lines_read_back": 0}
    dcmds = G.gen_directive_cmds(rng, 400 if ck.tier == "quick" else 4000)
    da_ = run_session(impl, dcmds)
    dm_ = run_exe(model, dcmds, args=margs)
    if isinstance(da_, tuple) or isinstance(dm_, tuple):
        ck.violation("C20/harness-crash", "directive commands failed: %s %s" % (da_ if isinstance(da_, tuple) else "", dm_ if isinstance(dm_, tuple) else ""),
                     {"broken": "harness"}, no_input=True)
        da_ = dm_ = []
    dq = []
    for c, a, y in zip(dcmds, da_, dm_):
        m = re.match(r"ED (\d+) (\S+) (\d+) (\d+) ?(.*)$", a)
        if not m:
            ck.violation("C20/protocol", "harness answered %r to %r" % (a, c), {"command": c, "impl": a}, no_input=True)
            continue
        err, hx, before, after, lg = int(m.group(1)), m.group(2), int(m.group(3)), int(m.group(4)), m.group(5)
        f = c.split()
        kind = f[4]
        if err != 0:
            dd_stat["refused"] += 1
            if hx != "-" or lg:
                ck.violation("C20/failed-directive-logged/%s" % re.sub(r"\s+", "_", c), "refused directive left bytes or a log line: %r -> %r" % (c, a), {"command": c, "impl": a})
            continue
        dd_stat["lines"] += 1
        nontrivial.add(lg)
        key = re.sub(r"\s+", "_", c)[:120]
        want_line = y[3:]
        if kind == "A" and int(f[6]) <= 1:
            want_line = ""                       # align 1 is a no-op on both back ends: nothing appended, nothing logged
        if kind == "A" and f[1] == "6" and int(f[6]) > 1 and after == before and lg == "":
            # independent rule: an accepted align directive has to be in the log (x86 logs it; a64 returns before the logging block when
            # no padding is needed). Fix proposed: fixes/C20-a64-align-not-logged.patch; the model is the fixed behaviour.
            ck.violation("C20/a64-align-not-logged", "a64::Assembler::align(%s, %s) at the already aligned offset %d is accepted but not logged (x86 logs 'align %s'): %r -> %r"
                         % (f[5], f[6], before, f[6], c, a), {"command": c, "impl": a})
            continue
        if lg != want_line:
            ck.violation("C20/directive/" + key, "logged directive line differs from the model: %r impl %r model %r" % (c, lg, want_line), {"command": c, "impl": a, "model": y})
            continue
        dd_stat["agree"] += 1
        body = lg[:-1] if lg.endswith("$") else lg
        if kind == "A":
            n = int(f[6])
            if after % n != 0 or after - before >= n:
                ck.violation("C20/directive-align/" + key, "%r logged %r but the offset went from %d to %d" % (c, lg, before, after), {"command": c, "impl": a})
            if n > 1:
                dq.append((c, a, "%d %d" % (int(f[3]), n), "P ED %s A | %s" % (f[1], body)))
        elif kind in "BT":
            dq.append((c, a, hx, "P DB | %s" % body))      # the bytes the line denotes, computed by the extracted parse_data + data_bytes (C20_data_line_denotes_bytes)
        elif kind == "L":
            if after - before != int(f[6]):
                ck.violation("C20/directive-size/" + key, "%r logged %r but %d bytes were appended" % (c, lg, after - before), {"command": c, "impl": a})
            dq.append((c, a, "%s %s" % (f[6], f[5]), "P ED %s L | %s" % (f[1], body)))
        elif kind == "D":
            if after - before != int(f[7]):
                ck.violation("C20/directive-size/" + key, "%r logged %r but %d bytes were appended" % (c, lg, after - before), {"command": c, "impl": a})
            dq.append((c, a, "%s %s %s" % (f[7], f[5], f[6]), "P ED %s D | %s" % (f[1], body)))
    dp = run_exe(model, [q[3] for q in dq], args=margs) if dq else []
    if isinstance(dp, tuple):
        ck.violation("C20/harness-crash", "model driver failed on directive readers: %s" % (dp,), {"broken": "ml/c20_driver.ml"}, no_input=True)
        dp = []
    for (c, a, want, q), got in zip(dq, dp):
        kind = c.split()[4]
        key = re.sub(r"\s+", "_", c)[:120]
        if kind in "BT":
            if got == "P " + want:
                dd_stat["data_lines_denote_appended_bytes"] += 1
            else:
                ck.violation("C20/directive-data/" + key, "%r: the logged line %r denotes (proven parse_data + data_bytes) the bytes %s; appended were %s"
                             % (c, q.split(" | ", 1)[1], got[2:], want), {"command": c, "impl": a})
        elif got == "P " + want:
            dd_stat["align_lines_read_back" if kind == "A" else "label_lines_read_back"] += 1
        else:
            ck.violation("C20/directive-parse/" + key, "%r: the logged line %r reads back (proven reader) as %r, expected %r" % (c, q.split(" | ", 1)[1], got[2:], want),
                         {"command": c, "impl": a})

    # ---------------------------------------------------------------- annotated Compiler output (kRAAnnotate [+ kRADebugLiveness]): whole functions
    ka_stat = {"functions": 0, "lines": 0, "annotations_agree": 0, "bytes_agree": 0, "lines_split_back": 0, "instructions_denoted": 0, "refused": 0}
    progs = G.gen_annotated_programs(rng, isa, 150 if ck.tier == "quick" else 1500)
    # AArch64 functions: the expected annotation is A64Virt.a64_fmt_inst_virt with the environment of the six registers the harness creates
    ka6_env = "6 5 a 5 b 6 - 6 p 11 - 11 x"
    progs += [(c, ["K6 %s %s %s" % (c.split()[1], ka6_env, b) for b in bodies]) for c, bodies in G.gen_annotated_programs_a64(rng, isa64, 100 if ck.tier == "quick" else 1000)]
    ka = run_exe(impl, [pg[0] for pg in progs])
    if isinstance(ka, tuple):
        ck.violation("C20/harness-crash", "harness failed on annotated-function commands: %s" % (ka,), {"broken": "harness"}, no_input=True)
        ka = []
    kq, kjobs = [], []
    for (c, kcmds), a in zip(progs, ka):
        m = re.match(r"KA6? (\d+) (\S+) (.*)$", a)
        if not m:
            ck.violation("C20/protocol", "harness answered %r to %r" % (a, c), {"command": c, "impl": a}, no_input=True)
            continue
        if m.group(1) != "0":
            ka_stat["refused"] += 1
            continue
        mc = int(c.split()[1]) & 1
        sp = G.split_annotated_log(m.group(3), mc)
        if sp is None:
            ck.violation("C20/annotated-log/shape/%s" % re.sub(r"\s+", "_", c)[:120], "a line of the annotated log of %r is not 'text ; [column |] comment': %r"
                         % (c, m.group(3)), {"command": c, "impl": a})
            continue
        ka_stat["functions"] += 1
        ka_stat["lines"] += len(sp)
        nontrivial.update(l[0] for l in sp)
        job = {"cmd": c, "impl": a, "hex": m.group(2), "mc": mc, "lines": sp, "k0": len(kq), "kcmds": kcmds, "a64": c.startswith("KA6 ")}
        kq += kcmds
        # our instructions = the annotated lines that are neither RA-inserted (<LOAD>/<MOVE>/...), nor labels, nor the function header / return
        ann = lambda cm: (cm or "").split(" | ")[0].rstrip(" ")
        job["ours"] = [l for l in sp if l[3] is not None and not re.match(r"^(<[A-Z]+>|L\d+:|\[Func)", ann(l[3]))]
        job["x0"] = len(kq)
        kq += ["P %s | %s" % ("XS6" if job["a64"] else "XS", l[1]) for l in job["ours"]]
        job["g0"] = len(kq)
        job["glines"] = [l for l in sp if mc and l[2]] 
        kq += ["GI | %s$" % l[0] for l in job["glines"]]
        kjobs.append(job)
    km = run_exe(model, kq, args=margs) if kq else []
    if isinstance(km, tuple):
        ck.violation("C20/harness-crash", "model driver failed on annotated-function commands: %s" % (km,), {"broken": "ml/c20_driver.ml"}, no_input=True)
        kjobs = []
    for job in kjobs:
        c = job["cmd"]
        key = re.sub(r"\s+", "_", c)[:120]
        ann = lambda cm: (cm or "").split(" | ")[0].rstrip(" ")
        want = [y.split(" ", 1)[1] for y in km[job["k0"]:job["k0"] + len(job["kcmds"])]]
        got = [ann(l[3]) for l in job["ours"]]
        # the allocator drops a register-to-register move whose two virtual registers got the same physical register: such an instruction
        # may be missing from the log; everything else has to be there, in order
        kept, gi, bad = [], 0, None
        for kc, w in zip(job["kcmds"], want):
            if gi < len(got) and got[gi] == w:
                kept.append(kc); gi += 1
            elif re.search(r" (mov|movaps) 0 N 2 R \d+ \d+ R \d+ \d+$", kc):
                ka_stat["moves_elided"] = ka_stat.get("moves_elided", 0) + 1
            else:
                bad = (gi, w)
                break
        if bad is None and gi != len(got):
            bad = (gi, None)
        if bad is None:
            ka_stat["annotations_agree"] += 1
            job["kcmds"] = kept
        else:
            d = bad[0]
            ck.violation("C20/annotated-log/annotation/" + key, "function %r: annotation #%d in the log is %r, the instruction given to the Compiler prints (model) %r"
                         % (c, d, got[d] if d < len(got) else None, bad[1]), {"command": c, "impl": job["impl"]})
            continue
        if job["mc"]:
            cols = "".join(l[2] or "" for l in job["lines"])
            bufhex = "" if job["hex"] == "-" else job["hex"]
            # '.' stands for a displacement that was not known when the line was logged (forward jump): those positions are not compared
            if len(cols) == len(bufhex) and all(cc_ == "." or cc_.lower() == bc_ for cc_, bc_ in zip(cols, bufhex)):
                ka_stat["bytes_agree"] += 1
            else:
                ck.violation("C20/annotated-log/bytes/" + key, "function %r: the machine-code columns of the log concatenate to %s, the code buffer holds %s"
                             % (c, cols, job["hex"]), {"command": c, "impl": job["impl"]})
        for l, a in zip(job["glines"], km[job["g0"]:job["g0"] + len(job["glines"])]):
            w = "GI %d|%s|%s|%s" % (len(l[1]) - len(l[1].lstrip(" ")), l[1].lstrip(" "), l[2], l[3] or "")
            if a == w:
                ka_stat["lines_split_back"] += 1
            else:
                ck.violation("C20/annotated-log/split/" + key, "function %r: the proven splitter reads the line %r as %r, expected %r" % (c, l[0], a[3:], w[3:]),
                             {"command": c, "impl": job["impl"]})
        for l, kc, a in zip(job["ours"], job["kcmds"], km[job["x0"]:job["x0"] + len(job["ours"])]):
            why = "not parsed" if a == "P <no parse>" else (G.annotated_inst_mismatch_a64(" ".join(kc.split()[3 + 2 * int(kc.split()[2]):]), a[2:]) if job["a64"] else G.annotated_inst_mismatch(kc, a[2:], G.annotated_trampolines(job["lines"])))
            if why is None:
                ka_stat["instructions_denoted"] += 1
            else:
                ck.violation("C20/annotated-log/instruction/" + key, "function %r: the logged line %r (annotation %r) does not denote the annotated instruction with its "
                             "virtual registers allocated: %s [proven parser: %s]" % (c, l[1], ann(l[3]), why, a[2:]), {"command": c, "impl": job["impl"]})

    # ---------------------------------------------------------------- cosmetic flags (compared, not modelled): kShowAliases, kExplainImms
    cos = G.gen_cosmetic_cmds(rng, isa)
    aliases = G.load_x86_aliases(vlib.REPO)
    ca = run_exe(impl, [c[1] for c in cos] + [c[2] for c in cos])
    cos_stat = {"alias_lines": 0, "alias_formatted": 0, "explain_lines": 0, "explained": 0}
    if isinstance(ca, tuple):
        ck.violation("C20/harness-crash", "harness failed on cosmetic commands: %s" % (ca,), {"broken": "harness"}, no_input=True)
    else:
        for (kind, pc, fc), pa, fa in zip(cos, ca[:len(cos)], ca[len(cos):]):
            cos_stat[kind + "_lines"] += 1
            if fa != pa:
                cos_stat["alias_formatted" if kind == "alias" else "explained"] += 1
            j = G.judge_cosmetic(kind, pc, pa, fa, aliases)
            if j:
                ck.violation(j[0], j[1], {"command": fc, "impl": fa, "plain": pa})

    # ---------------------------------------------------------------- llvm-mc as a third, independent reading of the x86 Intel lines
    # (quick: a sample of 2000 lines, 60 re-decoded; thorough: all). Evidence only: no verdict comes from it.
    llvm = {}
    if True:
        cand = []
        for cmd, x in zip(ses, si):
            m = re.match(r"E 0 (\S+) (.*)$", x)
            if m and cmd.split()[1] == "2":
                itext = re.split(r" *(;|\$)", m.group(2), 1)[0]
                if not re.search(r"\bL\d", itext):
                    cand.append((itext, m.group(1).lower()))
        if ck.tier == "quick":
            cand = rng.sample(cand, min(len(cand), 2000))
        enc = []
        for i in range(0, len(cand), 4000):
            enc += G.llvm_assemble([G.llvm_strip_options(t) for t, _ in cand[i:i + 4000]], vlib.sh)
        agree = sum(1 for (t, hx), e in zip(cand, enc) if e == [hx])
        refused = sum(1 for e in enc if not e)
        llvm = {"lines": len(cand), "llvm_mc_same_bytes": agree, "llvm_mc_refused_syntax": refused}
        if len(enc) != len(cand):
            ck.notes.append("llvm-mc marker count mismatch (%d/%d): third reading skipped" % (len(enc), len(cand)))
            llvm = {}
        else:
            # other bytes: the same instruction in another encoding? decode both with llvm-mc and compare
            other = [(t, hx, "".join(e)) for (t, hx), e in zip(cand, enc) if e and e != [hx]]
            llvm["llvm_mc_other_bytes"] = len(other)
            if ck.tier == "quick":
                other = other[:60]
            da = G.llvm_disasm([hx for _, hx, _ in other], vlib.sh)
            db = G.llvm_disasm([e for _, _, e in other], vlib.sh)
            alt = und = quirk = 0
            dis = []
            for (t, hx, e), x, y in zip(other, da, db):
                if x == "?" or y == "?":
                    und += 1
                elif G.llvm_same_instruction(x, y):
                    alt += 1
                elif G.llvm_quirk(x, y):
                    quirk += 1
                else:
                    # Text and given operands are compared by the parsers below; a line that reads back to the given operands but was
                    # encoded differently is an ENCODER matter (C01/C14 territory) or an llvm naming convention: recorded, not judged here.
                    dis.append({"line": t, "emitted": hx, "llvm_reads_emitted_as": x, "llvm_assembles_line_to": e, "which_reads": y})
            llvm.update({"llvm_mc_same_instruction_other_encoding": alt, "llvm_mc_cannot_decode_no_verdict": und, "llvm_mc_naming_quirk_no_verdict": quirk,
                         "llvm_mc_disagreements_recorded_not_judged": len(dis), "llvm_mc_first_disagreements_recorded": dis[:12]})
        ck.log("llvm-mc third reading: %s" % llvm)

    # ---------------------------------------------------------------- phase 2: proven parsers on AsmJit's text
    p2 = run_exe(model, [p[3] for p in phase2], args=margs)
    if isinstance(p2, tuple):
        ck.violation("C20/harness-crash", "model driver failed in phase 2: %s" % (p2,), {"broken": "ml/c20_driver.ml"}, no_input=True)
        p2 = []
    parsed_ok = 0
    unsupported = {}
    dom_stat = {}
    for (cmd, x, y, pc), a in zip(phase2, p2):
        k = pc[0]
        if k == "P" and cmd.startswith("RL "):
            if a == "P %d" % int(cmd.split()[3]):
                parsed_ok += 1
            else:
                ck.violation("C20/reglist-parse/%s" % re.sub(r"\s+", "_", cmd), "the register list %r printed for mask %s reads back as %s" % (x[3:], cmd.split()[3], a),
                             {"command": cmd, "impl": x})
            continue
        if k == "P" and cmd[0] == "Y":
            if a == G.data_expect(cmd):
                parsed_ok += 1
            else:
                ck.violation("C20/data-parse/%s" % re.sub(r"\s+", "_", cmd)[:120],
                             "format_data prints %r for %r; the proven parser reads %r, the bytes are %r" % (x[2:], cmd, a, G.data_expect(cmd)),
                             {"command": cmd, "impl": x})
            continue
        if k == "P" and pc.startswith("P ZN "):
            if a == "P " + y:
                parsed_ok += 1
            else:
                ck.violation("C20/node-parse/%s" % re.sub(r"\s+", "_", cmd)[:120], "the Builder node text %r of %r reads back (proven reader) as %r, expected %r" % (x[2:], cmd, a[2:], y),
                             {"command": cmd, "impl": x})
            continue
        if k == "P" and pc.startswith("P R5 "):
            if a == "P ok":
                parsed_ok += 1
            else:
                ck.violation("C20/a32-reg-parse/%s" % re.sub(r"\s+", "_", cmd), "the AArch32 register %r of %r reads back as %s" % (x[2:], cmd, a), {"command": cmd, "impl": x})
            continue
        if k == "P" and pc.startswith("P V6 "):
            if a == "P " + y:
                parsed_ok += 1
            else:
                ck.violation("C20/a64-virt-reg-parse/%s" % re.sub(r"\s+", "_", cmd)[:120], "the AArch64 virtual-register operand %r of %r reads back (proven reader) as %r, expected %r"
                             % (x[3:], cmd, a[2:], y), {"command": cmd, "impl": x})
            continue
        if k == "P" and pc.startswith("P QL "):
            if a == "P " + y:
                parsed_ok += 1
            else:
                ck.violation("C20/func-line-parse/%s" % re.sub(r"\s+", "_", cmd)[:140],
                             "the FuncNode line %r of %r reads back (proven reader of the whole line) as %r; the FuncDetail and the bound registers say %r" % (x[2:], cmd, a[2:], y),
                             {"command": cmd, "impl": x})
            continue
        if k == "P" and pc.startswith("P Q "):
            if a == "P " + y:
                parsed_ok += 1
            else:
                ck.violation("C20/func-value-parse/%s" % re.sub(r"\s+", "_", cmd + "/" + x[2:])[:140],
                             "the function value %r printed in the FuncNode line of %r reads back as %r; the FuncDetail says %r" % (x[2:], cmd, a[2:], y),
                             {"command": cmd, "impl": x})
            continue
        if k == "P" and cmd[0] in "WB":
            if a == "P ok":
                parsed_ok += 1
            else:
                ck.violation("C20/%s-parse/%s" % ("virt-reg" if cmd[0] == "W" else "label", re.sub(r"\s+", "_", cmd)),
                             "the proven parser reads %r (for %r) as %s" % (x[2:], cmd, a), {"command": cmd, "impl": x})
            continue
        if k == "P":
            a6 = cmd.split()[1] == "6"
            second = (G.a64_py_judge if a6 else G.py_judge)(cmd, x)          # independent python reader
            if a == "P ok" and second is None:
                parsed_ok += 1
                if x != y:
                    ck.violation("C20/correspondence/" + cmd[0], "text differs from the model's but parses back to the given operands (cosmetic): %r impl %r model %r" % (cmd, x, y),
                                 {"command": cmd, "impl": x, "model": y, "broken": "correspondence of Fmt model with /repo (text)"}, no_input=True)
                continue
            od = (G.a64_outside_domain if a6 else G.outside_domain)(cmd)
            # the domain of the round-trip theorems as the extracted, proven-sound decision procedure sees it (DomainCheck.inst_okb & co.): a mismatch
            # INSIDE it contradicts a theorem and is reported whatever python's own classification says
            coq_dom = "in" if a.endswith(" DOMAIN=in") else ("out" if a.endswith(" DOMAIN=out") else "?")
            dom_stat[coq_dom] = dom_stat.get(coq_dom, 0) + 1
            if od and coq_dom == "in":
                dom_stat["python_outside_but_coq_inside"] = dom_stat.get("python_outside_but_coq_inside", 0) + 1
                od = None
            if od:
                unsupported[od] = unsupported.get(od, 0) + 1
                if x != y:
                    # sharper search: do the two texts DENOTE different things for the independent reader? then the input is a concrete failing input even
                    # though it is outside the proven parsers' domain (e.g. a displacement printed wrongly under a non-architectural size)
                    rx_, ry_ = G.py_read(cmd, x[2:]), G.py_read(cmd, y[2:])
                    if rx_ is not None and ry_ is not None and rx_ != ry_:
                        ck.violation("C20/outside-domain-text/%s" % re.sub(r"\s+", "_", cmd)[:120], "%r (outside the parsers' domain: %s): AsmJit prints %r, the model %r; the independent "
                                     "reader reads them as %r and %r" % (cmd, od, x[2:], y[2:], rx_, ry_), {"command": cmd, "impl": x, "model": y})
                    else:
                        ck.violation("C20/correspondence/" + cmd[0], "text differs from the model's on an input outside the parser's domain: %r impl %r model %r" % (cmd, x, y),
                                     {"command": cmd, "impl": x, "model": y, "broken": "correspondence of Fmt model with /repo (text)"}, no_input=True)
                continue
            key = G.a64_violation_key(cmd) if a6 else G.violation_key(cmd, x)
            ck.violation(key, "AsmJit prints %r for %r; read back (Coq parser: %s; python reader: %s) this is not the given instruction/operand%s"
                         % (x[2:], cmd, a, second or "agrees with the input", "" if x != y else " [model prints the same text: model and parser disagree -> model defect]"),
                         {"command": cmd, "impl": x, "model": y}, no_input=(x == y and second is None))
        elif k == "F":
            lg = re.match(r"E (\d+) (\S+) ?(.*)$", x).group(3)
            if a[2:] != lg:
                # the column itself was already judged against the bytes; here only layout (padding, separators, comment)
                ck.violation("C20/log-line-layout", "logger line differs from finish_line model: %r impl %r model %r" % (cmd, lg, a[2:]),
                             {"command": cmd, "impl": x, "model": a, "broken": "correspondence finish_line / fmt_inst"},
                             no_input=G.line_reads_back(lg, a[2:]))
        elif k == "G":
            m = re.match(r"E (\d+) (\S+) ?(.*)$", x)
            lg = m.group(3)
            itext = re.split(r" *(;|\$)", lg, 1)[0]
            col = re.fullmatch(r"([^;]*); ([0-9A-F.]*)( *\| (.*))?", lg[:-1]).group(2)
            cm = G.e_comment(cmd)
            want = "G %s ## %s ## %s" % (itext, col, "" if cm == "-" else cm)
            if a != want:
                ck.violation("C20/log-line-split", "the proven line splitter reads %r as %r (expected %r)" % (lg, a, want), {"command": cmd, "impl": x})
        elif k == "C":
            hx = re.match(r"E (\d+) (\S+) ?(.*)$", x).group(2)
            want = G.column_expectation(hx, pc[2:])
            if a[2:].split() != want:
                ck.violation("C20/machine-code-column", "machine-code column %r of %r does not denote the appended bytes %s (parse_hexcol: %s)" % (pc[2:], cmd, hx, a[2:]),
                             {"command": cmd, "impl": x})

    for o in ck.proof_failures():
        ck.violation("C20/proof/" + o["name"], "theorem %s no longer checks (%s)" % (o["name"], getattr(ck, "coq_log", "")[-800:]),
                     {"broken": "theorem " + o["name"], "file": "coq/theories/Properties/Properties_C20.v"}, no_input=True)

    # coverage floor (DESIGN 4.1: a check whose supported share falls below the share recorded at claim time is a harness error, not a pass)
    floor = {"emitted x86-64": (e_arch.get("2", 0), 6000), "emitted aarch64": (e_arch.get("6", 0), 6000), "texts parsed back": (parsed_ok, 25000),
             "x86-64 mnemonics emitted": (len(mn_seen.get("2", ())), 1500), "aarch64 mnemonics emitted": (len(mn_seen.get("6", ())), 550)}
    low = {k: v for k, v in floor.items() if v[0] < v[1]}
    if low and not ck.violations and forms and forms64:
        raise RuntimeError("coverage fell below the recorded floor: %s" % low)
    samples = [{"cmd": c, "impl": x, "model": y} for c, x, y in (list(zip(par, ri, rm))[2:5] + list(zip(par, ri, rm))[len(par) // 2: len(par) // 2 + 3] + list(zip(ses, si, sm))[:3])]
    return ck.finish(
        "proof",
        {"evaluations": len(cmds) + len(phase2), "distinct_nontrivial": len(nontrivial),
         "rule": "commands T/N/O/X/E generated from VERIF_SEED (numbers: all bases/flags/widths at the 64-bit limits; operands: every x86 register type x "
                 "architectural and non-architectural ids, memory operands over size x segment x address type x base kind x index x scale x displacement "
                 "classes x broadcast, immediates, labels; lines: option prefixes, {k}{z}, {er}/{sae}, 0..6 operands; E: random instruction ids x operand "
                 "templates really emitted with a StringLogger); distinct_nontrivial counts distinct texts produced by the implementation",
         "samples": samples, "commands_by_kind": kinds, "emitted_ok": e_ok, "emitted_ok_by_arch": {"x86-64": e_arch.get("2", 0), "aarch64": e_arch.get("6", 0)}, "emitted_with_named_labels": named, "assembler_added_rex_option": rex_added, "assembler_added_short_option": short_added, "assembler_chose_unscaled_form": unscaled_renamed, "emit_refused_by_error": {str(k): v for k, v in sorted(e_err.items())},
         "texts_parsed_back_by_proven_parser": parsed_ok, "unsupported": unsupported, "mismatches_by_coq_domain_check": dom_stat,
         "proved_vs_compared": {
             "proved_for_all_inputs (Coq, closed under the global context)": [
                 "numbers: every 64-bit value x base 2/8/10/16 x all flags x every width; machine-code column: every byte list x rel x imm",
                 "x86 operands and whole lines, AArch64 operands and whole lines: every element of the stated domains (op_ok / inst_ok / a64_*_ok), every flag combination",
                 "register lists: every mask < 65536 (lifted from 4 exhaustive sweeps); named virtual registers: every environment satisfying env_ok",
                 "FuncNode: every value (x86, AArch64) and every whole line with at most one return value; logger options: every indentation and paddings; directive and label lines: every 32-bit id"],
             "proved_per_run_over_the_whole_domain (translator, regenerated from this tree)": [
                 "x86 register-name tables (every register type x every id the tables cover)", "InstId enum names (x86 injective, all ids) and the instdb name tables decoded for every id incl. aliases",
                 "AArch64 condition codes 0..17, shift/extend operators 0..17, data directive words of sizes 1/2/4/8 on x86-64 and AArch64"],
             "compared_on_generated_inputs (counts above; deterministic per VERIF_SEED)": [
                 "format_operand / format_instruction / format_node / format_data / format_label texts vs the extracted model", "StringLogger lines of really emitted instructions, directives, bound labels",
                 "error-handler messages of all refused instructions", "annotated Compiler output of whole functions (x86-64, AArch64)", "kShowAliases alias lists (python rule, not in the Coq model)"],
             "evidence_only_no_verdict": ["llvm-mc third reading of x86 Intel lines", "python ABI tables vs FuncDetail (C06's subject)"]},
         "func_node_abi_cross_check": {"signatures_with_python_abi_table": abi_checked, "assignment_differs_from_table": abi_disagree,
                                       "note": "evidence only: the argument assignment is property C06's subject; here the text has to denote the FuncDetail"},
         "traces_validated_against_impl": len(cmds), "model_vs_impl_disagreements": disagreements,
         "coverage_floor": {k: {"measured": v[0], "floor": v[1]} for k, v in floor.items()}, "cosmetic_flags_compared": cos_stat, "logger_options_compared": lo_stat, "whole_logs_read_back": tr_stat, "refused_instruction_messages": fm_stat, "annotated_compiler_functions": ka_stat, "assembler_directive_lines": dd_stat, "llvm_mc_third_reading": llvm, "isa_db_forms": len(forms or []), "a64_isa_db_forms": len(forms64 or []), "emitted_distinct_mnemonics": {"x86-64": len(mn_seen.get("2", ())), "aarch64": len(mn_seen.get("6", ()))}, "instruction_names": len(isa), "a64_instruction_names": len(isa64)},
        assumptions=["the C++ harness calls the real functions of /repo's working tree (Formatter::format_operand/format_instruction, String::append_uint, "
                     "x86::Assembler::_emit with a StringLogger; reg_format_info via #include of x86formatter.cpp)",
                     "theorems are about the Gallina model; the model is tied to the code by the table translator and the text differential of this check",
                     "register names in X86FmtModel.v were written by hand from the Intel SDM / APX / AMX documents; mnemonics come from the InstId enum comments of x86globals.h",
                     "FormatFlags kShowAliases / kExplainImms / kRegCasts / kRegType / kPositions are not exercised (cosmetic or Compiler-only)"],
        checker_cmd="coqc (Coq 8.16.1) -Q coq/theories Verif -Q coq/gen VerifGen coq/theories/Properties/Properties_C20.v  [full .vo build of its dependencies]",
        trusted_base=["Coq 8.16.1 kernel incl. vm_compute (no native_compute)", "no axioms: every theorem 'Closed under the global context'",
                      "extraction (ExtrOcamlBasic only) + OCaml 4.13.1 + zarith glue in ml/zconv.ml; ml/c20_driver.ml (command decoding, ascii conversion)",
                      "harness/c20_harness.cpp, tools/checks/c20.py, tools/c20_gen.py (generator, table translator, differ, python reader)"])

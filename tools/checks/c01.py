"""C01 -- x86/x64 assembler emits a correct encoding of every instruction it accepts.

S1 translate : db/isa_x86.json (expanded by /repo/db/index.js) -> coq/gen/IsaX86Db.v, re-checked by coqc when it changed
S2 theorems  : coq/theories/Properties/Properties_C01.v
S3 tie       : harness/c01_harness.cpp drives the real x86::Assembler::_emit (strict validation on, 32- and 64-bit) with
               calls generated from the database rows x register / memory / immediate / decoration strata; every accepted
               call is judged by the extracted Coq `judge` (structural decoder + database matcher + inverse operand map):
               the appended bytes must denote exactly that instruction with exactly those operands and exactly that length
S4 search    : llvm-mc --disassemble (Intel syntax) is run on EVERY accepted encoding as the independent oracle: it must
               decode exactly the appended bytes as one instruction with the same registers / displacement / immediate /
               decorations; it also validates the Coq decoder (decoder and llvm-mc must agree where llvm-mc knows the form)
"""
import json
import os
import random
import re
from concurrent.futures import ThreadPoolExecutor

import vlib
import c01_db

# ------------------------------------------------------------------ names of registers (Intel syntax, llvm-mc)
GP64 = ["rax", "rcx", "rdx", "rbx", "rsp", "rbp", "rsi", "rdi"] + ["r%d" % i for i in range(8, 16)]
GP32 = ["eax", "ecx", "edx", "ebx", "esp", "ebp", "esi", "edi"] + ["r%dd" % i for i in range(8, 16)]
GP16 = ["ax", "cx", "dx", "bx", "sp", "bp", "si", "di"] + ["r%dw" % i for i in range(8, 16)]
GP8 = ["al", "cl", "dl", "bl", "spl", "bpl", "sil", "dil"] + ["r%db" % i for i in range(8, 16)]
GP8H = ["ah", "ch", "dh", "bh"]
SREG = ["?", "es", "cs", "ss", "ds", "fs", "gs"]


def reg_name(cls, i):
    if cls == 1: return GP8[i]
    if cls == 16: return GP8H[i]
    if cls == 2: return GP16[i]
    if cls == 3: return GP32[i]
    if cls == 4: return GP64[i]
    if cls == 5: return "mm%d" % i
    if cls == 6: return "xmm%d" % i
    if cls == 7: return "ymm%d" % i
    if cls == 8: return "zmm%d" % i
    if cls == 9: return "k%d" % i
    if cls == 10: return SREG[i] if 0 <= i < 7 else "sreg%d" % i
    if cls == 11: return "cr%d" % i
    if cls == 12: return "dr%d" % i
    if cls == 13: return "st(%d)" % i
    if cls == 14: return "bnd%d" % i
    if cls == 15: return "tmm%d" % i
    if cls == 20: return "rip"
    return "?%d.%d" % (cls, i)


REG_RE = re.compile(r"\b(r(?:1[0-5]|[89])[dwb]?|[re]?(?:ax|cx|dx|bx|sp|bp|si|di)|[abcd][lh]|(?:sp|bp|si|di)l|[xyz]mm(?:3[01]|[12]?\d)|"
                    r"mm[0-7]|k[0-7]|[c-gs]s|[cd]r(?:1[0-5]|\d)|bnd[0-3]|tmm[0-7]|rip|eip|st\(\d\))\b")

# ------------------------------------------------------------------ strata
BASE_ADDR = 0x7F0000000000
OPT = {"modmr": 0x100, "modrm": 0x200, "vex3": 0x400, "vex": 0x800, "evex": 0x1000, "lock": 0x2000, "rep": 0x4000, "repne": 0x8000,
       "xacquire": 0x10000, "xrelease": 0x20000, "er": 0x40000, "sae": 0x80000, "z": 0x800000, "rex": 0x40000000}


def reg_ids(cls, mode, kind, rng, full):
    """Register id strata of a class."""
    if cls in (1, 2, 3, 4):
        ids = [0, 1, 3, 4, 5, 7, 8, 12, 13, 15] if mode == 64 else [0, 1, 3, 4, 5, 7]
    elif cls in (6, 7, 8):
        ids = ([0, 1, 7, 8, 15, 16, 23, 24, 31] if kind == 3 else [0, 1, 7, 8, 15]) if mode == 64 else [0, 1, 5, 7]
    elif cls in (5, 9, 13, 15):
        ids = [0, 1, 2, 5, 7]
    elif cls == 10:
        ids = [1, 2, 3, 4, 5, 6]
    elif cls in (11, 12):
        ids = [0, 2, 3, 4, 7] + ([8] if mode == 64 else [])
    elif cls == 14:
        ids = [0, 1, 3]
    elif cls == 16:
        ids = [0, 1, 2, 3]
    else:
        ids = [0]
    return ids


DISP_BASE = [0, 1, -1, 127, 128, -128, -129, 255, 256, 0x7FFFFFFF, -0x80000000, 0x12345678]


def disp_strata(n):
    out = list(DISP_BASE)
    for k in sorted(set([n, 2, 4, 8, 16, 32, 64])):
        out += [k * 127, k * 128, -k * 128, -k * 129, k * 127 + 1, k * 5]
    return out


class Gen:
    def __init__(self, rows, rng, tier):
        self.rows = rows
        self.rng = rng
        self.tier = tier
        self.want_base = None

    def mem(self, row, d, mode, strat, compress=False):
        """A memory operand for opspec d. Returns token list + description dict."""
        rng = self.rng
        vs = row["vsib"]
        n = row["msz"] or 1
        if d["slot"] == 8:
            # absolute offset form (mov accumulator <-> moffs)
            seg = rng.choice([0, 0, 5, 6, 2])
            if mode == 64:
                disp = rng.choice([0, 1, 0x7FFFFFFF, 0x80000000, 0xFFFFFFFF, 0x123456789ABC, 0x7FFFFFFFFFFFFFFF, -1, -0x80000000, 0x100000000])
            else:
                disp = rng.choice([0, 1, 0x7FFFFFFF, 0x80000000, 0xFFFFFFFF, -1, 0x12345678])
            return ["M", d["msz"], seg, 0, 0, 0, 0, 0, disp, 0, 1 if mode == 64 else rng.choice([0, 1])]
        if d["slot"] == 13:
            # umonitor: [ds: register in ModRM.rm of the register form]; 67 selects the other address size, a segment override applies
            acls13 = (3 if strat == "a32" else 4) if mode == 64 else (2 if strat == "a16" else 3)
            return ["M", d["msz"], rng.choice([0, 0, 5, 6, 2]), acls13, rng.choice([0, 1, 3, 4, 5, 7] + ([8, 12, 13, 15] if mode == 64 else [])), 0, 0, 0, 0, 0, 0]
        if d["slot"] == 11:
            # destination of enqcmd / movdir64b: [es: register in ModRM.reg], same address size as the other memory operand
            acls11 = (3 if strat == "a32" else 4) if mode == 64 else 3
            return ["M", d["msz"], 0, acls11, rng.choice([0, 1, 3, 5, 7] + ([8, 13, 15] if mode == 64 else [])), 0, 0, 0, 0, 0, 0]
        if d["slot"] == 9:
            # memory addressed by a fixed register (string instructions, maskmovdqu, monitor)
            acls9 = (3 if strat == "a32" else 4) if mode == 64 else (2 if strat == "a16" else 3)
            seg = rng.choice([0, 0, 1, 2, 3, 5, 6]) if d["immval"] == 1 else 0
            if d["implicit"]:
                # maskmovdqu / monitor / clzero: the operand is implied by the opcode; an explicitly passed one is only checked
                # for its default form (the encoder ignores it)
                acls9, seg = (4 if mode == 64 else 3), 0
            return ["M", d["msz"], seg, acls9, d["fixed"], 0, 0, 0, 0, 0, 0]
        a16 = (mode == 32 and strat == "a16" and not vs)
        a32in64 = (mode == 64 and strat == "a32")
        acls = 2 if a16 else (3 if (mode == 32 or a32in64) else 4)
        seg = rng.choice([0, 0, 0, 1, 2, 3, 4, 5, 6])
        disp = rng.choice(disp_strata(n))
        if compress:
            # the disp8*N stratum: a displacement that is a small multiple of the memory operand / broadcast element size, so that
            # the compressed form is the one emitted (a wrong scale in either direction is then visible)
            nn = (row["bcst"] if (row["bcst"] and strat == "bcst") else n)
            disp = nn * rng.choice([1, -1, 2, 3, 127, -128, 64, -64])
        bc = 0
        if a16:
            form = rng.choice([(3, 6), (3, 7), (5, 6), (5, 7), (6, None), (7, None), (5, None), (3, None), (None, None), (6, 3), (7, 5)])
            b, i = form
            disp = rng.choice([0, 1, -1, 127, 128, -128, -129, 0x7FFF, -0x8000, 0x1234])
            bcls, bid = (2, b) if b is not None else (0, 0)
            icls, iid = (2, i) if i is not None else (0, 0)
            shift = 0
            at = 0
        else:
            gp = [0, 4, 5, 12, 13, 15, 3] if mode == 64 else [0, 4, 5, 3, 6]
            kindb = rng.choice(["reg"] * 6 + ["none", "rip"])
            if vs:
                kindb = rng.choice(["reg"] * 5 + ["none"])
            if kindb == "rip" and (mode == 32 or a32in64):
                kindb = "reg"
            if kindb == "reg":
                bcls, bid = acls, rng.choice(gp)
            elif kindb == "rip":
                bcls, bid = 20, 0
            else:
                bcls, bid = 0, 0
            if vs:
                vid = [0, 4, 7, 8, 15, 17, 31] if (mode == 64 and row["kind"] == 3) else ([0, 4, 7, 8, 15] if mode == 64 else [0, 4, 7])
                icls, iid = vs, rng.choice(vid)
                shift = rng.choice([0, 1, 2, 3])
            elif kindb != "rip" and rng.random() < 0.45:
                icls, iid = acls, rng.choice([1, 9, 15, 0, 5, 13] if mode == 64 else [1, 0, 5, 7])
                shift = rng.choice([0, 1, 2, 3])
            else:
                icls, iid, shift = 0, 0, 0
            at = 0
            if bcls == 0 and icls == 0:
                at = 1      # absolute
                if mode == 64 and rng.random() < 0.35:
                    # CodeHolder with a KNOWN base address: the assembler chooses RIP-relative vs absolute itself (default address
                    # type) or is asked for RIP-relative; both encodings of the same address are correct
                    self.want_base = BASE_ADDR
                    at = rng.choice([0, 0, 2])
                    disp = rng.choice([BASE_ADDR, BASE_ADDR + 100, BASE_ADDR - 100, BASE_ADDR + 0x7FFFFF00, BASE_ADDR - 0x7FFFFF00,
                                       BASE_ADDR + 0x80000100, BASE_ADDR - 0x80000100, 0x1000, 0x7FFFFFFF, 0x80000000, 0xFFFFFFF0, -1, -0x80000000,
                                       BASE_ADDR + rng.randrange(-0x7FFF0000, 0x7FFF0000)])
                elif mode == 64:
                    disp = rng.choice([0, 1, -1, 0x7FFFFFFF, -0x80000000, 0x12345678, 0x80000000, 0xFFFFFFFF, 0xABCD1234])
                else:
                    disp = rng.choice([0, 1, -1, 0x7FFFFFFF, -0x80000000, 0x12345678, 0x80000000, 0xFFFFFFFF])
                if mode == 32:
                    at = rng.choice([0, 1])
        msz = d["msz"]
        if row["bcst"] and strat == "bcst":
            import math
            vl = {0: 16, 1: 32, 2: 64, 3: 16}[row["l"]]
            cnt = vl // row["bcst"]
            bc = {1: 0, 2: 1, 4: 2, 8: 3, 16: 4, 32: 5, 64: 6}.get(cnt, 0)
            if bc:
                msz = row["bcst"]
        toks = ["M", msz, seg, bcls, bid, icls, iid, shift, disp, bc, at]
        return toks


def imm_strata(bits, sign, rng):
    lo, hi = -(1 << (bits - 1)), (1 << bits) - 1
    pts = [0, 1, lo, (1 << (bits - 1)) - 1, -1, hi, (1 << (bits - 1)), rng.randrange(lo, hi + 1), rng.randrange(0, 1 << (bits - 1))]
    if bits <= 32:
        pts += [rng.randrange(-(1 << 31), 1 << 32)]
    return pts


def build_calls(rows, rng, tier, per_row):
    """Generate calls. Each call: dict(mode, row, toks (harness line), judge prefix, desc)."""
    g = Gen(rows, rng, tier)
    calls = []
    # mnemonics that have both a load-style (RM) and a store-style (MR) form with a register-or-memory r/m operand: only these
    # have two encodings of the register form for the mod-mr / mod-rm options to choose from
    def rm_kind2(r, enc):
        return (not r["unsupported"]) and r["src"]["encoding"].replace("_", "") == enc and any(d["slot"] == 2 and d["kind"] == 2 for d in r["ops"])
    both = set(r["name"] for r in rows if rm_kind2(r, "RM")) & set(r["name"] for r in rows if rm_kind2(r, "MR"))
    for row in rows:
        if row["unsupported"]:
            continue
        modes = [32, 64]
        if row["arch"] == 1: modes = [32]
        if row["arch"] == 2: modes = [64]
        has_rm = any(d["kind"] == 2 for d in row["ops"])
        has_mem = any(d["kind"] in (1, 2) for d in row["ops"])
        lockable = "lock" in row["src"]["prefixes"]
        for mode in modes:
            for v in range(per_row):
                # choose reg-form or mem-form for r/m operands, a memory stratum, decorations
                memform = (v % 2 == 1) if has_rm else True
                strat = "plain"
                if has_mem and memform:
                    strat = rng.choice(["plain", "plain", "plain", "a32" if mode == 64 else "a16", "bcst" if row["bcst"] else "plain"])
                    if row["bcst"] and v % 4 == 3:
                        strat = "bcst"
                ops = []
                ok = True
                for d in row["ops"]:
                    if d["slot"] == 10:
                        ops.append(["L", rng.choice([0, 1, 2, 100, 120, 123, 124, 125, 126, 127, 128, 129, 130, 200, 1000, 32700, 40000])])
                    elif d["kind"] == 3:
                        if d["immval"] >= 0:
                            ops.append(["I", d["immval"]])
                        elif d["immbits"] == 4:
                            ops.append(["I", rng.randrange(0, 16)])
                        else:
                            ops.append(["I", rng.choice(imm_strata(d["immbits"], d["immsign"], rng))])
                    elif d["kind"] == 0 or (d["kind"] == 2 and not memform):
                        cls = d["cls"]
                        if d["fixed"] >= 0:
                            ops.append(["R", cls, d["fixed"]])
                        else:
                            ids = reg_ids(cls, mode, row["kind"], rng, tier == "thorough")
                            i = rng.choice(ids)
                            if cls == 1 and rng.random() < 0.2:
                                ops.append(["R", 16, rng.randrange(4)])
                            else:
                                ops.append(["R", cls, i])
                    else:
                        ops.append(g.mem(row, d, mode, strat, compress=(v % 4 == 1 or (v % 4 == 3 and strat == "bcst"))))
                for k12, d in enumerate(row["ops"]):
                    if d["slot"] == 12 and k12 > 0 and ops[k12 - 1][0] == "R":
                        ops[k12 - 1][2] = rng.choice([0, 2, 4, 6])
                        ops[k12] = ["R", d["cls"], ops[k12 - 1][2] + 1]
                if any(d["slot"] == 11 for d in row["ops"]) and strat == "a16":
                    strat = "plain"
                opt = 0
                deco = {"lock": 0, "f2": 0, "f3": 0, "k": 0, "z": 0, "rc": -1}
                extra = "-"
                if row["kind"] == 3:
                    if row["k"] and rng.random() < 0.6:
                        deco["k"] = rng.choice([1, 2, 7, 3, 5, 1, 2, 7, 3, 5, 1, 2, 7, 3, 5, 8, 9, 15])
                        extra = "9:%d" % deco["k"]
                        if row["z"] and rng.random() < 0.5:
                            deco["z"] = 1
                            opt |= OPT["z"]
                    regform = not (has_mem and memform)
                    # embedded rounding / SAE exist for 512-bit and scalar (LIG) forms; on other forms and {sae} alone on an
                    # {er} instruction they are invalid requests, probed rarely
                    pv = 1.0 if row["l"] in (2, 3) else 0.04
                    if regform and row["er"] and rng.random() < 0.5 * pv:
                        rc = rng.randrange(4)
                        opt |= OPT["er"] | (rc << 21)
                        deco["rc"] = rc
                    elif regform and row["sae"] and rng.random() < (0.03 if row["er"] else 0.4) * pv:
                        opt |= OPT["sae"]
                        deco["rc"] = 4
                if row["kind"] == 1 and rng.random() < 0.15:
                    opt |= OPT["vex3"]
                elif row["kind"] == 1 and rng.random() < 0.08:
                    opt |= OPT["evex"]
                if row["kind"] == 0 and mode == 64 and rng.random() < 0.1:
                    opt |= OPT["rex"]
                if any(d["slot"] == 10 for d in row["ops"]) and rng.random() < 0.3:
                    opt |= rng.choice([0x10, 0x20])        # short / long form
                if row["name"] in both and rng.random() < 0.15:
                    opt |= rng.choice([OPT["modmr"], OPT["modrm"]])
                if lockable and has_mem and memform and row["ops"] and row["ops"][0]["kind"] in (1, 2) and rng.random() < 0.5:
                    opt |= OPT["lock"]
                    deco["lock"] = 1
                    r = rng.random()
                    if r < 0.2 and "xacquire" in row["src"]["prefixes"]:
                        opt |= OPT["xacquire"]; deco["f2"] = 1
                    elif r < 0.4 and "xrelease" in row["src"]["prefixes"]:
                        opt |= OPT["xrelease"]; deco["f3"] = 1
                if "rep" in row["src"]["prefixes"] and any(d["slot"] == 9 for d in row["ops"]) and rng.random() < 0.35:
                    if "repne" in row["src"]["prefixes"] and rng.random() < 0.5:
                        opt |= OPT["repne"]; deco["f2"] = 1
                    else:
                        opt |= OPT["rep"]; deco["f3"] = 1
                variants = [ops]
                if any(d["implicit"] for d in row["ops"]):
                    variants.append([o for o, d in zip(ops, row["ops"]) if not d["implicit"]])
                base = g.want_base
                g.want_base = None
                for vi, vops in enumerate(variants):
                    if len(vops) > 6:
                        continue
                    if row["name"] in ("ret", "retf") and any(o[0] == "I" and o[1] == 0 for o in vops):
                        continue    # ret 0 is canonically the plain ret (C3 / CB)
                    if row["name"] == "lea" and mode == 64 and any(o[0] == "M" and o[3] == 0 and o[5] == 0 and o[8] >= (1 << 31) for o in vops):
                        continue    # lea r64, [uint32 absolute]: AsmJit documents the equivalent lea r32 form (REX.W dropped)
                    if row["name"] == "xchg" and len(vops) == 2 and all(o[0] == "R" and o[1] in (2, 3, 4) and o[2] == 0 for o in vops):
                        continue    # xchg eax/rax with itself is canonically NOP (90): not a form of xchg under any decoder
                    calls.append({"mode": mode, "base": base, "row": row["id"], "name": row["name"], "opt": opt, "extra": extra, "ops": vops, "deco": deco,
                                  "strat": strat + ("/impl" if vi == 0 and len(variants) > 1 else ""), "memform": bool(has_mem and memform)})
    # cross-mode: the first two calls of every row restricted to one mode are also issued in the OTHER mode, where they must be refused
    # or be encoded as what that mode's rows say (vmload eax in 64-bit mode must not become vmload rax)
    arch_of = {r["id"]: r.get("arch", 0) for r in rows}
    seen_x = {}
    cross = []
    for c in calls:
        if c["mode"] == 64 and any(o[0] == "M" and o[3] == 20 for o in c["ops"]):
            continue    # [rip+d] in 32-bit mode is emulated by AsmJit with an absolute address and a relocation (EmitModSib_LabelRip_X86)
        if arch_of.get(c["row"]) in (1, 2) and seen_x.get(c["row"], 0) < 2 and not c.get("base"):
            seen_x[c["row"]] = seen_x.get(c["row"], 0) + 1
            c2 = dict(c); c2["mode"] = 64 if c["mode"] == 32 else 32; c2["strat"] = "cross-mode"; c2["deco"] = dict(c["deco"])
            cross.append(c2)
    calls += cross
    calls += pinned_calls(rows)
    # one-shot state: ~6 % of the calls are issued right after a REFUSED instruction that carried lock+rep options and {k3}, in a
    # CodeHolder whose error handler does not return (longjmp): nothing of that state may leak into the call
    for c in calls:
        if not c.get("base") and rng.random() < 0.06:
            c["eh"] = True
            c["strat"] += "/after-refused"
    return calls


def pinned_calls(rows):
    """Deterministic strata walked for EVERY row (not sampled): (1) each memory operand with base rbp / r13 / rsp / r12 (ebp / esp in
    32-bit mode), NO index and displacement exactly 0 -- the mod=00 special cases (rm=101 means disp32, SIB base=101 means no base),
    also for the rows that always emit a SIB byte (AMX tile memory) -- and with a displacement of 1; (2) each 8-bit register operand as
    SPL / BPL / SIL / DIL (and AH..BH) while NOTHING else in the instruction needs a REX prefix (all other registers 0..3, low base
    register, no options)."""
    out = []
    d0 = {"lock": 0, "f2": 0, "f3": 0, "k": 0, "z": 0, "rc": -1}
    for row in rows:
        if row["unsupported"]:
            continue
        modes = [32, 64]
        if row["arch"] == 1: modes = [32]
        if row["arch"] == 2: modes = [64]
        mem_idx = [k for k, d in enumerate(row["ops"]) if d["kind"] in (1, 2) and d["slot"] == 2]
        r8_idx = [k for k, d in enumerate(row["ops"]) if d["cls"] == 1 and d["fixed"] < 0 and d["kind"] in (0, 2)]

        def low_ops(mode, memk=None, base=None, disp=0, r8k=None, r8=None):
            ops = []
            for k, d in enumerate(row["ops"]):
                if d["slot"] == 10:
                    ops.append(["L", 10])
                elif d["kind"] == 3:
                    ops.append(["I", d["immval"] if d["immval"] >= 0 else 1])
                elif k == r8k:
                    ops.append(["R", r8[0], r8[1]])
                elif d["slot"] == 9 or d["slot"] == 8:
                    return None
                elif d["kind"] == 0 or (d["kind"] == 2 and k != memk):
                    if d["fixed"] >= 0:
                        ops.append(["R", d["cls"], d["fixed"]])
                    else:
                        ops.append(["R", d["cls"], {10: 1}.get(d["cls"], 1 if d["cls"] == 9 else (k % 3) + 1 if d["cls"] not in (14,) else 1)])
                else:
                    acls = 4 if mode == 64 else 3
                    b = base if k == memk else 0
                    vs = row["vsib"]
                    icls, iid = (vs, 2) if vs else (0, 0)
                    ops.append(["M", d["msz"], 0, acls, b, icls, iid, 0, disp if k == memk else 0, 0, 0])
            return ops
        for mode in modes:
            for mk in mem_idx:
                for base in ([5, 13, 4, 12] if mode == 64 else [5, 4]):
                    for disp in (0, 1):
                        ops = low_ops(mode, memk=mk, base=base, disp=disp)
                        if ops is None or len(ops) > 6:
                            continue
                        extra = "-"
                        deco = dict(d0)
                        if row["vsib"] and row["kind"] == 3:
                            extra = "9:1"; deco["k"] = 1      # EVEX gather / scatter need a mask
                        for vops in ([ops] + ([[o for o, d in zip(ops, row["ops"]) if not d["implicit"]]] if any(d["implicit"] for d in row["ops"]) else [])):
                            out.append({"mode": mode, "base": None, "row": row["id"], "name": row["name"], "opt": 0, "extra": extra, "ops": vops, "deco": deco,
                                        "strat": "pinned-base%d-disp%d" % (base, disp), "memform": True})
            # (1b) round 5: the case-split boundaries of the proofs (X86Proofs.dec_disp_enc / dec_disp16_enc / adm's choice of mod; the
            # immediate matcher), walked for EVERY row in its widest mode: displacements N*127 / N*128 / -N*128 / -N*129 (last and
            # first value of the disp8*N and disp32 forms), N*127+1 and N-1 (not a multiple of N: disp32 resp. no compression), N
            # the memory operand size of EVEX rows and 1 otherwise; immediates at 2^(b-1)-1, 2^(b-1), -2^(b-1), 2^b-1, -1, 0
            if mode == modes[-1]:
                nn = (row["msz"] or 1) if row["kind"] == 3 else 1
                for mk in mem_idx[:1]:
                    for disp in [nn * 127, nn * 128, -nn * 128, -nn * 129] + ([nn * 127 + 1, nn - 1] if nn > 1 else []):
                        ops = low_ops(mode, memk=mk, base=1, disp=disp)
                        if ops is None or len(ops) > 6:
                            continue
                        extra = "-"
                        deco = dict(d0)
                        if row["vsib"] and row["kind"] == 3:
                            extra = "9:1"; deco["k"] = 1
                        out.append({"mode": mode, "base": None, "row": row["id"], "name": row["name"], "opt": 0, "extra": extra,
                                    "ops": [o for o, d in zip(ops, row["ops"]) if not d["implicit"]], "deco": deco,
                                    "strat": "pinned-disp-boundary", "memform": True})
                for ik, di in enumerate(row["ops"]):
                    if di["slot"] == 6 and di.get("immbits", 0) in (8, 16, 32):
                        b_ = di["immbits"]
                        for val in (2 ** (b_ - 1) - 1, 2 ** (b_ - 1), -2 ** (b_ - 1), 2 ** b_ - 1, -1, 0):
                            ops = low_ops(mode, memk=None, base=1, disp=0)
                            if ops is None or len(ops) > 6:
                                continue
                            if val == 0 and row["name"] in ("ret", "retf"):
                                continue    # ret 0 is canonically the plain ret (C3 / CB)
                            ops = [list(o) for o in ops]
                            ops[ik] = ["I", val]
                            out.append({"mode": mode, "base": None, "row": row["id"], "name": row["name"], "opt": 0, "extra": "-",
                                        "ops": [o for o, d in zip(ops, row["ops"]) if not d["implicit"]], "deco": dict(d0),
                                        "strat": "pinned-imm-boundary", "memform": False})
            # (1c) round 5: EVEX rows, 64-bit mode -- each extension bit on its own: every vector / mask-capable register operand as
            # id 16 and 31 (R' / V' / X as the high bit of ModRM.reg / vvvv / ModRM.rm), the VSIB index as 16 and 31, {k7}, {k1}{z},
            # every rounding mode of {er} rows and {sae}; everything else low
            if mode == 64 and row["kind"] == 3:
                vec_idx = [k for k, d in enumerate(row["ops"]) if d["kind"] in (0, 2) and d["cls"] in (6, 7, 8) and d["fixed"] < 0]
                variants = []
                for memk in ([None] if not mem_idx or any(row["ops"][k]["kind"] == 2 for k in mem_idx) else []) + mem_idx[:1]:
                    base_ops = low_ops(64, memk=memk, base=1, disp=0)
                    if base_ops is None or len(base_ops) > 6:
                        continue
                    isreg = memk is None
                    for vk in vec_idx:
                        if vk == memk:
                            continue
                        for hid in (16, 31):
                            o2 = [list(o) for o in base_ops]; o2[vk] = ["R", row["ops"][vk]["cls"], hid]
                            variants.append((o2, {}, "hi%d" % hid, not isreg))
                    if row["vsib"] and memk is not None:
                        for hid in (16, 31):
                            o2 = [list(o) for o in base_ops]; o2[memk][6] = hid
                            variants.append((o2, {}, "vsib%d" % hid, True))
                    if row["k"]:
                        variants.append(([list(o) for o in base_ops], {"k": 7}, "k7", not isreg))
                        if row["z"] and not (memk is not None and memk == 0):
                            variants.append(([list(o) for o in base_ops], {"k": 1, "z": 1}, "k1z", not isreg))
                    if isreg and (row["er"] or row["sae"]) and row["l"] in (2, 3):
                        for rc in ((0, 1, 2, 3) if row["er"] else (4,)):
                            variants.append(([list(o) for o in base_ops], {"rc": rc}, "rc%d" % rc, False))
                for o2, dd, tag, mf in variants:
                    deco = dict(d0); deco.update(dd)
                    extra = "-"
                    if row["vsib"] and not deco["k"]:
                        deco["k"] = 1
                    if deco["k"]:
                        extra = "9:%d" % deco["k"]
                    opt = (OPT["z"] if deco["z"] else 0)
                    if deco["rc"] >= 0:
                        opt |= OPT["sae"] if deco["rc"] == 4 else (OPT["er"] | (deco["rc"] << 21))
                    out.append({"mode": 64, "base": None, "row": row["id"], "name": row["name"], "opt": opt, "extra": extra,
                                "ops": [o for o, d in zip(o2, row["ops"]) if not d["implicit"]], "deco": deco, "strat": "pinned-evex-" + tag, "memform": mf})
            # (1g) round 5: branch displacements at the rel8 / rel32 (rel16) boundary: a label bound 120 .. 131 and 32760 .. 32770 bytes
            # in front of the instruction, without and with the short / long form options
            if any(d["slot"] == 10 for d in row["ops"]):
                for delta in list(range(120, 132)) + list(range(32760, 32771)):
                    for fo in (0, 0x10, 0x20):
                        o2 = low_ops(mode, memk=None, base=1, disp=0)
                        if o2 is None or len(o2) > 6:
                            continue
                        o2 = [["L", delta] if o[0] == "L" else list(o) for o in o2]
                        out.append({"mode": mode, "base": None, "row": row["id"], "name": row["name"], "opt": fo, "extra": "-",
                                    "ops": [o for o, d in zip(o2, row["ops"]) if not d["implicit"]], "deco": dict(d0), "strat": "pinned-rel-boundary", "memform": False})
            # (1f) round 5: encoding options, once per row in its widest mode: {vex3} and {evex} on VEX rows, {rex} on legacy rows,
            # lock on the memory form of lockable rows and on their register form (which must be refused or still be correct)
            if mode == modes[-1]:
                lockable_ = "lock" in row["src"]["prefixes"] and row["ops"] and row["ops"][0]["kind"] in (1, 2)
                optv = []
                if row["kind"] == 1:
                    optv += [(OPT["vex3"], {}, "vex3", None), (OPT["evex"], {}, "evex", None)]
                if row["kind"] == 0 and mode == 64:
                    optv += [(OPT["rex"], {}, "rex", None)]
                if lockable_ and mem_idx and mem_idx[0] == 0:
                    optv += [(OPT["lock"], {"lock": 1}, "lock-mem", 0)]
                    if row["ops"][0]["kind"] == 2:
                        optv += [(OPT["lock"], {"lock": 1}, "lock-reg", None)]
                for ov, dd, tag, mk_ in optv:
                    mk2 = mk_ if mk_ is not None else (None if (not mem_idx or any(row["ops"][k]["kind"] == 2 for k in mem_idx)) else mem_idx[0])
                    if tag in ("vex3", "evex", "rex") and mem_idx and mk2 is None and all(row["ops"][k]["kind"] == 1 for k in mem_idx):
                        mk2 = mem_idx[0]
                    o2 = low_ops(mode, memk=mk2, base=1, disp=0)
                    if o2 is None or len(o2) > 6:
                        continue
                    deco = dict(d0); deco.update(dd)
                    extra = "-"
                    if row["vsib"] and row["kind"] == 3:
                        extra = "9:1"; deco["k"] = 1
                    out.append({"mode": mode, "base": None, "row": row["id"], "name": row["name"], "opt": ov, "extra": extra,
                                "ops": [o for o, d in zip(o2, row["ops"]) if not d["implicit"]], "deco": deco, "strat": "pinned-opt-" + tag,
                                "memform": mk2 is not None})
            # (1e) round 5: every row with a ModRM memory operand, 32-bit mode -- all nine 16-bit addressing forms with displacement 0
            # (the table of mod16 rm codes; [bp] needs a disp8 of 0) and [bp+1], [disp16]
            if mode == 32 and mem_idx and not row["vsib"] and not row["src"].get("tsib"):
                mk = mem_idx[0]
                for b16, i16, dsp in [(3, 6, 0), (3, 7, 0), (5, 6, 0), (5, 7, 0), (6, None, 0), (7, None, 0), (5, None, 0), (3, None, 0), (5, None, 1), (None, None, 0x1234)]:
                    o2 = low_ops(32, memk=mk, base=1, disp=dsp)
                    if o2 is None or len(o2) > 6:
                        continue
                    o2 = [list(o) for o in o2]
                    m_ = o2[mk]
                    m_[3], m_[4] = (2, b16) if b16 is not None else (0, 0)
                    m_[5], m_[6] = (2, i16) if i16 is not None else (0, 0)
                    out.append({"mode": 32, "base": None, "row": row["id"], "name": row["name"], "opt": 0, "extra": "-",
                                "ops": [o for o, d in zip(o2, row["ops"]) if not d["implicit"]], "deco": dict(d0), "strat": "pinned-a16", "memform": True})
            # (1d) round 5: every row, 64-bit mode -- REX / VEX / EVEX extension bits R, X, B (and vvvv bit 3) each on its own: every
            # general-purpose / vector / control / debug register operand as id 8 and 15, the index register as 8 and 15, the base as 8
            if mode == 64:
                ext_idx = [k for k, d in enumerate(row["ops"]) if d["kind"] in (0, 2) and d["cls"] in (1, 2, 3, 4, 6, 7, 8, 11, 12) and d["fixed"] < 0]
                for memk in ([None] if not mem_idx or any(row["ops"][k]["kind"] == 2 for k in mem_idx) else []) + mem_idx[:1]:
                    base_ops = low_ops(64, memk=memk, base=1, disp=0)
                    if base_ops is None or len(base_ops) > 6:
                        continue
                    vs_ = []
                    for vk in ext_idx:
                        if vk != memk:
                            for hid in (8, 15):
                                o2 = [list(o) for o in base_ops]; o2[vk] = ["R", row["ops"][vk]["cls"], hid]
                                vs_.append((o2, "reg%d" % hid))
                    if memk is not None:
                        o2 = [list(o) for o in base_ops]; o2[memk][4] = 8
                        vs_.append((o2, "base8"))
                        if not row["vsib"] and not row["src"].get("tsib") is None:
                            for hid in (8, 15):
                                o2 = [list(o) for o in base_ops]; o2[memk][5] = 4; o2[memk][6] = hid
                                vs_.append((o2, "index%d" % hid))
                    for o2, tag in vs_:
                        extra = "-"
                        deco = dict(d0)
                        if row["vsib"] and row["kind"] == 3:
                            extra = "9:1"; deco["k"] = 1
                        out.append({"mode": 64, "base": None, "row": row["id"], "name": row["name"], "opt": 0, "extra": extra,
                                    "ops": [o for o, d in zip(o2, row["ops"]) if not d["implicit"]], "deco": deco, "strat": "pinned-ext-" + tag,
                                    "memform": memk is not None})
            if mode == 64 or True:
                for rk in r8_idx:
                    for r8 in ([(1, 4), (1, 5), (1, 6), (1, 7), (16, 0), (16, 3)] if mode == 64 else [(16, 0), (16, 3), (1, 3)]):
                        for memk in ([None] + mem_idx[:1]):
                            if memk == rk:
                                continue
                            ops = low_ops(mode, memk=memk, base=1, disp=0, r8k=rk, r8=r8)
                            if ops is None or len(ops) > 6:
                                continue
                            for vops in ([ops] + ([[o for o, d in zip(ops, row["ops"]) if not d["implicit"]]] if any(d["implicit"] for d in row["ops"]) else [])):
                                out.append({"mode": mode, "base": None, "row": row["id"], "name": row["name"], "opt": 0, "extra": "-", "ops": vops, "deco": dict(d0),
                                            "strat": "pinned-r8-%d.%d" % r8, "memform": memk is not None})
    # (3) prefix order on the special emit paths (fixed-register memory, register-addressed memory): in 64-bit mode, 32-bit and 64-bit
    # addressing, a segment override on the operand that takes one, and every free register >= 8, so that override prefixes AND a
    # REX prefix are needed together (EmitX86OpImplicitMem / EmitX86RFromM emitted REX first)
    # Round 4: the sweep is complete over (row with such an operand) x (mode) x (both address sizes of the mode) x (all six segment
    # overrides, on the operand that may take one AND, separately, on the es-side operand that may not); AsmJit's own signature table
    # (operands flagged kFlagMemBase, dumped by c01_dump) is compared with the set of these rows in run().
    for row in rows:
        if row["unsupported"] or not any(d["slot"] in (9, 11, 13) for d in row["ops"]):
            continue
        modes = [32, 64]
        if row["arch"] == 1: modes = [32]
        if row["arch"] == 2: modes = [64]
        es_side = [k for k, d in enumerate(row["ops"]) if d["slot"] == 9 and d["immval"] != 1]
        for mode in modes:
            hi = 15 if mode == 64 else 7
            for acls in ((3, 4) if mode == 64 else (2, 3)):
                for seg in range(7):
                    # (es: on the es-side operand is the default: whatever is emitted for it is harmless, not generated)
                    for on_es in ([False, True] if es_side and seg > 1 else [False]):
                        ops = []
                        for k, d in enumerate(row["ops"]):
                            if d["slot"] == 9:
                                ops.append(["M", d["msz"], (seg if (d["immval"] == 1) != on_es else 0), acls, d["fixed"], 0, 0, 0, 0, 0, 0])
                            elif d["slot"] == 11:
                                ops.append(["M", d["msz"], 0, acls, hi, 0, 0, 0, 0, 0, 0])
                            elif d["slot"] == 13:
                                ops.append(["M", d["msz"], seg, acls, hi, 0, 0, 0, 0, 0, 0])
                            elif d["kind"] == 3:
                                ops.append(["I", d["immval"] if d["immval"] >= 0 else 1])
                            elif d["kind"] in (1, 2) and d["slot"] == 2 and any(x["slot"] == 11 for x in row["ops"]):
                                ops.append(["M", d["msz"], seg, acls, 9 if mode == 64 else 1, 0, 0, 0, 64, 0, 0])
                            elif d["kind"] in (0, 2) and d["slot"] != 10:
                                ops.append(["R", d["cls"], d["fixed"] if d["fixed"] >= 0 else ((9 if mode == 64 else 1) if d["cls"] in (2, 3, 4, 6, 7, 8) else 1)])
                            else:
                                ops = None
                                break
                        if ops is None or len(ops) > 6:
                            continue
                        reps = [(0, {}, "")]
                        if not on_es and seg in (0, 5) and "rep" in row["src"]["prefixes"]:
                            # rep / repne together with the overrides (and REX.W of the 64-bit forms): F3 / F2, segment, 67, REX, opcode
                            reps.append((OPT["rep"], {"f3": 1}, "-rep"))
                            if "repne" in row["src"]["prefixes"]:
                                reps.append((OPT["repne"], {"f2": 1}, "-repne"))
                        for ropt, rdeco, rtag in reps:
                            for vops in ([ops] + ([[o for o, d in zip(ops, row["ops"]) if not d["implicit"]]] if any(d["implicit"] for d in row["ops"]) else [])):
                                dd_ = dict(d0); dd_.update(rdeco)
                                out.append({"mode": mode, "base": None, "row": row["id"], "name": row["name"], "opt": ropt, "extra": "-", "ops": vops, "deco": dd_,
                                            "strat": "pinned-prefix-order-%d-a%d-%s%s" % (mode, acls, "es-side-seg" if on_es else ("seg" if seg else "noseg"), rtag), "memform": True})
    return out


def harness_line(c):
    toks = [("%d@%d" % (c["mode"], c["base"])) if c.get("base") else ("%d!" % c["mode"]) if c.get("eh") else "%d" % c["mode"], c.get("hname", c["name"]), "%x" % c["opt"], c["extra"]]
    for o in c["ops"]:
        toks += [str(t) for t in o]
    return " ".join(toks)


def judge_line(c, hexbytes):
    d = c["deco"]
    toks = ["J", "%d" % c["mode"], "%d" % c["name_id"], "%d" % d["lock"], "%d" % d["f2"], "%d" % d["f3"], "0", "%d" % d["k"], "%d" % d["z"],
            "%d" % d["rc"], hexbytes]
    for o in c["ops"]:
        if o[0] == "L":
            toks += ["I", str(-o[1])]       # the target, relative to the start of the instruction
        elif o[0] == "M":
            # the call's broadcast is AsmJit's enum (log2 of N); the model speaks of N in {1toN}
            toks += [str(t) for t in o[:9]] + [str((1 << o[9]) if o[9] else 0)]
        else:
            toks += [str(t) for t in o]
    return " ".join(toks)


def run_sharded(exe, lines, shards=16, timeout=1500):
    chunks = [lines[i::shards] for i in range(shards)]

    def one(chunk):
        if not chunk:
            return []
        rc, out, err = vlib.sh([exe], inp="\n".join(chunk) + "\n", timeout=timeout)
        res = out.split("\n")[:-1]
        if rc != 0 or len(res) != len(chunk):
            return ("ERR", rc, out[-300:] + err[-300:])
        return res
    with ThreadPoolExecutor(max_workers=shards) as ex:
        rs = list(ex.map(one, chunks))
    out = [None] * len(lines)
    for i, r in enumerate(rs):
        if isinstance(r, tuple):
            return r
        out[i::shards] = r
    return out


# ------------------------------------------------------------------ llvm-mc oracle
MATTR = ("+avx512f,+avx512vl,+avx512bw,+avx512dq,+avx512cd,+avx512er,+avx512pf,+avx512ifma,+avx512vbmi,+avx512vbmi2,+avx512vnni,"
         "+avx512bitalg,+avx512vpopcntdq,+avx512bf16,+avx512fp16,+avx512vp2intersect,+avxvnni,+vaes,+vpclmulqdq,+gfni,+sha,+aes,+pclmul,"
         "+fma,+fma4,+xop,+tbm,+lwp,+f16c,+bmi,+bmi2,+adx,+lzcnt,+popcnt,+movbe,+rdrnd,+rdseed,+sse4a,+3dnow,+3dnowa,+mmx,+avx2,"
         "+amx-tile,+amx-int8,+amx-bf16,+mpx,+clflushopt,+clwb,+cldemote,+movdiri,+movdir64b,+enqcmd,+serialize,+tsxldtrk,"
         "+waitpkg,+rdpid,+fsgsbase,+xsave,+xsaveopt,+xsavec,+xsaves,+rtm,+invpcid,+pku,+prfchw,+ptwrite,+rdpru,+wbnoinvd,"
         "+mwaitx,+clzero,+sgx,+shstk,+vmx,+svm,+smap,+kl,+widekl,+hreset,+uintr,+pconfig,+crc32,+sse4.2,+cx16,+sahf,+64bit-mode")
PAD = 24


PSEUDO = ("lock", "rep", "repne", "repe", "xacquire", "xrelease", "notrack", "data16", "addr32", "addr16", "rex64", "data32", "bnd",
          "cs", "ds", "es", "ss", "fs", "gs", "{vex}", "{vex2}", "{vex3}", "{evex}")
CMP_FAMILY = re.compile(r"^v?p?(cmp|com)")
SHIFTS = ("rol", "ror", "rcl", "rcr", "shl", "shr", "sar", "sal")


def llvm_quirk(c, hb):
    """Encodings llvm-mc 14 is known to decode unreliably (reviewed): EVEX.W is ignored in 32-bit mode (prints the W0 sibling,
    e.g. vextractf32x8 for vextractf64x4), and a 67 prefix in front of a VEX prefix makes it print the SSE mnemonic."""
    pk = re.match(r"^((?:26|2e|36|3e|64|65|66|67|f0|f2|f3)*)(.*)$", hb)
    pre, rest = pk.group(1), pk.group(2)
    if c["mode"] == 32 and rest.startswith("62") and len(rest) >= 6 and int(rest[4:6], 16) & 0x80:
        return "evex.w in 32-bit mode"
    pl = [pre[i:i + 2] for i in range(0, len(pre), 2)]
    if rest[:2] in ("c4", "c5") and "67" in pl:
        return "67 prefix before vex"
    if c["mode"] == 32 and rest.startswith("62") and len(rest) >= 4 and int(rest[2:4], 16) < 0xC0:
        return "BOUND (62 /r with a memory ModRM) rejected"
    if c["mode"] == 32 and "67" in pl and "f3" in pl and rest.startswith("0fae"):
        return "16-bit addressing of F3 0F AE /r (ptwrite, clrssbsy) rejected"
    return None


SENT_BYTES = "[0x0f 0x1f 0x84 0x00 0xde 0xc0 0xad 0x0b]"
SENT_TEXT = "nop dword ptr [eax + eax + 195936478]"
SENT_TEXT64 = "nop dword ptr [rax + rax + 195936478]"


def llvm_decode(byte_lists, mode):
    """Disassemble each byte string with llvm-mc as one ATOMIC BLOCK ("[..]": the bytes of a block are decoded on their own and the
    rest of a block is skipped at the first invalid encoding); a sentinel block between the records keeps the output aligned.
    Returns per input ("ok", text, nbytes, ninsts): the whole block decoded (ninsts real instructions; prefix pseudo instructions
    such as lock / xacquire are joined in front of the text) or ("invalid", text-so-far, byte offset of the failure, n)."""
    res = [None] * len(byte_lists)
    CH = 40000
    mattr = MATTR if mode == 64 else MATTR.replace(",+64bit-mode", "")
    sent = SENT_TEXT64 if mode == 64 else SENT_TEXT
    for c0 in range(0, len(byte_lists), CH):
        chunk = byte_lists[c0:c0 + CH]
        inp = []
        for b in chunk:
            inp.append("[" + " ".join("0x%02x" % x for x in b) + "]")
            inp.append(SENT_BYTES)
        rc, out, err = vlib.sh(["llvm-mc", "--disassemble", "-triple=" + ("x86_64" if mode == 64 else "i386"), "-mattr=" + mattr,
                                "--output-asm-variant=1"], inp="\n".join(inp) + "\n", timeout=900)
        invalid = {}
        for m in re.finditer(r"<stdin>:(\d+):(\d+): warning: invalid instruction encoding", err):
            ln = int(m.group(1)) - 1
            if ln % 2 == 0:
                invalid[ln // 2] = (int(m.group(2)) - 2) // 5      # byte offset inside the block
        groups = [[]]
        for line in out.split("\n"):
            t = " ".join(line.split("#")[0].split())
            if not t or t.startswith("."):
                continue
            if t == sent:
                groups.append([])
            else:
                groups[-1].append(t)
        if len(groups) != len(chunk) + 1:
            # a record that is itself the sentinel, or a broken run: give up on this chunk (reported as desync)
            for k in range(len(chunk)):
                res[c0 + k] = ("desync", "", 0, 0)
            continue
        for k, b in enumerate(chunk):
            texts = groups[k]
            real = [t for t in texts if t.split()[0] not in PSEUDO or len(t.split()) > 1]
            if k in invalid:
                res[c0 + k] = ("invalid", " ; ".join(texts), invalid[k], len(real))
            else:
                res[c0 + k] = ("ok", " ".join(texts), len(b), len(real))
    return res


def expected_regs(c, row):
    exp = set()
    for o in c["ops"]:
        if o[0] == "R":
            exp.add(reg_name(o[1], o[2]))
        elif o[0] == "M":
            if o[3]:
                exp.add(reg_name(o[3], o[4]))
            if o[5]:
                exp.add(reg_name(o[5], o[6]))
            if o[2]:
                exp.add(SREG[o[2]])
    if c["deco"]["k"]:
        exp.add("k%d" % c["deco"]["k"])
    return exp


def implicit_regs(row, mode):
    out = set()
    for d in row["ops"]:
        if d["fixed"] >= 0 and d["kind"] == 0:
            out.add(reg_name(d["cls"], d["fixed"]))
    return out


# coverage floors recorded when the check was claimed (pinned tree: 4484 supported rows, ~4180 rows with a verified call per quick run)
MIN_SUPPORTED_ROWS = 4555
MIN_VERIFIED_ROWS = 4150

ALIAS_FILE = os.path.join(vlib.VERIF, "corpus", "C01_llvm_alias.txt")


def load_aliases():
    al = set()
    if os.path.exists(ALIAS_FILE):
        for l in open(ALIAS_FILE):
            l = l.split("#")[0].split()
            if len(l) == 2:
                al.add((l[0], l[1]))
    return al


def llvm_compare(c, row, text, nbytes, hexbytes, aliases):
    """Independent judgement of one accepted call by llvm-mc's decoding. Returns list of (kind, detail) problems."""
    probs = []
    if nbytes != len(hexbytes) // 2:
        probs.append(("length", "llvm-mc decodes %d bytes, %d were appended" % (nbytes, len(hexbytes) // 2)))
    t = text
    # strip prefixes printed as separate words
    words = t.replace("\t", " ").split()
    pref = []
    while len(words) > 1 and words[0] in PSEUDO:
        pref.append(words.pop(0))
    mn = words[0] if words else ""
    rest = " ".join(words[1:])
    has9 = any(d["slot"] == 9 for d in row["ops"])
    if has9 and mn != c["name"] and mn.startswith(c["name"]) and len(mn) == len(c["name"]) + 1:
        # cmps -> cmpsb/cmpsw/cmpsd/cmpsq, movs, stos, lods, scas, ins, outs: the suffix is the element size
        msz9 = [o[1] for o in c["ops"] if o[0] == "M" and o[1]]
        if msz9 and {1: "b", 2: "w", 4: "d", 8: "q"}.get(msz9[0]) != mn[-1]:
            probs.append(("size", "llvm-mc %s, call element size %d" % (mn, msz9[0])))
        mn = c["name"]
    cmpfam = (bool(CMP_FAMILY.match(c["name"])) and mn != c["name"] and bool(CMP_FAMILY.match(mn)) and mn[-1:] == c["name"][-1:]
              and mn[:3] == c["name"][:3])
    if mn != c["name"] and (c["name"], mn) not in aliases and not cmpfam:
        probs.append(("mnemonic", "llvm-mc mnemonic %s" % mn))
    regs = set(REG_RE.findall(rest))
    regs |= set("st(%s)" % n for n in re.findall(r"\bst\((\d)\)", rest))
    exp = expected_regs(c, row)
    impl = implicit_regs(row, c["mode"])
    if any(d13["slot"] == 13 for d13 in row["ops"]):
        exp = set(x for x in exp if x not in SREG[1:])    # llvm-mc prints the bare register; the segment prefix is judged by the model
        regs = set(x for x in regs if x not in SREG[1:])
    for k12, d12 in enumerate(row["ops"]):
        if d12["slot"] == 12 and k12 < len(c["ops"]) and c["ops"][k12][0] == "R":
            # vp2intersect: llvm-mc prints only the even register of the k pair
            nm12 = reg_name(c["ops"][k12][1], c["ops"][k12][2])
            if nm12 not in [reg_name(o[1], o[2]) for j, o in enumerate(c["ops"]) if j != k12 and o[0] == "R"]:
                exp = set(x for x in exp if x != nm12)
    if any(d["cls"] == 13 for d in row["ops"]) or c["name"].startswith("f"):
        # x87: st(0) is printed as `st`, implied or omitted depending on the mnemonic; only st(1..7) are compared
        regs.discard("st(0)"); exp = set(x for x in exp if x != "st(0)"); impl.discard("st(0)")
        if not c["ops"]:
            regs.discard("st(1)")     # faddp / fcom / fucomp ... without operands imply st(1), which llvm-mc prints
    norm = lambda s: set("st(0)" if x == "st" else x for x in s)
    if has9:
        # fixed-register memory operands: llvm-mc prints es:[rdi] / omits implied operands; only a requested override is compared
        for o in c["ops"]:
            if o[0] == "M" and o[2] and "[" in rest and (SREG[o[2]] + ":[" + reg_name(o[3], o[4])) not in rest:     # (clzero, monitor: no operand printed)
                probs.append(("segment", "segment override %s requested, llvm-mc: %s" % (SREG[o[2]], rest)))
    elif c["name"] in ("lsl", "lar", "nop", "movsxd"):
        pass    # llvm-mc prints the 16-bit name of the source register / drops the ignored reg field of the long nop
    elif not (exp <= regs | impl) or not (regs <= exp | impl):
        # llvm-mc prints "ds:" segment for absolute addresses only when overridden; st(0) as st
        probs.append(("registers", "llvm-mc registers %s, call registers %s (+implicit %s)" % (sorted(regs), sorted(exp), sorted(impl))))
    d = c["deco"]
    if bool(d["z"]) != ("{z}" in rest):
        probs.append(("zeroing", "{z}"))
    rcn = {0: "{rn-sae}", 1: "{rd-sae}", 2: "{ru-sae}", 3: "{rz-sae}", 4: "{sae}"}
    if d["rc"] >= 0:
        if rcn[d["rc"]] not in rest:
            probs.append(("rounding", "expected %s" % rcn[d["rc"]]))
    elif "-sae}" in rest or "{sae}" in rest:
        probs.append(("rounding", "unexpected rounding/sae"))
    if d["lock"] != (1 if "lock" in pref else 0):
        probs.append(("lock", "lock prefix"))
    for k11, o in enumerate(c["ops"]):
        if k11 < len(row["ops"]) and row["ops"][k11]["slot"] in (11, 13):
            continue        # [es: register in ModRM.reg]: llvm-mc prints the register; it is compared with the register set above
        if o[0] == "M" and not has9:
            mm = re.search(r"\[([^\]]*)\]", rest)
            if not mm:
                probs.append(("memory", "no memory operand in llvm-mc text"))
                break
            inner = mm.group(1)
            # displacement = sum of the signed numeric terms that are not scales
            terms = re.findall(r"([+-]?)\s*(\d+\*)?\s*([A-Za-z0-9()]+)", inner)
            disp = 0
            scale = 1
            for sg, scl, tok in terms:
                if re.fullmatch(r"\d+", tok) and not scl:
                    disp += -int(tok) if sg == "-" else int(tok)
                if scl:
                    scale = int(scl[:-1])
                elif re.fullmatch(r"\d+", tok) is None and False:
                    pass
            m2 = re.search(r"(\d+)\*", inner)
            if m2:
                scale = int(m2.group(1))
            want = o[8]
            width = 16 if (o[3] == 2 or o[5] == 2) else (64 if c["mode"] == 64 else 32)
            if (disp - want) % (1 << width) != 0 and (disp - want) % (1 << 32) != 0:
                probs.append(("displacement", "llvm-mc displacement %d, call %d" % (disp, want)))
            if o[5] and (1 << o[7]) != scale and not (o[5] == 2):
                probs.append(("scale", "llvm-mc scale %d, call shift %d" % (scale, o[7])))
            bcm = re.search(r"\{1to(\d+)\}", rest)
            if o[9]:
                if not bcm or int(bcm.group(1)) != (1 << o[9]):
                    probs.append(("broadcast", "expected {1to%d}" % (1 << o[9])))
            elif bcm:
                probs.append(("broadcast", "unexpected broadcast"))
    for o in c["ops"]:
        if o[0] == "L":
            parts = [p.strip() for p in rest.split(",")]
            nums = [int(p) for p in parts if re.fullmatch(r"-?\d+", p)]
            if not nums or nums[-1] != -o[1] - len(hexbytes) // 2:
                probs.append(("rel", "llvm-mc displacement %s, expected %d" % (nums, -o[1] - len(hexbytes) // 2)))
    imms = [(o, dd) for o, dd in zip(c["ops"], [x for x in row["ops"]] if len(c["ops"]) == len(row["ops"]) else [x for x in row["ops"] if not x["implicit"]]) if o[0] == "I"]
    if imms:
        # the last comma-separated operands of the llvm text that are plain numbers
        parts = [p.strip() for p in re.sub(r"\{[^}]*\}", "", rest).split(",")]
        nums = [int(p) for p in parts if re.fullmatch(r"-?\d+", p)]
        want = [(o[1], dd) for o, dd in imms if dd["immval"] < 0 or True]
        if cmpfam or (c["name"] in SHIFTS and all(o[1] == 1 for o, dd in imms)):
            pass    # predicate folded into the mnemonic (vcmpeqps, vpcomltb, ...) / shift by 1 printed without the count
        elif len(nums) < len([1 for o, dd in imms if dd["immval"] < 0 and dd["immbits"] != 4]):
            probs.append(("immediate", "llvm-mc prints immediates %s" % nums))
        else:
            k = 0
            for o, dd in imms:
                if dd["immval"] >= 0 or dd["immbits"] == 4:
                    continue
                if k < len(nums):
                    bits = dd["immbits"]
                    if (nums[k] - o[1]) % (1 << bits) != 0:
                        probs.append(("immediate", "llvm-mc immediate %d, call %d (%d bits)" % (nums[k], o[1], bits)))
                    k += 1
    return probs


def own_regen(ck, files, order, after_first=None):
    """Translator tie without vlib.coq_regen's recompilation of EVERY property's gen files: if the regenerated texts equal the
    committed coq/gen files return None (fast path); otherwise compile only C01's files (in `order`) in a scratch directory that
    is then mapped to VerifGen for Properties_C01.v and the extraction.  Returns (gen_dir, failed_files, log)."""
    import shutil
    gen = os.path.join(vlib.COQ, "gen")
    if all(os.path.exists(os.path.join(gen, n)) and open(os.path.join(gen, n)).read() == t for n, t in files.items()):
        return None
    wgen = os.path.join(ck.work, "gen_c01")
    shutil.rmtree(wgen, ignore_errors=True)
    os.makedirs(wgen)
    failed, log = [], ""
    own_regen.removed = {}
    own_regen.stmts = {}
    own_regen.culprits = {}
    for n in order:
        text = files[n]
        removed = []
        # a file whose regenerated text equals the committed snapshot (e.g. the database when only the assembler's tables changed) is not
        # recompiled: the snapshot's .vo, brought up to date by make, is the same module VerifGen.<name>
        gv = os.path.join(gen, n)
        if n == order[0] and os.path.exists(gv) and open(gv).read() == text and not ck.coq_make(["gen/" + n + "o"]) \
                and os.path.exists(gv + "o"):
            shutil.copy(gv, os.path.join(wgen, n))
            shutil.copy(gv + "o", os.path.join(wgen, n + "o"))
            own_regen.removed[n] = ([], True)
            if after_first is not None:
                after_first(wgen)
            continue
        for attempt in range(7):
            open(os.path.join(wgen, n), "w").write(text)
            rc, out, err = vlib.sh(["coqc", "-Q", os.path.join(vlib.COQ, "theories"), "Verif", "-Q", wgen, "VerifGen", "-w", "-all", os.path.join(wgen, n)],
                                   cwd=wgen, timeout=1500)
            if rc == 0:
                break
            log += (out + err)[-1500:]
            # drop exactly the lemma that failed (and, next round, the lemmas that used it) so that every OTHER lemma of the file is
            # still checked and Properties_C01.v reports precisely the theorems that no longer hold
            m = re.search(r"line (\d+), characters", out + err)
            lines = text.split("\n")
            k = int(m.group(1)) - 1 if m else -1
            while 0 <= k < len(lines) and not lines[k].startswith("Lemma "):
                k -= 1
            if k < 0 or k >= len(lines):
                break
            e = k
            while e < len(lines) and "Qed." not in lines[e]:
                e += 1
            removed.append(lines[k].split()[1])
            own_regen.stmts[lines[k].split()[1]] = " ".join(lines[k:e + 1])
            text = "\n".join(lines[:k] + ["(* lemma %s removed: it failed *)" % lines[k].split()[1]] * (e - k + 1) + lines[e + 1:])
        if rc != 0 or removed:
            failed.append(n)
        own_regen.removed[n] = (removed, rc == 0)
        if removed and rc == 0:
            # sharper failing input: WHICH entries of the collection a failed lemma quantifies over make it false -- evaluated against the
            # module just compiled (it has every definition, only the failed lemmas are gone)
            hdr = "\n".join(l for l in files[n].split("\n")[:12] if l.startswith("From ") or l.startswith("Import ") or l.startswith("Local Open"))
            for nm in removed:
                st = own_regen.stmts.get(nm, "")
                found = []
                for mm in re.finditer(r"forallb \(fun (\w+) => (.*?)\) (inst_table|db_rows|db_wait_rows|hl_classes|\(zrange 256\)|\(?zrange256\)?)(?= &&| = true)", st):
                    var, body, coll = mm.group(1), mm.group(2), mm.group(3)
                    proj = {"inst_table": "ie_name (fst %s)" % var, "hl_classes": "fst %s" % var, "db_rows": "r_id %s" % var,
                            "db_wait_rows": "r_id %s" % var}.get(coll, var)
                    scratch = os.path.join(wgen, "Culprit_%s.v" % nm)
                    open(scratch, "w").write("%s\nFrom VerifGen Require Import %s.\nEval vm_compute in map (fun %s => %s) (filter (fun %s => negb (%s)) %s).\n"
                                             % (hdr, n[:-2], var, proj, var, body, coll))
                    rc2, out2, err2 = vlib.sh(["coqc", "-Q", os.path.join(vlib.COQ, "theories"), "Verif", "-Q", wgen, "VerifGen", "-w", "-all", scratch],
                                              cwd=wgen, timeout=600)
                    m2 = re.search(r"=\s*\[(.*?)\]\s*:", out2, re.S)
                    if rc2 == 0 and m2:
                        ids = [int(x) for x in re.findall(r"-?\d+", m2.group(1))]
                        if ids:
                            found.append((coll, ids[:40]))
                if found:
                    own_regen.culprits[nm] = found
        if n == order[0] and rc == 0 and after_first is not None:
            after_first(wgen)       # what needs only the first file (extraction of the model) starts beside the second one
    return wgen, failed, log


def culprit_text(culprits, names, rows):
    """The entries that make a failed reflection lemma false, in words: instruction mnemonics, database rows, opcode buckets."""
    byid = {r["id"]: r for r in rows}
    out = []
    for lemma, found in sorted(culprits.items()):
        parts = []
        for coll, ids in found:
            if coll == "inst_table":
                parts.append("instructions " + ", ".join(names[i] if 0 <= i < len(names) else str(i) for i in ids))
            elif coll in ("db_rows", "db_wait_rows"):
                parts.append("database rows " + ", ".join("%s [%s]" % (byid[i]["name"], byid[i]["src"]["opcodeString"]) if i in byid else str(i) for i in ids))
            elif coll == "hl_classes":
                parts.append("encoding classes " + ", ".join(str(i) for i in ids))
            else:
                parts.append("opcode buckets " + ", ".join("%02X" % i for i in ids))
        out.append("%s fails for: %s" % (lemma, "; ".join(parts)))
    return ("CULPRITS: " + " | ".join(out)) if out else ""


# ------------------------------------------------------------------ main
def run(ck):
    rng = random.Random(ck.seed)
    rows, names = c01_db.build(vlib.REPO)
    text = c01_db.coq_text(rows, names)
    import c01_tables
    dumper = ck.build_harness("c01dump", ["c01_dump.cpp"])
    tabs, insts = c01_tables.dump(dumper)
    ttext, tinfo = c01_tables.coq_text(tabs, insts, names, rows)
    th_failed = ck.coq_make(["theories/X86/X86Denote.vo", "theories/X86/X86DbCheck.vo", "theories/X86/X86Proofs.vo", "theories/X86/X86TablesSpec.vo",
                             "theories/X86/X86UniqueProofs.vo", "theories/X86/X86JudgeProofs.vo", "theories/X86/X86LengthProofs.vo", "theories/X86/X86Choice.vo", "theories/X86/X86EncProofs.vo", "theories/X86/X86PrefixOrder.vo", "theories/X86/X86Reencode.vo", "theories/X86/X86FrameProofs.vo", "theories/X86/X86Shortest.vo", "theories/X86/X86Leg32.vo", "theories/X86/X86StreamProofs.vo"])
    # the instruction-option bits the stream passes to the emitter are those of the working tree's InstOptions enum
    opt_names = ["modmr", "modrm", "vex3", "vex", "evex", "lock", "rep", "repne", "xacquire", "xrelease", "er", "sae", "z", "rex"]
    if tabs.get("inst_options") != [OPT[k] for k in opt_names]:
        ck.violation("C01/inst-option-bits-changed", "InstOptions of the working tree %s differ from the bits the check passes %s"
                     % (tabs.get("inst_options"), [OPT[k] for k in opt_names]), {"broken": "OPT table of tools/checks/c01.py"}, no_input=True)
    # AsmJit's own signature table: every mnemonic with an operand restricted to a fixed base register (kFlagMemBase) must have
    # database rows with a fixed-register / register-addressed memory operand, i.e. be walked by the complete override sweep
    fixed_sig_names = sorted(set(sg["name"] for sg in tabs.get("_sigs", [])))
    fixed_row_names = set(r["name"] for r in rows if not r["unsupported"] and any(d["slot"] in (9, 11, 13) for d in r["ops"]))
    missing_fixed = [n for n in fixed_sig_names if n not in fixed_row_names]
    if missing_fixed or not fixed_sig_names:
        ck.violation("C01/fixed-base-signature-without-row/" + "+".join(missing_fixed[:6]),
                     "AsmJit's signature table accepts an explicit fixed-base memory operand for %s, but no supported database row has such an "
                     "operand: the override sweep does not reach them" % (missing_fixed or "NO instruction (dump broken?)"),
                     {"broken": "coverage of the fixed-base memory operand sweep", "names": missing_fixed}, no_input=True)
    # the extraction / OCaml build and the harness build depend on IsaX86Db.v only: they run beside X86Tables.v and Properties_C01.v
    import threading
    side = {}

    def side_builds(gd):
        try:
            side["impl"] = ck.build_harness("c01", ["c01_harness.cpp"])
            side["model"] = ck.ocaml_model("Extract_X86.v", ["zconv.ml", "c01_driver.ml"], name="c01", gen_dir=gd)
        except Exception as e:      # re-raised in the main thread
            side["error"] = e

    def start_side(gd):
        side["thread"] = threading.Thread(target=side_builds, args=(gd,))
        side["thread"].start()
    regen = own_regen(ck, {"IsaX86Db.v": text, "X86Tables.v": ttext}, ["IsaX86Db.v", "X86Tables.v"], after_first=start_side)
    gen_dir = None
    if regen is not None:
        gen_dir, failed, log = regen
        ck.log("database changed: regenerated IsaX86Db.v recompiled, failed: %s %s" % (failed, own_regen.removed))
        if failed:
            ck.violation("C01/gen-reflection/" + "+".join(failed), "the regenerated %s no longer pass their reflection lemmas (ISA database well-formedness / AsmJit table "
                         "specifications / table-vs-database agreement); failing lemmas: %s; %s"
                         % (failed, {n: v[0] for n, v in own_regen.removed.items() if v[0]}, culprit_text(own_regen.culprits, names, rows) + " " + log[-600:]),
                         {"broken": "reflection lemmas of coq/gen/%s" % failed, "log": log[-2000:]}, no_input=True)
    if regen is not None and "IsaX86Db.v" in failed and not own_regen.removed.get("IsaX86Db.v", ([], False))[1]:
        # the search phase still needs an executable model of the NEW database: recompile the data without the failing lemmas
        strip = lambda t: re.sub(r"(?s)\nLemma [^\n]*?:.*?Qed\.\n", "\n", t)
        regen2 = own_regen(ck, {"IsaX86Db.v": strip(text), "X86Tables.v": "From Coq Require Import ZArith.\n"}, ["IsaX86Db.v", "X86Tables.v"])
        if regen2 is not None and "IsaX86Db.v" not in regen2[1]:
            gen_dir = regen2[0]
    # the committed snapshots are compiled only when they are the ones used (fast path)
    failed = (th_failed or []) + ((ck.coq_make(["gen/IsaX86Db.vo", "gen/X86Tables.vo"]) or []) if regen is None else [])
    if failed:
        ck.violation("C01/coq-build", "the Coq development no longer builds: %s %s" % (failed, getattr(ck, "coq_log", "")[-600:]),
                     {"broken": "coq build of %s" % failed}, no_input=True)
    if "thread" not in side:
        start_side(gen_dir)        # fast path, or the fallback data-only regeneration
    obl = ck.coq_properties(gen_dir=gen_dir)
    ck.log("theorems: %d, failed: %d" % (len(obl), len([o for o in obl if not o["ok"]])))
    side["thread"].join()
    if "error" in side:
        raise side["error"]
    impl, model = side["impl"], side["model"]
    aliases = load_aliases()
    db_aliases = set()
    dbal = os.path.join(vlib.VERIF, "corpus", "C01_db_alias.txt")
    if os.path.exists(dbal):
        for l in open(dbal):
            l = l.split("#")[0].split()
            if len(l) == 2:
                db_aliases.add((l[0], l[1]))
    byid = {r["id"]: r for r in rows}

    if ck.replay:
        rp = json.load(open(ck.replay))["replay"]
        c = rp["call"]
        line = harness_line(c)
        a = vlib.sh([impl], inp=line + "\n")[1].strip()
        print("call :", line)
        print("impl :", a)
        if a.startswith("OK"):
            hb = a.split()[1] if len(a.split()) == 3 else ""
            print("model:", vlib.sh([model], inp=judge_line(c, hb) + "\n")[1].strip())
            ll = llvm_decode([[int(hb[i:i + 2], 16) for i in range(0, len(hb), 2)]], c["mode"])
            print("llvm :", ll)
        return 0

    per_row = 6 if ck.tier == "quick" else 60
    calls = build_calls(rows, rng, ck.tier, per_row)
    # corpus of past findings first (deterministic)
    corpus = os.path.join(vlib.VERIF, "corpus", "C01_calls.jsonl")
    if os.path.exists(corpus):
        pre = [json.loads(l) for l in open(corpus) if l.strip() and not l.startswith("#")]
        calls = pre + calls
    name_ids = {n: i for i, n in enumerate(names)}
    for c in calls:
        c["name_id"] = name_ids.get(c["name"], -1)
    ck.log("rows: %d (supported %d), calls: %d" % (len(rows), len([r for r in rows if not r["unsupported"]]), len(calls)))
    hl = [harness_line(c) for c in calls]
    ans = run_sharded(impl, hl)
    if isinstance(ans, tuple):
        ck.violation("C01/harness-crash", "harness failed: %s" % (ans,), {"detail": str(ans), "broken": "harness"}, no_input=True)
        ans = ["BAD"] * len(calls)
    # answer "OK <hex> <start>"; an instruction that appends nothing answers "OK <start>"
    acc = [(c, a.split()[1] if len(a.split()) == 3 else "", int(a.split()[-1])) for c, a in zip(calls, ans) if a.startswith("OK")]
    starts = {k: t[2] for k, t in enumerate(acc)}
    acc = [(c, hb) for c, hb, _ in acc]
    wait_forms_verified = 0
    is_wait = lambda c: bool(byid.get(c["row"], {}).get("wait"))
    # llvm-mc reads FWAIT + the no-wait form as two instructions: it is given the bytes after the leading 9B of a wait-form call
    llvm_hb = lambda c, hb: hb[2:] if is_wait(c) and hb.startswith("9b") else hb
    rejected = len([a for a in ans if a.startswith("ERR")])
    dirty = [(c, a) for c, a in zip(calls, ans) if a.startswith("ERR") and a.split()[2] != "0"]
    for c, a in [(c, a) for c, a in zip(calls, ans) if a.startswith("DIRTY-FRONT")][:5]:
        ck.violation("C01/%s/bytes-before-the-instruction-changed" % c["name"], "the call `%s` changed bytes in front of the instruction (%s)"
                     % (harness_line(c), a), {"call": c, "impl": a})
    frame_checked = len([a for a in ans if a.startswith("OK") or a.startswith("ERR")])
    noinst = sorted(set(c["name"] for c, a in zip(calls, ans) if a == "NOINST"))
    ck.log("accepted %d, rejected %d, unknown mnemonics %d" % (len(acc), rejected, len(noinst)))
    for c, a in dirty[:5]:
        ck.violation("C01/%s/bytes-appended-on-error" % c["name"], "rejected call appended bytes: %s -> %s" % (harness_line(c), a), {"call": c, "impl": a})
    jl = [judge_line(c, hb) for c, hb in acc]
    # known base address: the same absolute address may be encoded RIP-relative; judge that reading too
    alt = {}
    for k, (c, hb) in enumerate(acc):
        if c.get("base"):
            end = c["base"] + starts[k] + len(hb) // 2
            ops2 = []
            okv = False
            for o in c["ops"]:
                if o[0] == "M" and o[3] == 0 and o[5] == 0:
                    d2 = ((o[8] - end + (1 << 63)) % (1 << 64)) - (1 << 63)
                    if -(1 << 31) <= d2 < (1 << 31):
                        okv = True
                        ops2.append(["M", o[1], o[2], 20, 0, 0, 0, 0, d2, o[9], 0])
                        continue
                ops2.append(o)
            if okv:
                c2 = dict(c); c2["ops"] = ops2
                alt[k] = c2
    altk = sorted(alt)
    rip_readings = 0
    jl += [judge_line(alt[k], acc[k][1]) for k in altk]
    verd = run_sharded(model, jl)
    if not isinstance(verd, tuple):
        for n, k in enumerate(altk):
            va = verd[len(acc) + n]
            if va.split("|")[0].strip() == "0" and verd[k].split("|")[0].strip() != "0":
                verd[k] = va
                acc[k] = (alt[k], acc[k][1])      # the RIP-relative reading is the one that holds
                rip_readings += 1
        verd = verd[:len(acc)]
    if isinstance(verd, tuple):
        ck.violation("C01/model-crash", "model driver failed: %s" % (verd,), {"detail": str(verd), "broken": "ml/c01_driver.ml"}, no_input=True)
        verd = ["9 |"] * len(acc)
    # llvm-mc on every accepted encoding
    ll = {}
    for mode in (32, 64):
        idx = [i for i, (c, hb) in enumerate(acc) if c["mode"] == mode]
        lhb = {i: llvm_hb(*acc[i]) for i in idx}
        outs = llvm_decode([[int(lhb[i][k:k + 2], 16) for k in range(0, len(lhb[i]), 2)] for i in idx], mode)
        for i, o in zip(idx, outs):
            ll[i] = o
    def enc_kind_of(hb):
        pk = re.sub(r"^(26|2e|36|3e|64|65|66|67|f0|f2|f3)*(4[0-9a-f])?", "", hb)
        return ("evex" if pk.startswith("62") else "vex" if pk[:2] in ("c4", "c5") else
                "xop" if pk.startswith("8f") and len(pk) > 2 and int(pk[2:4], 16) & 0x1F >= 8 else "legacy")
    llvm_known = set((acc[i][0]["name"], enc_kind_of(acc[i][1]), acc[i][0]["mode"]) for i, o in ll.items() if o[0] == "ok")
    llvm_never = set()
    stats = {"verdict_ok": 0, "verdict_bad": 0, "llvm_agree": 0, "llvm_unknown": 0, "llvm_disagree": 0, "alias_notes": 0}
    strata = {}
    covered_rows = set()
    nontrivial = set()
    samples = []
    mod_checked = mod_mismatch = 0
    reenc_checked = reenc_failed = 0
    choice_checked = choice_mismatch = 0
    reenc_fail_calls = []
    alias_seen = {}
    VERD = {"1": "no-decoding", "2": "wrong-instruction-or-operands", "3": "wrong-length", "9": "model-crash"}
    for i, ((c, hb), v) in enumerate(zip(acc, verd)):
        vparts = v.split("|")
        vcode = vparts[0].strip()
        vcands = vparts[1].strip() if len(vparts) > 1 else ""
        vothers = [int(x) for x in vparts[2].strip().split(",") if x.strip()] if len(vparts) > 2 else []
        # a piece of the emitter inside the model: the ModRM.mod field AsmJit emitted against X86Choice.aj_mod (proved admissible and
        # shortest) of the memory operand the bytes decode to, for the matched rows of verdict-0 calls with a base register
        vmod = [x.strip() for x in vparts[3].strip().split(",") if x.strip()] if len(vparts) > 3 else []
        if vcode == "0" and vmod:
            mod_checked += 1
            if any(x.endswith("-") for x in vmod) and not any(o[0] == "M" and (o[3] == 20 or o[10] != 0) for o in c["ops"]):
                mod_mismatch += 1
                a16evex = any(o[0] == "M" and (o[3] == 2 or o[5] == 2) for o in c["ops"]) and enc_kind_of(hb) == "evex"
                if mod_mismatch <= 3 or a16evex:
                    # EVEX with 16-bit addressing: the emitter's 16-bit branch knows no disp8*N (the known finding); there the longer
                    # disp16 form is what it emits for a displacement the compressed form could hold
                    ck.violation(("C01/evex-16bit-addressing-disp8-not-scaled/%s" if a16evex else "C01/%s/mod-choice-not-as-modelled") % c["name"], "the ModRM.mod field of the accepted call `%s` (bytes %s) is not the "
                                 "one X86Choice.aj_mod (the model of EmitModSib's choice: shortest admissible displacement form) gives: %s"
                                 % (harness_line(c), hb, vmod), {"call": c, "impl": hb, "broken": "X86Choice.aj_mod as a description of the emitter"})
        # byte-exact re-encoding: the accepted bytes must be an OUTPUT of the proven structural encoder (X86Reencode.reencodes) for the
        # instruction they decode to, with the prefix order and the encoder choices they exhibit
        vre = [x.strip() for x in vparts[4].strip().split(",") if x.strip()] if len(vparts) > 4 else []
        if vcode == "0" and vre:
            reenc_checked += 1
            if not any(x.endswith("+") for x in vre):
                reenc_failed += 1
                reenc_fail_calls.append((c, hb, vre))
        # the other two encoder choices against the model (X86Shortest.aj_choices, proved admissible and SHORTEST): a three-byte VEX prefix
        # only when requested ({vex3}), a SIB byte only where the addressing form needs one (or the row is AMX tile memory)
        vx = [x.strip() for x in vparts[5].strip().split(",") if x.strip()] if len(vparts) > 5 else []
        if vcode == "0" and vx:
            choice_checked += 1
            rowx = byid.get(c["row"]) or {}
            badx = [x for x in vx if ("v" in x and not (c["opt"] & OPT["vex3"])) or ("s" in x and not rowx.get("src", {}).get("tsib"))]
            if badx and len(badx) == len(vx):
                choice_mismatch += 1
                if choice_mismatch <= 5:
                    ck.violation("C01/%s/encoder-choice-not-as-modelled" % c["name"], "the accepted call `%s` (bytes %s) uses a three-byte VEX prefix or a SIB byte "
                                 "where X86Shortest.aj_choices (the model of the emitter's choices: shortest admissible encoding) does not: %s"
                                 % (harness_line(c), hb, vx), {"call": c, "impl": hb, "broken": "X86Shortest.aj_choices as a description of the emitter"})
        row = byid.get(c["row"])
        st, ltext, lbytes, linsts = ll.get(i, ("desync", "", 0, 0))
        lprobs = None
        if st in ("ok", "invalid") and llvm_quirk(c, hb):
            st = "quirk"
        if st == "ok" and row is None:
            # corpus call without a database row: only the length / instruction count can be compared
            if lbytes != len(hb) // 2 or linsts != 1:
                lprobs = [("length", "llvm-mc decodes %d bytes / %d instructions of %d appended bytes" % (lbytes, linsts, len(hb) // 2))]
            else:
                lprobs = []
            st = "ok-norow"
        if st == "ok" and row is not None:
            lprobs = llvm_compare(c, row, ltext, lbytes, llvm_hb(c, hb), aliases)
            if linsts != 1:
                lprobs.append(("count", "llvm-mc decodes %d instructions" % linsts))
        key_form = "%s/%s" % (c.get("hname", c["name"]), "/".join("R%d" % o[1] if o[0] == "R" else ("M" if o[0] == "M" else "L" if o[0] == "L" else "I") for o in c["ops"]))
        enc_kind = enc_kind_of(hb)
        strata[c["strat"]] = strata.get(c["strat"], 0) + 1
        if vcode == "0":
            stats["verdict_ok"] += 1
            wait_forms_verified += 1 if is_wait(c) else 0
            covered_rows.add(c["row"])
            nontrivial.add((c["row"], c["mode"], c["strat"], c["memform"], c["opt"] != 0))
            # uniqueness, judged per call: any OTHER denotation that consumes all the bytes must be a reviewed alias of the mnemonic
            for rid in vothers:
                on = byid[rid]["name"] if rid in byid else "?"
                if (c["name"], on) not in db_aliases and (on, c["name"]) not in db_aliases:
                    ck.violation("C01/%s/ambiguous-with-%s" % (c["name"], on),
                                 "the bytes %s of the accepted call `%s` also denote `%s` (database row %d) under the ISA-database rules; not a reviewed alias "
                                 "(corpus/C01_db_alias.txt)" % (hb, harness_line(c), on, rid),
                                 {"call": c, "bytes": hb, "model": v, "llvm": ltext, "other_row": rid})
            if len(samples) < 6 and i % 977 == 0:
                samples.append({"call": harness_line(c), "bytes": hb, "model": v[:120], "llvm-mc": ltext})
            if st == "invalid" and (c["name"], enc_kind, c["mode"]) in llvm_known:
                # llvm-mc knows the mnemonic but rejects this encoding although the proven decoder accepts it as the call
                stats["llvm_disagree"] += 1
                ck.violation("C01/%s/%d/%s/oracle-invalid" % (key_form, c["mode"], enc_kind),
                             "the proven decoder accepts the encoding as the call, llvm-mc rejects it as invalid: call `%s` bytes %s" % (harness_line(c), hb),
                             {"call": c, "bytes": hb, "model": v, "llvm": ltext, "llvm_status": st})
            elif st not in ("ok", "ok-norow"):
                stats["llvm_unknown"] += 1
                if st == "invalid":
                    llvm_never.add(c["name"])
            else:
                hard = [p for p in lprobs if p[0] != "mnemonic"]
                soft = [p for p in lprobs if p[0] == "mnemonic"]
                if hard:
                    stats["llvm_disagree"] += 1
                    ck.violation("C01/%s/%d/oracle-%s" % (key_form, c["mode"], hard[0][0]),
                                 "the proven decoder accepts the encoding as the call, llvm-mc decodes it differently: call `%s` bytes %s llvm-mc `%s`: %s"
                                 % (harness_line(c), hb, ltext, hard),
                                 {"call": c, "bytes": hb, "model": v, "llvm": ltext, "problems": hard})
                elif soft:
                    stats["alias_notes"] += 1
                    alias_seen[(c["name"], ltext.split()[0] if ltext else "")] = hb
                else:
                    stats["llvm_agree"] += 1
        else:
            stats["verdict_bad"] += 1
            what = ("accepted call `%s` appended bytes %s; under the ISA-database rules they denote: %s [%s]; llvm-mc: `%s` (%s)"
                    % (harness_line(c), hb, vcands[:300] or "nothing", VERD.get(vcode, vcode), ltext, st))
            key = "C01/%s/%d/%s/%s" % (key_form, c["mode"], enc_kind, VERD.get(vcode, vcode))
            a16ops = [o for o in c["ops"] if o[0] == "M" and (o[3] == 2 or o[5] == 2) and o[8] != 0]
            if not hasattr(ck, "_evex_sigs"):
                sig_of = ck._sig_of = lambda r: tuple((d["kind"], d["cls"], d["slot"] == 6) for d in r["ops"] if not d["implicit"])
                ck._evex_sigs = {}
                for r in rows:
                    if r.get("kind") == 3:
                        ck._evex_sigs.setdefault(r["name"], set()).add(sig_of(r))
            sig_of, evex_sigs = ck._sig_of, ck._evex_sigs
            # a VEX operand form is covered by an EVEX form when each operand is the same, or the EVEX operand is reg-or-mem (kind 2)
            # and the VEX one its memory-only (kind 1) or register-only (kind 0, same class) restriction
            sig_covered = lambda sv, se: len(sv) == len(se) and all(
                v[2] == e[2] and ((v[0] == e[0] and v[1] == e[1]) or (e[0] == 2 and (v[0] == 1 or (v[0] == 0 and v[1] == e[1]))))
                for v, e in zip(sv, se))
            evex_names = getattr(ck, "_evex_names", None)
            if evex_names is None:
                evex_names = ck._evex_names = set(r["name"] for r in rows if r.get("kind") == 3)
            bp16 = [o for o in c["ops"] if o[0] == "M" and o[3] == 2 and o[4] == 5 and o[5] == 0 and o[8] == 0]
            is16call = c["name"] in ("call", "jmp") and any((o[0] == "R" and o[1] == 2) or (o[0] == "M" and o[1] == 2) for o in c["ops"])
            a16ops = [o for o in c["ops"] if o[0] == "M" and (o[3] == 2 or o[5] == 2) and o[8] != 0]
            bp16 = [o for o in c["ops"] if o[0] == "M" and o[3] == 2 and o[4] == 5 and o[5] == 0 and o[8] == 0]
            if c.get("eh") and ("k3" in vcands or "l1." in vcands or "f31" in vcands) and c["deco"]["k"] != 3:
                key = "C01/one-shot-state-leaks-after-refused-instruction"      # options / extra register of a refused call reach the next one
            elif is16call:
                key = "C01/call-jmp-16bit-operand/%s" % c["name"]
            elif re.match(r"^(26|2e|36|3e|64|65|66|67|f0|f2|f3)*4[0-9a-f](26|2e|36|3e|64|65|67)", hb):
                # EmitX86OpImplicitMem: repaired by fixes/C01-implicit-mem-rex-order.patch; EmitX86RFromM (umonitor): fixes/C01-rfromm-rex-order.patch
                key = "C01/rex-before-override-prefix" + ("/umonitor" if c["name"] == "umonitor" else "")
            elif c["name"] in ("maskmovq", "maskmovdqu", "vmaskmovdqu", "monitor", "monitorx") and any(o[0] == "M" and (o[2] or o[3] == (3 if c["mode"] == 64 else 2)) for o in c["ops"]) \
                    and not re.match(r"^(26|2e|36|3e|64|65|67)", hb):
                # the explicit [zdi] / [zax] operand's segment / address-size override is dropped
                key = "C01/explicit-fixed-memory-operand-override-dropped/%s" % c["name"]
            elif is_wait(c) and re.match(r"^(26|2e|36|3e|64|65|67)+9b", hb):
                # the override prefixes of the memory operand precede FWAIT: they apply to FWAIT and are lost for the instruction
                key = "C01/wait-form-override-prefix-before-fwait/%s" % c["name"]     # repaired by fixes/C01-fpu-wait-prefix-order.patch
            elif is_wait(c) and not hb.startswith("9b"):
                key = "C01/%s/wait-prefix-missing" % c["name"]
            elif "es-side-seg" in c.get("strat", ""):
                # a segment override on the ES:[zdi] operand of a string instruction, which cannot be overridden
                key = "C01/segment-override-on-es-operand/%s" % c["name"]
            elif c["name"] in ("lcall", "ljmp") and len(c["ops"]) == 2 and c["ops"][1][0] == "I" and c["ops"][1][1] < 0:
                key = "C01/far-immediate-negative-offset/%s" % c["name"]     # repaired by fixes/C01-far-immediate-offset.patch
            elif st == "ok" and lprobs == [] and linsts == 1:
                # llvm-mc reads the bytes exactly as the call: the database row is what disagrees
                key = "C01/db-disagrees-with-asmjit-and-llvm/%s/%s" % (c["name"], enc_kind)
            elif (c["opt"] & OPT["evex"]) and row is not None and row["kind"] == 1 and not any(sig_covered(sig_of(row), es) for es in evex_sigs.get(c["name"], ())):
                # the operand form exists only VEX-encoded (vcmppd xmm,xmm,xmm,imm; VEX gathers with a vector mask, ...)
                key = "C01/evex-option-on-vex-only-form/%s" % c["name"]
            elif c["deco"]["z"] and c["ops"] and c["ops"][0][0] == "M":
                key = "C01/zeroing-with-memory-destination/%s" % c["name"]
            elif row is not None and row["vsib"] and row["kind"] == 3 and c["deco"]["k"] == 0:
                key = "C01/evex-gather-scatter-without-mask/%s" % c["name"]
            elif c["deco"]["k"] > 7:
                key = "C01/kreg-id-above-7"            # DESIGN 7.2, repaired by fixes/C01-kreg-id.patch
            elif any(o[0] == "R" and o[1] == 16 and o[2] == 0 for o in c["ops"]) and c["name"] == "mov" and re.match(r"^(26|2e|36|3e|64|65|67)*a[02]", hb):
                key = "C01/mov-ah-absolute-encoded-as-al"    # repaired by fixes/C01-mov-moffs-ah.patch
            elif bp16 and vcode in ("1", "3"):
                key = "C01/addr16-bp-without-displacement"   # DESIGN 7.17, repaired by fixes/C01-mod16-bp.patch
            elif enc_kind == "evex" and a16ops:
                key = "C01/evex-16bit-addressing-disp8-not-scaled/%s" % c["name"]
            elif row is not None and c["deco"]["rc"] >= 0 and row["l"] in (0, 1):
                key = "C01/er-sae-on-128-256-form/%s" % c["name"]
            elif row is not None and c["deco"]["rc"] == 4 and row["er"]:
                key = "C01/sae-requested-on-er-instruction/%s" % c["name"]
            ck.violation(key, what,
                         {"call": c, "bytes": hb, "model": v, "llvm": ltext, "llvm_status": st, "llvm_problems": lprobs})
    ck.log("re-encoding: %d calls are encoder outputs, %d are not" % (reenc_checked - reenc_failed, reenc_failed))
    seen_re = set()
    # bound / lds / les (opcodes 62 / C5 / C4 with a memory ModRM byte, 32-bit mode) are decodable but outside the ENCODER model: X86Model.wf
    # excludes the EVEX / VEX lead bytes as legacy opcodes in both modes
    reenc_outside = [t for t in reenc_fail_calls if t[0]["name"] in ("bound", "lds", "les") and t[0]["mode"] == 32]
    reenc_fail_calls = [t for t in reenc_fail_calls if t not in reenc_outside]
    for c, hb, vre in reenc_fail_calls:
        kre = "C01/%s/%d/bytes-are-not-an-encoder-output" % (c["name"], c["mode"])
        if kre in seen_re or len(seen_re) >= 40:
            continue
        seen_re.add(kre)
        ck.violation(kre, "the accepted call `%s` decodes to the call, but its bytes %s are not an output of the proven structural encoder for that "
                     "instruction (X86Reencode.reencodes with the prefix order and choices the bytes exhibit: duplicated / stray prefix or a "
                     "non-canonical field): %s" % (harness_line(c), hb, vre), {"call": c, "impl": hb})
    for (a, b), hb in sorted(alias_seen.items()):
        ck.violation("C01/%s/llvm-mnemonic-%s" % (a, b), "llvm-mc prints mnemonic `%s` for an accepted `%s` (bytes %s); not in corpus/C01_llvm_alias.txt"
                     % (b, a, hb), {"bytes": hb, "asmjit": a, "llvm": b})
    for o in ck.proof_failures():
        ck.violation("C01/proof/" + o["name"], "theorem %s no longer checks (%s)" % (o["name"], getattr(ck, "coq_log", "")[-800:]),
                     {"broken": "theorem " + o["name"], "file": "coq/theories/Properties/Properties_C01.v"}, no_input=True)
    # coverage is explicit and must not silently shrink: supported database rows / rows with an accepted + verified call
    sup_n = len([r for r in rows if not r["unsupported"]])
    if sup_n < MIN_SUPPORTED_ROWS or len(covered_rows) < (MIN_VERIFIED_ROWS if not ck.replay else 0):
        ck.violation("C01/coverage-regressed", "supported database rows %d (floor %d), rows with an accepted and verified call %d (floor %d)"
                     % (sup_n, MIN_SUPPORTED_ROWS, len(covered_rows), MIN_VERIFIED_ROWS),
                     {"broken": "coverage floor of the C01 sweep (translator support or assembler acceptance collapsed)"}, no_input=True)
    uns = {}
    for r in rows:
        if r["unsupported"]:
            uns.setdefault(r["unsupported"], []).append(r["name"])
    sup_rows = [r for r in rows if not r["unsupported"]]
    never = sorted(set(r["name"] for r in sup_rows if r["id"] not in covered_rows))
    return ck.finish(
        "proof",
        {"evaluations": len(calls), "distinct_nontrivial": len(nontrivial),
         "rule": "calls generated from every supported database row x mode x register/memory/immediate/decoration strata (seeded); a case is "
                 "non-trivial when the assembler ACCEPTED it and the proven decoder mapped its bytes back to exactly the call; counted: distinct "
                 "(row, mode, memory stratum, reg/mem form, options used)",
         "proved_for_all_inputs": "structural decoder inverts structural encoder (any bytes after); denotation soundness / containment / uniqueness of the "
                                  "mnemonic and of the operand specifications; decoders return suffixes (every reading 1..|bytes| long); meaning of judge verdict 0 "
                                  "(operands, prefixes, decorations, exact length); the two readings of 9B-prefixed bytes",
         "rechecked_by_kernel_on_every_run": "database well-formedness / indexing / uniqueness / same-operand lemmas over the re-translated db/isa_x86.json; AsmJit's static "
                                             "tables = specification; opcode words, handler literals (read from x86assembler.cpp) and x87 derived forms vs. database, both "
                                             "directions per class list; enum numbers of the classes named by number; witnesses",
         "compared_per_call": "every generated call (all rows x modes x strata listed in input_distribution; the pinned-* strata are walked for EVERY row, the others are "
                              "seeded draws) is emitted by the real assembler, judged by the extracted Coq judge and re-decoded by llvm-mc; that AsmJit's bytes are "
                              "specification encodings is established on these calls only",
         "example_calls_with_both_readings": samples, "accepted": len(acc), "rejected_by_assembler": rejected, "mnemonics_unknown_to_asmjit": noinst[:50],
         "db_rows": len(rows), "db_rows_supported": len(sup_rows), "db_rows_with_accepted_and_verified_call": len(covered_rows),
         "supported_row_mnemonics_never_accepted": never[:80], "supported_row_mnemonics_never_accepted_count": len(never),
         "unsupported": {k: {"rows": len(v), "mnemonics": sorted(set(v))[:40]} for k, v in sorted(uns.items())},
         "asmjit_tables": tinfo,
         "db_rows_repaired": sorted(set("%s [%s]" % (r["name"], r["repaired"]) for r in rows if r.get("repaired")))[:60], "input_distribution": strata, "oracle": stats, "known_base_address_calls": len([1 for c, _ in acc if c.get("base")]),
         "known_base_address_calls_encoded_rip_relative": rip_readings, "x87_wait_form_calls_verified": wait_forms_verified, "calls_with_unchanged_bytes_in_front_of_the_instruction": frame_checked, "calls_whose_bytes_are_an_output_of_the_proven_encoder": reenc_checked - reenc_failed, "calls_whose_bytes_are_not_an_encoder_output": len(reenc_fail_calls), "calls_outside_the_encoder_model_bound_lds_les_32bit": len(reenc_outside), "calls_whose_vex_and_sib_choices_are_the_modelled_ones": choice_checked - choice_mismatch, "calls_whose_vex_or_sib_choice_differs": choice_mismatch, "calls_whose_mod_field_is_the_modelled_choice": mod_checked - mod_mismatch, "calls_whose_mod_field_differs_from_the_modelled_choice": mod_mismatch, "mnemonics_with_fixed_base_memory_signature": fixed_sig_names, "mnemonics_llvm_mc_14_never_decodes": sorted(llvm_never)[:300], "database_regenerated": regen is not None},
        assumptions=["the C++ harness calls the real x86::Assembler::_emit of /repo's working tree with DiagnosticOptions::kValidateAssembler",
                     "theorems are about the Gallina structural encoder/decoder; that AsmJit's bytes are decodable to the call is established on the generated calls only",
                     "the structural decoding rules (X86Model.v) and the disp8*N table (X86Denote.v) were written by hand from the Intel SDM; llvm-mc 14 cross-checks them on every accepted encoding it knows",
                     "tools/c01_isa.js + tools/c01_db.py (and the repository's own db/index.js expansion) are trusted to translate db/isa_x86.json faithfully"],
        checker_cmd="coqc (Coq 8.16.1) -Q coq/theories Verif -Q coq/gen VerifGen coq/theories/Properties/Properties_C01.v  [full .vo build of its dependencies; coq/gen/IsaX86Db.v regenerated from /repo and recompiled when it differs]",
        trusted_base=["Coq 8.16.1 kernel incl. vm_compute (no native_compute)", "extraction (ExtrOcamlBasic only) + OCaml 4.13.1 + zarith glue in ml/zconv.ml",
                      "harness/c01_harness.cpp, harness/c01_dump.cpp, ml/c01_driver.ml, tools/checks/c01.py (generator, llvm-mc comparison), tools/c01_db.py, tools/c01_isa.js, tools/c01_tables.py (incl. the regular expressions that read handler literals and the EncodingId enum from the source text), node, /repo/db/*.js",
                      "llvm-mc 14.0.6 as independent decoder"])

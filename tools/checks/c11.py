"""C11 — JIT memory management and independent code generation are thread-safe.

S2 theorems : coq/theories/Properties/Properties_C11.v (re-checked by coqc on every run) over
              coq/theories/Conc/{LockModel,LockProofs,ConcModel,ConcProofs,ProgramProofs}.v
S3 tie (T)  : tools/c11_skeleton.py re-extracts, on every run, from /repo's working tree
                * the lock skeleton of every public JitAllocator/JitRuntime entry point (clang -ast-dump=json of jitallocator.cpp and
                  jitruntime.cpp)                                   -> coq/gen/LockSkeleton.v   (reflection lemmas skeleton_ok, skeleton_coverage)
                * the data objects in writable sections of the static build (objdump -t) -> coq/gen/WritableGlobals.v (globals_ok)
              and the obligations are re-proved by coqc when the regenerated text differs from the committed snapshot.
S4 search   : EXPLORATION (sampled schedules, labelled as such in the evidence): ThreadSanitizer build of the library + harness/c11_harness.cpp:
              2..16 threads on one JitAllocator / one JitRuntime with per-thread ownership, content, overlap and statistics checks, and N threads
              generating code with private holders/emitters/compilers compared byte-for-byte with a single-threaded run. A TSan report or a
              mismatch is the failing schedule (replay = mode + seed + thread count + ops + options; the interleaving itself is not reproducible).
"""
import json
import os
import random
import re
import sys
from concurrent.futures import ThreadPoolExecutor

import vlib

sys.path.insert(0, os.path.join(vlib.VERIF, "tools"))
import c11_skeleton as S  # noqa: E402

TSAN_ENV = "halt_on_error=0 exitcode=66 report_signal_unsafe=0 history_size=4 second_deadlock_stack=1"


# ------------------------------------------------------------------ skeleton statistics (what the reflection lemma covers)
def sites(tree, memo, held, acc, fn_stack=()):
    k = tree[0]
    if k == "acc":
        acc.add((tree[1], tree[2] + "::" + tree[3], tree[4], held))
    elif k == "seq":
        for x in tree[1]:
            sites(x, memo, held, acc)
    elif k == "alt":
        sites(tree[1], memo, held, acc); sites(tree[2], memo, held, acc)
    elif k == "loop":
        sites(tree[1], memo, held, acc)
    elif k == "locked":
        sites(tree[4], memo, True, acc)
    elif k == "inl":
        sites(memo[tree[1]][1], memo, held, acc)


def coq_strings(text):
    out = []
    for x in re.findall(r'"((?:[^"]|"")*)"', text):
        x = re.sub(r"\s+", " ", x.replace('""', '"'))
        if x not in out:
            out.append(x)
    return out


def diagnose(ck, sk_text, gl_text, st_text=None):
    """the reflection lemmas failed: ask Coq for the diagnostics of the checker (names function / class::member)"""
    out = {}
    strip = lambda t: re.sub(r"(?ms)^Lemma \w+ : .*?^Proof\. vm_compute\. reflexivity\. Qed\.$", "", t)
    v1 = strip(sk_text) + "\nEval vm_compute in (check_program entry_points).\nEval vm_compute in (List.app (coverage_diag entry_points) (List.app (nonvacuous_diag entry_points) (List.app (check_lock_impl lock_impl) (excluded_unsafe_diag entry_points excluded_entry_skeletons)))).\n"
    rc, text = ck.coq_eval(v1, name="c11_diag_skeleton", timeout=600)
    # which entry points have a violation on LIVE code (a violating model execution exists: C11_checker_complete_on_live_code)
    v1b = strip(sk_text) + "\nEval vm_compute in (map fst (filter (fun p => viol (written entry_points) false (snd p)) entry_points)).\n"
    rcb, textb = ck.coq_eval(v1b, name="c11_diag_live", timeout=600)
    pb = textb.split("     = ")
    out["entry_points_with_a_violating_model_execution"] = coq_strings(pb[1]) if (rcb == 0 and len(pb) == 2) else []
    parts = text.split("     = ")
    if rc != 0 or len(parts) != 3:
        out["check_program"] = ["<diagnostic evaluation failed: %s>" % re.sub(r"\s+", " ", text[-400:])]
        out["coverage_diag"] = []
    else:
        out["check_program"] = coq_strings(parts[1])
        out["coverage_diag"] = coq_strings(parts[2])
    v2 = strip(gl_text) + "\nEval vm_compute in (check_globals writable_globals).\n"
    rc, text = ck.coq_eval(v2, name="c11_diag_globals", timeout=300)
    parts = text.split("     = ")
    out["check_globals"] = coq_strings(parts[1]) if (rc == 0 and len(parts) == 2) else ["<diagnostic evaluation failed: %s>" % re.sub(r"\s+", " ", text[-400:])]
    if st_text is not None:
        v3 = strip(st_text) + "\nEval vm_compute in (List.app (vcheck_program static_entry_points) (warmup_diag static_entry_points)).\n"
        rc, text = ck.coq_eval(v3, name="c11_diag_statics", timeout=300)
        parts = text.split("     = ")
        out["check_statics"] = coq_strings(parts[1]) if (rc == 0 and len(parts) == 2) else ["<diagnostic evaluation failed: %s>" % re.sub(r"\s+", " ", text[-400:])]
    return out


# ------------------------------------------------------------------ exploration
def stress_plan(rng, tier):
    """list of (mode, seed, threads, ops, opt). JitAllocatorOptions bits: 1 dual mapping, 2 multiple pools, 4 fill unused, 8 immediate release,
    16 no initial padding."""
    q = tier == "quick"
    sd = lambda: rng.randrange(1, 1 << 30)
    if q:
        # quick: few, short runs (the obligations are the proof part; this is a smoke exploration). 4 = kFillUnusedMemory.
        return [
            ("alloc", sd(), 2, 20000, 4),
            ("alloc", sd(), 8, 8000, 4 | 2),
            ("alloc", sd(), 16, 4000, 8),
            ("alloc", sd(), 4, 10000, 1 | 4),
            ("runtime", sd(), 4, 4000, 4),
            ("runtime", sd(), 8, 2000, 0),
            ("codegen", sd(), 4, 200, 0),
            ("codegen", sd(), 8, 100, 0),
            ("ownrt", sd(), 8, 300, 1),
            ("sweep", sd(), 8, 8, 0),
            ("multirt", sd(), 8, 1500, 4),
        ]
    plan = [
        ("alloc", sd(), 2, 300000, 0),
        ("alloc", sd(), 4, 200000, 2),
        ("alloc", sd(), 8, 120000, 4 | 2),
        ("alloc", sd(), 16, 60000, 8),
        ("alloc", sd(), 4, 150000, 1 | 4),
        ("alloc", sd(), 8, 100000, 16 | 8 | 2),
        ("alloc", sd(), 3, 150000, 4),
        ("runtime", sd(), 4, 60000, 0),
        ("runtime", sd(), 8, 30000, 4),
        ("runtime", sd(), 16, 15000, 1),
        ("codegen", sd(), 4, 4000, 0),
        ("codegen", sd(), 8, 2000, 0),
        ("codegen", sd(), 16, 1000, 0),
        ("ownrt", sd(), 8, 3000, 1),
        ("ownrt", sd(), 16, 1500, 0),
        ("sweep", sd(), 8, 8, 0),
        ("sweep", sd(), 16, 32, 0),
        ("multirt", sd(), 8, 20000, 4),
        ("multirt", sd(), 16, 8000, 6),
    ]
    for rep in range(12):
        plan.append(("alloc", sd(), rng.choice([2, 3, 5, 8, 12, 16]), 100000, rng.choice([0, 1, 2, 4, 6, 8, 10, 16, 22])))
        plan.append(("runtime", sd(), rng.choice([2, 4, 8, 16]), 20000, rng.choice([0, 2, 4, 8])))
    return plan


HUNG = set()


def run_one(exe, cfg, timeout):
    mode, seed, threads, ops, opt = cfg
    if mode in HUNG:
        return cfg, -1, "", "skipped: an earlier %s run hung" % mode
    env = dict(os.environ)
    env["TSAN_OPTIONS"] = TSAN_ENV
    rc, out, err = vlib.sh([exe, mode, str(seed), str(threads), str(ops), str(opt)], timeout=timeout, env=env)
    if rc == 124:
        HUNG.add(mode)
    return cfg, rc, out, err


def tsan_reports(err):
    reps = []
    for blk in err.split("=================="):
        if "WARNING: ThreadSanitizer" in blk:
            m = re.search(r"SUMMARY: ThreadSanitizer: ([a-z \-]+?) (\S+) in (.*)", blk)
            kind = m.group(1).strip().replace(" ", "-") if m else "report"
            where = re.sub(r"asmjit::v\d+_\d+::", "asmjit::", m.group(3)).strip() if m else "?"
            where = re.sub(r"<[^<>]*>", "", re.sub(r"<[^<>]*>", "", re.sub(r"<[^<>]*>", "", where)))
            cands = re.findall(r"([\w:~]+)\s*\(", where)
            where = (cands[0] if cands else where.split(" ")[-1]).replace("asmjit::", "")
            loc = os.path.basename(m.group(2)) if m else "?"
            # functions of asmjit on the racing stacks (for the message)
            gm = re.search(r"Location is global '([^']*)'", blk)
            glob = re.sub(r"\s*\(\.\d+\)$", "", re.sub(r"asmjit::v\d+_\d+::", "asmjit::", gm.group(1))) if gm else None
            frames = re.findall(r"#\d+ (asmjit::\S+?)\(", blk)
            reps.append({"kind": kind, "function": where, "location": loc, "asmjit_frames": sorted(set(frames))[:8], "global": glob, "text": blk.strip()[:6000]})
    return reps


def lockguard_functions_by_text(repo):
    """INDEPENDENT of the clang translator: functions of jitallocator.cpp / jitruntime.cpp whose text declares a LockGuard (regex over
    the source; a function header is a non-indented line ending in '{')."""
    out = set()
    for rel in ("asmjit/core/jitallocator.cpp", "asmjit/core/jitruntime.cpp"):
        cur = None
        for line in open(os.path.join(repo, rel), errors="replace"):
            m = re.match(r"^[A-Za-z_].*?([A-Za-z_][\w:]*)\s*\([^;]*\)[^;]*\{\s*$", line)
            if m and not line.startswith(("if", "for", "while", "switch", "namespace", "class", "struct")):
                cur = m.group(1)
            if re.search(r"\bLockGuard\s+\w+\s*[({]", line) and not line.lstrip().startswith("//") and cur:
                out.add(cur)
    return out


def regen_own(ck, files):
    """Translator tie, own variant of vlib.Check.coq_regen (which recompiles EVERY file of coq/gen, minutes once all properties are
    merged): Properties_C11.v imports only VerifGen.LockSkeleton and VerifGen.WritableGlobals, so only these two are written to a
    scratch directory and recompiled there. None if identical to the committed snapshot, else (gen_dir, failed_files, log)."""
    import shutil
    gen = os.path.join(vlib.COQ, "gen")
    if all(os.path.exists(os.path.join(gen, n)) and open(os.path.join(gen, n)).read() == t for n, t in files.items()):
        return None
    wgen = os.path.join(ck.work, "gen")
    shutil.rmtree(wgen, ignore_errors=True)
    os.makedirs(wgen)
    ck.coq_make(["theories/Conc/LockModel.vo"])
    failed, log = [], ""
    for n, t in files.items():
        open(os.path.join(wgen, n), "w").write(t)
        rc, out, err = vlib.sh(["coqc", "-Q", os.path.join(vlib.COQ, "theories"), "Verif", "-Q", wgen, "VerifGen", "-w", "-all",
                                os.path.join(wgen, n)], cwd=wgen, timeout=900)
        if rc != 0:
            failed.append(n)
            log += (out + err)[-3000:]
    return wgen, failed, log


def allow_list_justifications():
    """(translation unit, symbol, required kind, why) of every allow-listed writable global, read from LockModel.v"""
    txt = open(os.path.join(vlib.COQ, "theories", "Conc", "LockModel.v")).read()
    m = re.search(r"Definition allowed_globals.*?:=\s*\[(.*?)\]\.", txt, re.S)
    out = []
    if m:
        for tu, sym, kind, why in re.findall(r'\(\s*"([^"]*)",\s*"([^"]*)",\s*"([^"]*)",\s*"([^"]*)"\s*\)', m.group(1), re.S):
            out.append({"translation_unit": tu, "symbol": sym, "kind": kind, "why": re.sub(r"\s+", " ", why)})
    return out


# ------------------------------------------------------------------ seq_refines checked on real concurrent executions
def sections_plan(rng, tier):
    """(seed, threads, ops per thread, options, granularity, block size)"""
    sd = lambda: rng.randrange(1, 1 << 30)
    plan = [(sd(), 4, 400, 0, 64, 65536), (sd(), 8, 250, 2, 64, 65536), (sd(), 16, 120, 8, 128, 65536), (sd(), 3, 500, 16 | 2, 256, 131072)]
    if tier != "quick":
        # block sizes stay small: the extracted model works on unary-positive bit vectors, its step time grows with the block area
        plan += [(sd(), rng.choice([2, 4, 8, 12, 16]), 400, rng.choice([0, 2, 8, 10, 16, 18, 26]), rng.choice([64, 128, 256]),
                  rng.choice([65536, 131072])) for _ in range(12)]
    return plan


def sections_check(ck, rng):
    """harness/c11_sections.cpp: N threads on one allocator, every critical section captured (acquire order, abstract state at the
    release); the extracted C09 model replays the operations in acquire order: answer, block table (D) and counters (T) of EVERY
    section must equal the model's."""
    exe = ck.build_harness("c11sec", ["c11_sections.cpp"], variant="plain")
    vlib.sh("./mkproject.sh", cwd=vlib.COQ, timeout=120)      # the C09 theories may be newer than this tree's Makefile
    ev = open(os.path.join(vlib.COQ, "extract", "Extract_Jit.v")).read()
    mods = sorted(set(m for line in re.findall(r"(?m)^From Verif Require Import (.*)\.\s*$", ev) for m in line.split())) or ["Jit.JitModel"]
    failed = ck.coq_make(["theories/%s.vo" % m.replace(".", "/") for m in mods])
    if failed:
        raise RuntimeError("cannot build the C09 model theories needed for the sections replay: %s" % failed)
    model = ck.ocaml_model("Extract_Jit.v", ["zconv.ml", "c09_driver.ml"], name="c09")
    info = {"runs": 0, "sections": 0, "sections_by_op": {}, "interleaved_sections": 0, "mismatches": 0, "configs": [],
            "ownership_discipline_violations": 0}

    def produce(cfg):
        seed, threads, ops, opt, gran, bs = cfg
        rc, out, err = vlib.sh([exe] + [str(x) for x in cfg], timeout=300)
        lines = out.splitlines()
        if rc != 0 or not lines or not lines[-1].startswith("END"):
            return cfg, rc, out, err, None
        head = lines[0].split(" ;; ")
        recs = [l.split(" ;; ") for l in lines[1:-1]]
        stream, expect, handle_of, nalloc = [head[0]], [head[1]], {}, 0
        prev_tid, inter, by_op, owner, live, disc = None, 0, {}, {}, set(), []
        for si, r in enumerate(recs):
            seq, tid, aseq = r[0].split()
            cmd = r[1]
            if cmd.startswith("A"):
                handle_of[seq] = nalloc
                if r[2].startswith("A ok"):
                    owner[nalloc] = tid
                    live.add(nalloc)
                nalloc += 1
                line = cmd
            elif cmd == "T":
                line = "T"
            else:
                h = handle_of.get(aseq, -1)
                # per-thread ownership discipline (conc_ok of Conc/RefineProofs.v): release / shrink / query only of a span this thread
                # obtained itself and has not released
                if h not in live or owner.get(h) != tid:
                    disc.append((si, tid, cmd, h))
                if cmd.startswith("R") and h in live:
                    live.discard(h)
                parts = cmd.split()
                line = "%s %d%s" % (parts[0], h, (" " + " ".join(parts[1:])) if len(parts) > 1 else "")
            stream += [line, "D", "T"]
            expect += [r[2], r[3], r[4]]
            by_op[cmd[0]] = by_op.get(cmd[0], 0) + 1
            if prev_tid is not None and tid != prev_tid:
                inter += 1
            prev_tid = tid
        stream.append("X"); expect.append("X")
        rcm, outm, errm = vlib.sh([model, "15"], inp="\n".join(stream) + "\n", timeout=900)
        return cfg, rc, out, err, (recs, stream, expect, inter, by_op, disc, rcm, outm.splitlines(), errm)

    with ThreadPoolExecutor(max_workers=4) as ex:
        produced = list(ex.map(produce, sections_plan(rng, ck.tier)))
    for cfg, rc, out, err, res in produced:
        seed, threads, ops, opt, gran, bs = cfg
        rp = {"sections_cmd": "<c11sec harness> %s" % " ".join(str(x) for x in cfg), "seed": seed, "threads": threads, "ops": ops, "opt": opt,
              "granularity": gran, "block_size": bs}
        if res is None:
            ck.violation("C11/sections/harness-crash", "sections harness %s rc=%d: %s" % (cfg, rc, (out[-300:] + err[-600:])), rp)
            continue
        recs, stream, expect, inter, by_op, disc, rcm, got, errm = res
        for k, v in by_op.items():
            info["sections_by_op"][k] = info["sections_by_op"].get(k, 0) + v
        info["runs"] += 1; info["sections"] += len(recs); info["interleaved_sections"] += inter
        info["ownership_discipline_violations"] += len(disc)
        info["configs"].append({"seed": seed, "threads": threads, "ops_per_thread": ops, "options": opt, "granularity": gran, "block_size": bs,
                                "sections": len(recs), "thread_switches": inter})
        if disc:
            ck.violation("C11/sections/harness-discipline", "the sections harness itself broke the per-thread ownership discipline (conc_ok): %s" % (disc[:3],), rp, no_input=True)
        if rcm != 0 or len(got) != len(expect):
            ck.violation("C11/sections/model-crash", "C09 model driver rc=%d produced %d lines for %d commands: %s" % (rcm, len(got), len(expect), errm[-300:]), rp, no_input=True)
            continue
        for i, (e, g) in enumerate(zip(expect, got)):
            if e != g:
                si = (i - 1) // 3
                what = ["answer", "block table (D)", "counters (T)"][(i - 1) % 3] if i > 0 else "configuration"
                r = recs[si] if 0 <= si < len(recs) else None
                info["mismatches"] += 1
                ck.violation("C11/seq-refines/%s/%s" % (r[1].split()[0] if r else "H", what.split()[0]),
                             "critical section #%d (thread %s, %s) of a %d-thread run is not the C09 model step from the state the previous section left: %s differs: "
                             "implementation %r, model %r" % (si, r[0].split()[1] if r else "-", r[1] if r else "H", threads, what, e, g),
                             dict(rp, section_index=si, command_stream=stream[:i + 1][-40:], implementation=e, model=g,
                                  previous_sections=[" ;; ".join(x) for x in recs[max(0, si - 3):si + 1]]))
                break
    return info


def run(ck):
    rng = random.Random(ck.seed)
    if ck.replay:
        return replay(ck)

    # ---------------------------------------------------------------- translator tie
    lib = ck.build_lib("plain")
    sk_text, sk_info = S.gen_skeleton(vlib.REPO)
    gl_text, gl_syms = S.gen_globals(lib["lib"], vlib.REPO)
    bld, eps2 = sk_info.pop("_builder"), sk_info.pop("_eps")
    if sk_info["untranslated_nodes"]:
        # a defect of the checking machinery, not a verdict: the traversal skipped evaluated member accesses / calls
        raise RuntimeError("c11_skeleton.py did not translate some member accesses / calls: %s" % sk_info["untranslated_nodes"])
    # independent cross-check of the (trusted) translator: the functions in which it found a LockGuard = the functions whose text has one
    def locked_fns(t, memo, acc):
        k = t[0]
        if k == "locked":
            acc.add(t[1]); locked_fns(t[4], memo, acc)
        elif k == "seq":
            for x in t[1]:
                locked_fns(x, memo, acc)
        elif k == "alt":
            locked_fns(t[1], memo, acc); locked_fns(t[2], memo, acc)
        elif k == "loop":
            locked_fns(t[1], memo, acc)
        elif k == "inl":
            locked_fns(memo[t[1]][1], memo, acc)
    by_ast = set()
    for _sig, _name, tree in eps2:
        locked_fns(tree, bld.memo, by_ast)
    by_text = lockguard_functions_by_text(vlib.REPO)
    if by_ast != by_text:
        raise RuntimeError("translator cross-check failed: LockGuard found by the AST translator in %s, by the text scan in %s" % (sorted(by_ast), sorted(by_text)))
    st_text, st_entries = S.gen_statics(vlib.REPO)
    r = regen_own(ck, {"LockSkeleton.v": sk_text, "WritableGlobals.v": gl_text, "StaticsSkeleton.v": st_text})
    gen_dir, gen_failed, diags = None, [], {}
    if r is None:
        ck.log("translator: regenerated skeleton + globals identical to the committed snapshot (%d entry points)" % len(sk_info["entry_points"]))
    else:
        gen_dir, gen_failed, log = r
        ck.log("translator: regenerated files differ from the snapshot; recompiled in %s; failed: %s" % (gen_dir, gen_failed))
        if gen_failed:
            diags = diagnose(ck, sk_text, gl_text, st_text)
            ck.log("checker diagnostics: %s" % json.dumps(diags)[:1500])
    obl = ck.coq_properties(gen_dir=gen_dir)
    ck.log("theorems: %d, failed: %d" % (len(obl), len([o for o in obl if not o["ok"]])))

    # ---------------------------------------------------------------- exploration under ThreadSanitizer (always)
    exe = ck.build_harness("c11", ["c11_harness.cpp"], variant="tsan")
    plan = stress_plan(rng, ck.tier)
    timeout = 60 if ck.tier == "quick" else 900
    alldiag = [d for k in ("check_program", "coverage_diag", "check_globals", "check_statics") for d in diags.get(k, [])]
    with ThreadPoolExecutor(max_workers=4) as ex:
        results = list(ex.map(lambda c: run_one(exe, c, timeout), plan))
    lines, tsan_total, ops_total = [], 0, 0
    explored_bad = False
    for cfg, rc, out, err in results:
        mode, seed, threads, ops, opt = cfg
        rp = {"mode": mode, "seed": seed, "threads": threads, "ops": ops, "opt": opt,
              "cmd": "TSAN_OPTIONS='%s' <c11 tsan harness> %s %d %d %d %d" % (TSAN_ENV, mode, seed, threads, ops, opt),
              "note": "schedules are sampled: the same parameters re-run the same per-thread operation streams, not the same interleaving"}
        summary = [l for l in out.splitlines() if l.startswith(("OK ", "MISMATCH "))]
        details = [l for l in out.splitlines() if l.startswith("DETAIL ")]
        lines += summary
        ops_total += threads * ops * (1 if mode != "codegen" else 1)
        reps = tsan_reports(err)
        tsan_total += len(reps)
        for rep in reps[:6]:
            explored_bad = True
            key = "C11/tsan/%s/%s" % (rep["kind"], rep["function"])
            ck.violation(key, "ThreadSanitizer %s in %s (%s) with %d threads on one %s [%s]; asmjit frames: %s" % (
                rep["kind"], rep["function"], rep["location"], threads,
                {"alloc": "JitAllocator", "runtime": "JitRuntime", "codegen": "process (independent code generation)",
                 "ownrt": "process (every thread its own JitRuntime: only the process-wide caches are shared)",
                 "coldstart": "process (cold start)",
                 "sweep": "process (every thread sweeps all x86 + AArch64 instruction ids through validate / rw-info / features / formatter / _emit)",
                 "multirt": "set of JitRuntimes with different custom allocator parameters"}[mode],
                "; ".join(alldiag[:3]) or "skeleton obligations hold", ", ".join(rep["asmjit_frames"])),
                dict(rp, tsan_report=rep["text"], skeleton_diagnostics=diags))
        if details or any(l.startswith("MISMATCH") for l in summary):
            explored_bad = True
            first = details[0][7:] if details else summary[0]
            key = "C11/monitor/%s/%s" % (mode, re.sub(r"t\d+ ", "", re.sub(r"[0-9a-fx]{6,}|\d+", "N", first))[:80])
            ck.violation(key, "%s stress with %d threads: %s" % (mode, threads, first), dict(rp, details=details[:10], summary=summary))
        elif rc == -1:
            continue
        elif rc == 124:
            explored_bad = True
            ck.violation("C11/hang/%s" % mode, "%s stress with %d threads did not finish within %ds (deadlock?) [%s]" % (mode, threads, timeout, "; ".join(alldiag[:3])),
                         dict(rp, stderr=err[-2000:], skeleton_diagnostics=diags))
        elif rc not in (0, 66) or not summary:
            explored_bad = True
            ck.violation("C11/harness/%s-crash" % mode, "harness %s rc=%d: %s" % (cfg, rc, (out[-300:] + err[-1500:])), dict(rp, stderr=err[-4000:]))

    # ---------------------------------------------------------------- seq_refines on captured critical sections (C09 model in acquire order)
    sec_info = sections_check(ck, rng)
    ck.log("sections: %d critical sections of %d concurrent runs replayed through the C09 model, %d mismatches" % (sec_info["sections"], sec_info["runs"], sec_info["mismatches"]))

    # ---------------------------------------------------------------- cold start: OUTSIDE the premise, documented only (never a violation)
    # Races on the two init-once caches the premise names (vm_info, cpu_info_global) are recorded only. A race on ANY OTHER static during
    # cold start (an atomic turned plain, an unguarded cache) is not excused by the premise's wording about *host information* being
    # initialised by the first call of info()/host(): it is reported as a violation with the cold-start parameters as input. When a
    # statics / globals obligation broke, more cold starts are run to search for that input.
    PREMISE_GLOBALS = ("vm_info", "cpu_info_global")
    cold = {"runs": 0, "tsan_reports": 0, "racing_functions": [], "racing_globals": [], "mismatches": 0}
    n_cold = (2 if ck.tier == "quick" else 12) + (10 if (diags.get("check_statics") or diags.get("check_globals")) else 0)
    for rep in range(n_cold):
        ccfg = ("coldstart", rng.randrange(1, 1 << 30), 16, 0, 0)
        _, rc, out, err = run_one(exe, ccfg, 120)
        cold["runs"] += 1
        reps = tsan_reports(err)
        cold["tsan_reports"] += len(reps)
        cold["racing_functions"] = sorted(set(cold["racing_functions"]) | set(r["function"] for r in reps))
        cold["racing_globals"] = sorted(set(cold["racing_globals"]) | set(r["global"] for r in reps if r.get("global")))
        cold["mismatches"] += len([l for l in out.splitlines() if l.startswith("MISMATCH")])
        for rep_ in reps:
            g = rep_.get("global")
            if g and not any(re.search(r"(^|::)%s\b" % p, g) for p in PREMISE_GLOBALS):
                explored_bad = True
                ck.violation("C11/coldstart/data-race/%s" % g.split("::")[-1],
                             "ThreadSanitizer %s on static %s in %s during a cold start with 16 threads: not one of the host-information caches the premise excuses [%s]" % (
                                 rep_["kind"], g, rep_["function"], "; ".join(alldiag[:3]) or "statics obligations hold"),
                             {"mode": "coldstart", "seed": ccfg[1], "threads": 16, "ops": 0, "opt": 0, "tsan_report": rep_["text"], "skeleton_diagnostics": diags})

    # ---------------------------------------------------------------- obligations that broke without an exhibited schedule
    for kind, thm in (("check_program", "C11_all_shared_access_locked"), ("coverage_diag", "C11_skeleton_coverage"), ("check_globals", "C11_no_shared_mutable_globals"),
                      ("check_statics", "C11_statics_guarded")):
        for d in ([] if explored_bad else diags.get(kind, [])):
            if kind == "check_statics" and d.split(": ", 1)[-1].startswith("a normal call of") or d.startswith("a normal call of"):
                thm = "C11_statics_warmup_sets_flags"
            key = "C11/skeleton/" + re.sub(r"\s+", "-", d)[:120]
            live = diags.get("entry_points_with_a_violating_model_execution", [])
            if kind == "check_program":
                d = d + (" [live code: a violating execution of this entry point exists in the model (C11_checker_complete_on_live_code)]"
                         if any(d.startswith(e + ": ") for e in live) else " [not on live code of the skeleton, or not a lock-discipline diagnostic]")
            ck.violation(key, "%s fails on the regenerated %s: %s%s" % (
                thm, {"check_globals": "WritableGlobals.v", "check_statics": "StaticsSkeleton.v"}.get(kind, "LockSkeleton.v"), d,
                "" if explored_bad else " (ThreadSanitizer exploration of %d schedules exhibited no failing schedule)" % len(plan)),
                {"broken": thm, "diagnostic": d, "all_diagnostics": diags, "file": "coq/gen (regenerated in %s)" % gen_dir,
                 "explored": [list(c) for c in plan]}, no_input=True)
    for o in ck.proof_failures():
        if any(diags.get(k) for k in diags):
            continue    # already reported by name above
        ck.violation("C11/proof/" + o["name"], "theorem %s no longer checks (%s)" % (o["name"], getattr(ck, "coq_log", "")[-800:]),
                     {"broken": "theorem " + o["name"], "file": "coq/theories/Properties/Properties_C11.v", "gen_failed": gen_failed}, no_input=True)

    # ---------------------------------------------------------------- evidence
    st = set()
    for sig, name, tree in eps2:
        sites(tree, bld.memo, False, st)
    locked_sites = len([x for x in st if x[3]])
    samples = [{"site": "%s: %s %s %s" % (fn, "write" if m == "W" else "read", fld, "under lock" if h else "without lock (member never written by an entry point, or thread-owned class)")}
               for fn, fld, m, h in sorted(st)[:: max(1, len(st) // 6)][:6]] + [{"stress": l} for l in lines[:4]]
    return ck.finish(
        "proof",
        {"evaluations": len(st) + ops_total,
         "distinct_nontrivial": len(st),
         "rule": "distinct access sites (function, class::member, read/write, lock held?) of the regenerated skeleton that the reflection lemma "
                 "skeleton_ok decides; exploration counted separately (stress_operations)",
         "samples": samples,
         "entry_points": sk_info["entry_points"], "excluded_entry_points": sk_info["excluded"],
         "skeleton_events_per_entry_point": sk_info["events"], "inlined_functions": sk_info["inlined_functions"],
         "ast_kinds_without_rule": sk_info["unknown_ast_kinds"], "untranslated_member_accesses_or_calls": sk_info["untranslated_nodes"],
         "lock_implementation": sk_info["lock_impl"],
         "access_sites": len(st), "access_sites_under_lock": locked_sites,
         "statics_entry_points": st_entries, "lockguard_functions_ast_equals_text_scan": sorted(by_ast),
         "writable_globals": [list(x) for x in gl_syms],
         "data_objects_per_translation_unit": getattr(S.gen_globals, "per_tu", {}),
         "writable_globals_justification": allow_list_justifications(), "object_symbols_by_section": getattr(S.gen_globals, "sections", {}),
         "translator_snapshot_identical": r is None, "regenerated_files_failed": gen_failed, "checker_diagnostics": diags,
         "exploration": {"label": "EXPLORATION, not an obligation: schedules are sampled by the OS scheduler under ThreadSanitizer",
                         "stress_runs": len(plan), "stress_operations": ops_total, "tsan_reports": tsan_total,
                         "thread_counts": sorted(set(c[2] for c in plan)), "allocator_option_masks": sorted(set(c[4] for c in plan if c[0] != "codegen")),
                         "runs": [{"mode": c[0], "seed": c[1], "threads": c[2], "ops_per_thread": c[3], "options": c[4]} for c in plan],
                         "replay_rule": "--replay <violation.json> re-runs the recorded (mode, seed, threads, ops, options) 20 times",
                         "summaries": lines},
         "seq_refines_checked": dict(sec_info, note="hypothesis seq_refines of C11_concurrent_refines_c09 COMPARED on the concurrent executions of this run (numbers above): "
                                     "every critical section, captured inside the lock in acquire order, equals the step of the extracted C09 model (operation answer, "
                                     "whole block table, counters); the per-thread ownership discipline conc_ok is checked on the same histories"),
         "proved_vs_compared": {
             "proved_for_all_executions_of_the_model": [
                 "checker soundness (C11_locked_entry_points, C11_outside_lock_thread_local): every path of every entry-point skeleton",
                 "C11_drf, C11_linearizable, C11_holder_never_blocks: any number of threads, any call sequences, every interleaving the mutex admits",
                 "C11_c09_lifts (+ invariant / live_disjoint / stats_exact, C11_owned_spans_distinct): every disciplined concurrent history, every configuration",
                 "C11_concurrent_refines_c09: every cell-level execution, under seq_refines + conc_ok (C11_ownership_discipline_decided decides the latter)",
                 "C11_init_once_published(_by_knowledge), C11_independent_threads",
                 "C11_statics_warm_no_writes, C11_statics_warm_after_first_call, C11_statics_flags_frame: every path of the statics skeletons, every flag valuation"],
             "re_proved_on_this_run_over_regenerated_data": {
                 "LockSkeleton.v": "skeleton_ok, skeleton_coverage, lock_impl_ok, skeleton_nonvacuous over %d access sites of %d entry points" % (len(st), len(sk_info["entry_points"])),
                 "WritableGlobals.v": "globals_ok over %d writable data objects of %d translation units" % (len(gl_syms), len(getattr(S.gen_globals, "per_tu", {}))),
                 "StaticsSkeleton.v": "statics_ok, statics_warmup_ok over %d functions" % len(st_entries)},
             "compared_on_this_run": {
                 "critical_sections_vs_C09_model": sec_info["sections"], "concurrent_runs": sec_info["runs"], "mismatches": sec_info["mismatches"],
                 "thread_switches_between_consecutive_sections": sec_info["interleaved_sections"]},
             "explored_on_this_run_not_proved": {"tsan_runs": len(plan), "operations": ops_total, "tsan_reports": tsan_total,
                                                 "why": "real schedules and the C++ memory model are outside the Coq model"}},
         "cold_start_outside_premise": dict(cold, note="threads whose first AsmJit call constructs a JitRuntime: CpuInfo::host()/VirtMem::info() initialise "
                                                        "concurrently; excluded by the premise 'once the host information has been initialised'; reports here are "
                                                        "recorded, never counted as violations")},
        assumptions=["ASSUMED, not proved: operations on std::atomic objects never constitute a data race (C++ [intro.races]); the statics skeleton maps them to silent steps",
                     "ASSUMED, not proved: no address forging - a thread can use the address of an allocator object only after reading it from a cell (object knowledge "
                     "hypothesis of C11_init_once_published_by_knowledge); Span::_block belongs to the thread that owns the span",
                     "ASSUMED in C11_concurrent_refines_c09, compared on every run (coverage.seq_refines_checked: sections / mismatches): seq_refines - each critical section "
                     "alone is one step of the C09 model",
                     "theorems are about the mutex model (one lock, sequentially consistent shared cells keyed by object and member); the step from the "
                     "lock skeleton to the C++ memory model / pthread mutex semantics is trusted and only probed by ThreadSanitizer",
                     "tools/c11_skeleton.py is trusted to see every MemberExpr / LockGuard / call of the entry points (clang 14 AST); accesses through "
                     "raw pointers are attributed only for bit-vector members passed to callees or subscripted; implicit destructors other than LockGuard are ignored",
                     "objects of classes on the reviewed 'owned' list (Span, Statistics, CodeHolder, ...) are used by one thread at a time (contract of the property)",
                     "reset() / construction / destruction are excluded: documented not thread-safe",
                     "host information (CpuInfo::host, VirtMem::info) is initialised before threads start (premise of the property)",
                     "linearisability is stated against an arbitrary sequential behaviour of critical sections; the instantiation with the C09 model is not linked here"],
        checker_cmd="coqc (Coq 8.16.1) -Q coq/theories Verif -Q coq/gen VerifGen coq/theories/Properties/Properties_C11.v  [full .vo build of its dependencies; "
                    "coq/gen/LockSkeleton.v + WritableGlobals.v regenerated from /repo and re-checked when they differ from the snapshot]",
        trusted_base=["Coq 8.16.1 kernel incl. vm_compute (no native_compute)", "no axioms: every theorem 'Closed under the global context'",
                      "tools/c11_skeleton.py (clang AST -> skeleton, objdump -> globals), reviewed lists in coq/theories/Conc/LockModel.v "
                      "(shared/owned classes, allowed callees, allowed globals)", "clang 14 -ast-dump=json, objdump",
                      "harness/c11_harness.cpp + ThreadSanitizer (exploration only)", "tools/checks/c11.py"])


def replay(ck):
    rp = json.load(open(ck.replay))
    r = rp["replay"]
    if "mode" in r:
        exe = ck.build_harness("c11", ["c11_harness.cpp"], variant="tsan")
        cfg = (r["mode"], r["seed"], r["threads"], r["ops"], r["opt"])
        # the same parameters (mode, seed, thread count, ops, options) are re-run 20 times: the per-thread operation streams are
        # identical every time, the interleaving is whatever the scheduler does; a schedule-dependent failure shows up in a fraction
        failing, shown = 0, 0
        for attempt in range(20):
            HUNG.discard(cfg[0])
            _, rc, out, err = run_one(exe, cfg, 600)
            reps = tsan_reports(err)
            bad = bool(reps) or rc not in (0,) or any(l.startswith(("MISMATCH", "DETAIL")) for l in out.splitlines())
            failing += 1 if bad else 0
            print("attempt %2d: rc=%d tsan_reports=%d %s" % (attempt + 1, rc, len(reps), (out.splitlines() or [""])[0][:160]))
            if bad and shown < 2:
                shown += 1
                for l in out.splitlines():
                    if l.startswith("DETAIL"):
                        print("   ", l)
                for x in reps[:1]:
                    print(x["text"][:2500])
        print("replay: %d of 20 runs with these parameters failed (threads=%d ops=%d opt=%d seed=%d)" % (failing, cfg[2], cfg[3], cfg[4], cfg[1]))
        print("note: the per-thread operation streams are reproduced exactly; the interleaving is chosen by the OS scheduler")
        return 0
    lib = ck.build_lib("plain")
    sk_text, _ = S.gen_skeleton(vlib.REPO)
    gl_text, _ = S.gen_globals(lib["lib"], vlib.REPO)
    st_text, _ = S.gen_statics(vlib.REPO)
    print(json.dumps(diagnose(ck, sk_text, gl_text, st_text), indent=1))
    return 0

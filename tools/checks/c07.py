"""C07 — Prolog/epilog preserve callee-saved state and keep frame areas disjoint.

S2 theorems : coq/theories/Properties/Properties_C07.v (re-checked by coqc on every run)
S3 tie      : harness/c07_harness.cpp drives the REAL FuncDetail::init / FuncFrame::init / FuncFrame::finalize and
              emit_prolog / emit_epilog (x86::Builder, a64::Builder, and the Assemblers for encodability) of /repo's working
              tree; the extracted Coq model (coq/extract/Extract_Frame.v + ml/c07_driver.ml) answers the SAME frame commands;
              every accessor value and both instruction lists must be equal, frame by frame
S4 search   : tools/c07_oracle.py — an independent byte-level interpreter of the implementation's instruction lists — judges the
              property itself on EVERY generated frame (entry state, poisoning body, epilog); x86-64 frames of the host ABIs are
              additionally executed natively (harness command X) around a register/stack poisoning body
"""
import json
import os
import random
import re
from concurrent.futures import ThreadPoolExecutor
from multiprocessing import Pool

import vlib
import c07_gen
import c07_oracle

NSHARD = 16


def canon_impl(line):
    """assembler error fields are not part of the model's answer"""
    return re.sub(r" ([PE]) (\d+) \d+ ", r" \1 \2 - ", line)


def run_sharded(exe, cmds, timeout=1500):
    chunks = [cmds[i::NSHARD] for i in range(NSHARD)]

    def one(chunk):
        if not chunk:
            return []
        rc, out, err = vlib.sh([exe], inp="\n".join(chunk) + "\n", timeout=timeout)
        lines = out.split("\n")[:-1]
        if rc != 0 or len(lines) != len(chunk):
            return ("ERR", rc, out[-300:] + err[-300:])
        return lines
    with ThreadPoolExecutor(max_workers=NSHARD) as ex:
        rs = list(ex.map(one, chunks))
    out = [None] * len(cmds)
    for i, r in enumerate(rs):
        if isinstance(r, tuple):
            return r
        out[i::NSHARD] = r
    return out


def argstack_of(ans):
    t = ans.split(" ")
    return t[8] if len(t) > 8 and t[2] == "I" else "0"


def _judge(args):
    cmd, ans, seed = args
    return c07_oracle.judge(cmd, ans, seed)


FIELDS = ["F", "err", "I", "natural", "mindyn", "redzone", "spillzone", "cleanup", "argstack", "pres0", "pres1", "pres2", "pres3",
          "srsize0", "srsize1", "srsize2", "srsize3", "sralign0", "sralign1", "sralign2", "sralign3", "L", "alignedVecSR", "hasDA",
          "spReg", "saReg", "finalAlign", "dirty0", "dirty1", "dirty2", "dirty3", "ppSize", "exSize", "localOff", "exOff", "daOff",
          "ppOff", "stackAdj", "finalSize", "saFromSp", "saFromSa"]


def first_diff(a, b):
    ta, tb = a.split(" "), b.split(" ")
    for i, (x, y) in enumerate(zip(ta, tb)):
        if x != y:
            if i < len(FIELDS):
                return FIELDS[i]
            return "prolog/epilog instruction list"
    return "length"


def gen_slots(rng):
    n = rng.choice([0, 1, 2, 3, 5, 8, 13, 21, 40, 90])
    parts = ["S %d" % n]
    for _ in range(n):
        size = rng.choice([1, 2, 4, 8, 16, 32, 64, 3, 6, 12, 24, 100, 4, 8, 16])
        align = rng.choice([1, 2, 4, 8, 16, 32, 64]) if rng.random() < 0.5 else min(64, 1 << max(0, size.bit_length() - 1))
        flags = (1 if rng.random() < 0.7 else 0) | (2 if rng.random() < 0.1 else 0)
        parts.append("%d %d %d %d" % (size, align, flags, rng.randrange(0, 50)))
    return " ".join(parts)


def judge_slots(cmd, ans):
    """independent monitor: ranges of the non-argument slots pairwise disjoint, aligned, inside [0, stack_size)"""
    t = ans.split()
    if t[0] != "S" or t[1] != "0":
        return [("C07/slots/error", "%s -> %s" % (cmd, ans))]
    stack_size, n = int(t[2]), int(t[4])
    rec = [tuple(int(x) for x in t[5 + 5 * i: 10 + 5 * i]) for i in range(n)]
    out = []
    rngs = []
    for (idx, size, align, isarg, off) in rec:
        if isarg:
            continue
        if off % align != 0:
            out.append(("C07/slots/misaligned", "%s -> slot %d (size %d align %d) at offset %d" % (cmd, idx, size, align, off)))
        if off < 0 or off + size > stack_size:
            out.append(("C07/slots/outside-stack", "%s -> slot %d [%d,%d) outside [0,%d)" % (cmd, idx, off, off + size, stack_size)))
        rngs.append((off, off + size, idx))
    rngs.sort()
    for (a, b) in zip(rngs, rngs[1:]):
        if a[1] > b[0]:
            out.append(("C07/slots/overlap", "%s -> slots %d [%d,%d) and %d [%d,%d) overlap" % (cmd, a[2], a[0], a[1], b[2], b[0], b[1])))
            break
    return out


def native_cmds(cmds, answers, rng, limit):
    """x86-64 frames the host can execute: SysV/Win64/LightCall conventions, no MM state; returns X commands"""
    out = []
    for c, a in zip(cmds, answers):
        t = c.split()
        if t[1] != "1" or not a.startswith("F 0 I"):
            continue
        # bound the areas the native body fills and drop MMX state so that (almost) every frame is executable on the host
        t[9] = "0"; t[10] = str(int(t[10]) % 6000); t[12] = str(int(t[12]) % 3000)
        out.append("X " + " ".join(t[1:]) + " %d" % rng.getrandbits(32))
        if len(out) >= limit:
            break
    return out


def run(ck):
    rng = random.Random(ck.seed)
    obl = ck.coq_properties()
    ck.log("theorems: %d, failed: %d" % (len(obl), len([o for o in obl if not o["ok"]])))
    impl = ck.build_harness("c07", ["c07_harness.cpp"])
    model = ck.ocaml_model("Extract_Frame.v", ["zconv.ml", "c07_driver.ml"], name="c07")

    if ck.replay:
        rp = json.load(open(ck.replay))
        cmd = rp["replay"].get("command")
        if cmd:
            a = vlib.sh([impl], inp=cmd + "\n")[1].strip()
            if cmd[0] == "S":
                t = a.split(); n = int(t[4]) if len(t) > 4 else 0
                mcmd = "S %d %s" % (n, " ".join("%s %s %s" % tuple(t[6 + 5 * i: 9 + 5 * i]) for i in range(n)))
            else:
                mcmd = cmd + " " + argstack_of(a) if cmd[0] == "F" else cmd
            m = vlib.sh([model], inp=mcmd + "\n")[1].strip()
            print("input :", cmd); print(" impl  :", a); print(" model :", m)
            if cmd[0] == "F":
                print(" oracle:", c07_oracle.judge(cmd, a, rp.get("seed", 1)) or "property holds")
            if cmd[0] == "S" and a.startswith("S 0"):
                print(" oracle:", judge_slots(cmd, a) or "property holds")
        return 0

    nrand = 14000 if ck.tier == "quick" else 400000
    cmds = c07_gen.corner_frames() + [c07_gen.gen_frame(rng, tier=ck.tier) for _ in range(nrand)]
    corpus = os.path.join(vlib.VERIF, "corpus", "C07.txt")
    if os.path.exists(corpus):
        cmds = [l.strip() for l in open(corpus) if l.strip() and not l.startswith("#")] + cmds
    ck.log("stream: %d frames" % len(cmds))

    ri = run_sharded(impl, cmds)
    if isinstance(ri, tuple):
        ck.violation("C07/harness-crash", "harness failed: %s" % (ri,), {"commands": cmds[:3], "detail": str(ri), "broken": "harness"}, no_input=True)
        ri = []
    mcmds = [c + " " + argstack_of(a) for c, a in zip(cmds, ri)]
    rm = run_sharded(model, mcmds) if ri else []
    if isinstance(rm, tuple):
        ck.violation("C07/model-crash", "model driver failed: %s" % (rm,), {"commands": mcmds[:3], "detail": str(rm), "broken": "model driver"}, no_input=True)
        rm = []
    ck.log("implementation and model answered")

    # independent oracle on every implementation answer
    with Pool(min(16, os.cpu_count() or 4)) as pool:
        verdicts = pool.map(_judge, [(c, a, ck.seed) for c, a in zip(cmds, ri)], chunksize=256)
    ck.log("oracle judged %d frames" % len(verdicts))

    stats = {"arch": {}, "cc": {}, "refused_by_callconv": 0, "refused_by_emitter": 0, "asm_error": 0, "has_da": 0, "has_fp": 0,
             "vec_saves": 0, "callee_pops": 0, "oracle_keys": {}}
    disagreements = 0
    nontrivial = set()
    violations_by_key = {}
    for idx, (c, a) in enumerate(zip(cmds, ri)):
        t = c.split()
        arch, cc = int(t[1]), int(t[3])
        stats["arch"][arch] = stats["arch"].get(arch, 0) + 1
        stats["cc"]["%d/%d" % (arch, cc)] = stats["cc"].get("%d/%d" % (arch, cc), 0) + 1
        m = rm[idx] if idx < len(rm) else None
        pa = c07_oracle.parse_answer(a)
        if pa is None:
            stats["refused_by_callconv"] += 1
        else:
            if pa["P"] or len(pa["E"]) > 1:
                if len(pa["P"]) >= 1:
                    nontrivial.add(c)
            stats["has_da"] += pa["has_da"]; stats["has_fp"] += int(t[5]) & 1
            stats["vec_saves"] += 1 if pa["ex_size"] else 0
            stats["callee_pops"] += 1 if pa["cleanup"] else 0
            if pa["P_aerr"] or pa["E_aerr"]:
                stats["asm_error"] += 1
                if not (arch == 2 and cc > 7) and not (pa["P_berr"] or pa["E_berr"]):
                    # the assembler refuses an instruction of a prolog/epilog outside the known-broken AArch64 conventions
                    ck.violation("C07/%s/assembler-refuses-prolog" % ["x86", "x64", "a64"][arch],
                                 "%s -> the Assembler returned error %d/%d for the emitted prolog/epilog" % (c, pa["P_aerr"], pa["E_aerr"]),
                                 {"command": c, "impl": a, "model": m})
        vs = verdicts[idx]
        found_input = False
        for (k, w) in vs:
            if k == "refused":
                stats["refused_by_emitter"] += 1
                continue
            stats["oracle_keys"][k] = stats["oracle_keys"].get(k, 0) + 1
            if ck.violation(k, w, {"command": c, "impl": a, "model": m}):
                found_input = True
        if m is not None and canon_impl(a) != m:
            disagreements += 1
            if not found_input:
                fld = first_diff(canon_impl(a), m)
                ck.violation("C07/correspondence/" + fld.split(" ")[0],
                             "implementation and proven model disagree on %r (first differing field: %s); the independent interpreter "
                             "found no violated property on this frame\n impl : %s\n model: %s" % (c, fld, canon_impl(a)[:700], m[:700]),
                             {"command": c, "impl": a, "model": m, "broken": "correspondence of Frame model (coq/theories/Frame/FrameModel.v) with /repo"},
                             no_input=True)

    # spill-slot layout (rastack.cpp calculate_stack_frame): model vs implementation + independent disjointness monitor
    scmds = [gen_slots(rng) for _ in range(3000 if ck.tier == "quick" else 60000)]
    rs = run_sharded(impl, scmds)
    slot_stats = {"sets": len(scmds), "slots": 0, "disagreements": 0}
    if isinstance(rs, tuple):
        # the real calculate_stack_frame crashed on some slot set: find it (batches of 64, then single commands)
        culprit = None
        for i in range(0, len(scmds), 64):
            rc, out, err = vlib.sh([impl], inp="\n".join(scmds[i:i + 64]) + "\n", timeout=120)
            if rc != 0:
                for c in scmds[i:i + 64]:
                    rc1, out1, err1 = vlib.sh([impl], inp=c + "\n", timeout=60)
                    if rc1 != 0:
                        culprit = (c, rc1)
                        break
                break
        if culprit:
            ck.violation("C07/slots/crash", "%s -> RAStackAllocator::calculate_stack_frame crashed (exit status %d)" % culprit,
                         {"command": culprit[0], "impl": "crash rc=%d" % culprit[1]})
        else:
            ck.violation("C07/slots/harness-crash", "harness failed on slot commands: %s" % (rs,), {"commands": scmds[:2], "broken": "harness"}, no_input=True)
    else:
        mc = []
        for c, a in zip(scmds, rs):
            t = a.split()
            n = int(t[4]) if len(t) > 4 else 0
            rec = [t[5 + 5 * i: 10 + 5 * i] for i in range(n)]
            mc.append("S %d %s" % (n, " ".join("%s %s %s" % (r[1], r[2], r[3]) for r in rec)))
            slot_stats["slots"] += n
        rms = run_sharded(model, mc)
        if isinstance(rms, tuple):
            ck.violation("C07/slots/model-crash", "model driver failed on slot commands: %s" % (rms,), {"commands": mc[:2], "broken": "model driver"}, no_input=True)
            rms = []
        for c, a, m in zip(scmds, rs, rms):
            found = False
            for (k, w) in judge_slots(c, a):
                if ck.violation(k, w, {"command": c, "impl": a, "model": m}):
                    found = True
            t = a.split(); n = int(t[4])
            impl_offs = [("-1" if t[8 + 5 * i] == "1" else t[9 + 5 * i]) for i in range(n)]
            mt = m.split("|")
            model_offs = mt[0].split()[1:]
            fin = mt[1].split()
            align = max(1, int(t[3]))
            want_stack = (int(fin[0]) + align - 1) // align * align
            if impl_offs != model_offs or want_stack != int(t[2]) or fin[1] != "0" or fin[2] != "0":
                slot_stats["disagreements"] += 1
                if not found:
                    ck.violation("C07/correspondence/slots", "calculate_stack_frame and the proven slot model disagree on %r\n impl : %s\n model: %s" % (c, a[:600], m[:600]),
                                 {"command": c, "impl": a, "model": m, "broken": "correspondence of SlotModel.v with rastack.cpp"}, no_input=True)
    stats["slot_layouts"] = slot_stats

    # native execution on the host (x86-64 only)
    nat = native_cmds(cmds, ri, rng, 3000 if ck.tier == "quick" else 60000)
    nat_run = nat_bad = nat_skip = 0
    if nat:
        rn = run_sharded(impl, nat)
        if isinstance(rn, tuple):
            ck.violation("C07/native-crash", "native execution harness died: %s" % (rn,), {"commands": nat[:3], "detail": str(rn), "broken": "native execution"}, no_input=True)
        else:
            for c, a in zip(nat, rn):
                if a.startswith("X ok"):
                    nat_run += 1
                elif a.startswith("X skip"):
                    nat_skip += 1
                else:
                    nat_bad += 1
                    ck.violation("C07/x64/native/" + (a.split()[1] if len(a.split()) > 1 else "?"),
                                 "%s -> native execution on the host: %s" % (c, a), {"command": c, "impl": a})
    stats["native_executed"] = nat_run; stats["native_skipped"] = nat_skip; stats["native_failed"] = nat_bad

    for o in ck.proof_failures():
        ck.violation("C07/proof/" + o["name"], "theorem %s no longer checks (%s)" % (o["name"], getattr(ck, "coq_log", "")[-800:]),
                     {"broken": "theorem " + o["name"], "file": "coq/theories/Properties/Properties_C07.v"}, no_input=True)

    samples = [{"cmd": c, "impl": a[:400], "model": (rm[i] if i < len(rm) else "")[:400]}
               for i, (c, a) in list(enumerate(zip(cmds, ri)))[len(cmds) // 2: len(cmds) // 2 + 3]]
    return ck.finish(
        "proof",
        {"evaluations": len(cmds), "distinct_nontrivial": len(nontrivial),
         "rule": "frame commands from VERIF_SEED (tools/c07_gen.py: every convention id x platform x arch corner frames, then random frames over dirty "
                 "mask classes, size/alignment boundaries, FP/calls/AVX/AVX-512 flags, SA register); a frame is non-trivial when the real prolog has at "
                 "least one instruction (distinct command lines counted)",
         "samples": samples, "distribution": stats, "model_vs_impl_disagreements": disagreements,
         "frames_judged_by_oracle": len(verdicts), "traces_validated_against_impl": len(cmds)},
        assumptions=["the C++ harness calls the real FuncDetail::init, FuncFrame::init/finalize and BaseEmitter::emit_prolog/emit_epilog of /repo's working tree",
                     "theorems are about the Gallina model (FrameModel.v) and the abstract machine (FrameMachine.v); the model is tied to the code by the "
                     "exact differential of this check; the machine's instruction semantics are trusted (validated by the python interpreter and native runs)",
                     "arg_stack_size is an input of the frame model (owned by C06); pointer arithmetic is on unbounded integers (no wrap-around at 0 / 2^64)",
                     "alignments are powers of two (API contract); sizes below 2^31"],
        checker_cmd="coqc (Coq 8.16.1) -Q coq/theories Verif coq/theories/Properties/Properties_C07.v  [full .vo build of its dependencies]",
        trusted_base=["Coq 8.16.1 kernel incl. vm_compute (no native_compute)", "no axioms: every theorem 'Closed under the global context'",
                      "extraction (ExtrOcamlBasic only) + OCaml + zarith glue in ml/zconv.ml",
                      "harness/c07_harness.cpp, tools/checks/c07.py, tools/c07_gen.py, tools/c07_oracle.py (generator, differ, interpreter oracle)"])

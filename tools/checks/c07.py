"""C07 — Prolog/epilog preserve callee-saved state and keep frame areas disjoint.

S2 theorems : coq/theories/Properties/Properties_C07.v (re-checked by coqc on every run)
S3 tie      : harness/c07_harness.cpp drives the REAL FuncDetail::init / FuncFrame::init / FuncFrame::finalize and
              emit_prolog / emit_epilog (x86::Builder, a64::Builder, and the Assemblers for encodability) of /repo's working
              tree; the extracted Coq model (coq/extract/Extract_Frame.v + ml/c07_driver.ml) answers the SAME frame commands;
              every accessor value and both instruction lists must be equal, frame by frame
S4 search   : tools/c07_oracle.py — an independent byte-level interpreter of the implementation's instruction lists — judges the
              property itself on EVERY generated frame (entry state, poisoning body, epilog); x86-64 frames of the host ABIs are
              additionally executed natively (harness command X) around a register/stack poisoning body
"""
import json
import os
import random
import re
from concurrent.futures import ThreadPoolExecutor
from multiprocessing import Pool

import vlib
import c07_gen
import c07_oracle

NSHARD = 16


def canon_impl(line):
    """assembler error fields are not part of the model's answer"""
    return re.sub(r" ([PE]) (\d+) \d+ ", r" \1 \2 - ", line)


def run_sharded(exe, cmds, timeout=1500):
    chunks = [cmds[i::NSHARD] for i in range(NSHARD)]

    def one(chunk):
        if not chunk:
            return []
        for attempt in (0, 1):
            rc, out, err = vlib.sh([exe], inp="\n".join(chunk) + "\n", timeout=timeout)
            lines = out.split("\n")[:-1]
            if rc == 0 and len(lines) == len(chunk):
                return lines
            if rc not in (-9, -15, 137, 143):     # killed from outside (shared machine): retry once; a crash of the code under test is not retried
                break
        return ("ERR", rc, out[-300:] + err[-300:])
    with ThreadPoolExecutor(max_workers=NSHARD) as ex:
        rs = list(ex.map(one, chunks))
    out = [None] * len(cmds)
    for i, r in enumerate(rs):
        if isinstance(r, tuple):
            return r
        out[i::NSHARD] = r
    return out


def argstack_of(ans):
    t = ans.split(" ")
    return t[8] if len(t) > 8 and t[2] == "I" else "0"


def _judge(args):
    cmd, ans, seed = args
    return c07_oracle.judge(cmd, ans, seed)


FIELDS = ["F", "err", "I", "natural", "mindyn", "redzone", "spillzone", "cleanup", "argstack", "pres0", "pres1", "pres2", "pres3",
          "srsize0", "srsize1", "srsize2", "srsize3", "sralign0", "sralign1", "sralign2", "sralign3", "L", "alignedVecSR", "hasDA",
          "spReg", "saReg", "finalAlign", "dirty0", "dirty1", "dirty2", "dirty3", "ppSize", "exSize", "localOff", "exOff", "daOff",
          "ppOff", "stackAdj", "finalSize", "saFromSp", "saFromSa"]


def first_diff(a, b):
    ta, tb = a.split(" "), b.split(" ")
    for i, (x, y) in enumerate(zip(ta, tb)):
        if x != y:
            if i < len(FIELDS):
                return FIELDS[i]
            return "prolog/epilog instruction list"
    return "length"


def gen_slots(rng):
    n = rng.choice([0, 1, 2, 3, 5, 8, 13, 21, 40, 90])
    parts = ["S %d" % n]
    for _ in range(n):
        size = rng.choice([1, 2, 4, 8, 16, 32, 64, 3, 6, 12, 24, 100, 4, 8, 16])
        align = rng.choice([1, 2, 4, 8, 16, 32, 64]) if rng.random() < 0.5 else min(64, 1 << max(0, size.bit_length() - 1))
        flags = (1 if rng.random() < 0.7 else 0) | (2 if rng.random() < 0.1 else 0)
        parts.append("%d %d %d %d" % (size, align, flags, rng.randrange(0, 50)))
    return " ".join(parts)


def judge_slots(cmd, ans):
    """independent monitor: ranges of the non-argument slots pairwise disjoint, aligned, inside [0, stack_size)"""
    t = ans.split()
    if t[0] != "S" or t[1] != "0":
        return [("C07/slots/error", "%s -> %s" % (cmd, ans))]
    stack_size, n = int(t[2]), int(t[4])
    rec = [tuple(int(x) for x in t[5 + 5 * i: 10 + 5 * i]) for i in range(n)]
    out = []
    rngs = []
    for (idx, size, align, isarg, off) in rec:
        if isarg:
            continue
        if off % align != 0:
            out.append(("C07/slots/misaligned", "%s -> slot %d (size %d align %d) at offset %d" % (cmd, idx, size, align, off)))
        if off < 0 or off + size > stack_size:
            out.append(("C07/slots/outside-stack", "%s -> slot %d [%d,%d) outside [0,%d)" % (cmd, idx, off, off + size, stack_size)))
        rngs.append((off, off + size, idx))
    rngs.sort()
    for (a, b) in zip(rngs, rngs[1:]):
        if a[1] > b[0]:
            out.append(("C07/slots/overlap", "%s -> slots %d [%d,%d) and %d [%d,%d) overlap" % (cmd, a[2], a[0], a[1], b[2], b[0], b[1])))
            break
    return out


def native_cmds(cmds, answers, rng, limit):
    """x86-64 frames the host can execute: SysV/Win64/LightCall conventions, no MM state; returns X commands"""
    out = []
    for c, a in zip(cmds, answers):
        t = c.split()
        if t[1] != "1" or not a.startswith("F 0 I"):
            continue
        # bound the areas the native body fills and drop MMX state so that (almost) every frame is executable on the host
        t[9] = "0"; t[10] = str(int(t[10]) % 6000); t[12] = str(int(t[12]) % 3000)
        out.append("X " + " ".join(t[1:]) + " %d" % rng.getrandbits(32))
        if len(out) >= limit:
            break
    return out


def source_tie(ck):
    """translator tie (round 5): calling-convention table and finalize/emitter constants are re-translated from the C++ SOURCE of the
    tree under test (tools/c07_translate.py) on every run; coqc re-checks `model = source data` (coq/gen/C07SourceData.v) whenever the
    text differs from the committed snapshot.  Returns the gen dir for coq_properties (None: committed snapshot is current)."""
    import shutil
    import c07_translate
    try:
        text = c07_translate.translate(vlib.REPO)
    except (c07_translate.TranslateError, OSError, KeyError, IndexError, ValueError) as e:
        ck.violation("C07/translator/source-not-understood", "tools/c07_translate.py cannot translate init_call_conv / the finalize constants of %s: %s: %s"
                     % (vlib.REPO, type(e).__name__, e), {"broken": "translator tools/c07_translate.py", "detail": str(e)}, no_input=True)
        return None, {"translated": False}
    rows = re.findall(r"^  \((\w+), (\d+), (\d+), (None|Some \(mkcc [^;]*?\)\))\)[;]?$", text, re.M)
    info = {"translated": True, "cc_rows_from_source": len(rows), "constants_from_source": 7,
            "env_stack_alignment_rows_from_source": len(re.findall(r"^  \((X86|X64|A64), \d+, \d+\)[;]?$", text, re.M))}
    committed = os.path.join(vlib.COQ, "gen", "C07SourceData.v")
    if os.path.exists(committed) and open(committed).read() == text:
        info["snapshot"] = "identical to committed coq/gen/C07SourceData.v (theorems checked with the theories)"
        return None, info
    wgen = os.path.join(ck.work, "gen")
    shutil.rmtree(wgen, ignore_errors=True)
    os.makedirs(wgen)
    open(os.path.join(wgen, "C07SourceData.v"), "w").write(text)
    ck.coq_make(["theories/Frame/FrameModel.vo"])
    rc, out, err = vlib.sh(["coqc", "-Q", os.path.join(vlib.COQ, "theories"), "Verif", "-Q", wgen, "VerifGen", "-w", "-all",
                            os.path.join(wgen, "C07SourceData.v")], cwd=wgen, timeout=600)
    info["snapshot"] = "regenerated and re-checked by coqc"
    if rc != 0:
        # name the rows / constants on which model and source differ
        goals = ["From Coq Require Import ZArith List Bool.", "From Verif Require Import Frame.FrameModel.", "Local Open Scope Z_scope."]
        for a, p_, c, o in rows:
            goals.append('Goal cc_init %s %s %s = %s. Proof. first [vm_compute; reflexivity | idtac "MISMATCH %s %s %s"]. Abort.' % (a, p_, c, o, a, p_, c))
        kv = dict(re.findall(r"Definition (src_\w+) : Z := (\d+)\.", text))
        goals[1] = "From Verif Require Import Frame.FrameModel Frame.FrameExamples."
        cgoals = {"src_frame_size_limit": "frame_size_limit = %s", "src_err_too_large": "finalize_error ex_too_large = %s",
                  "src_err_a64_refusal": "finalize_error ex_a64_align32 = %s", "src_min_dynamic_floor": "min_dynamic_alignment 4 = %s",
                  "src_a64_imm_one": "length (fst (a64_adjust true %s)) = 1%%nat /\\ length (fst (a64_adjust true (%s + 1))) = 2%%nat",
                  "src_a64_imm_two": "snd (a64_adjust true %s) = true /\\ snd (a64_adjust true (%s + 1)) = false"}
        for k, g in cgoals.items():
            if k in kv:
                goals.append('Goal %s. Proof. first [vm_compute; repeat split; reflexivity | idtac "CONSTANT %s"]. Abort.' % (g.replace("%s", kv[k]).replace("%%", "%"), k))
        rc2, out2 = ck.coq_eval("\n".join(goals) + "\n", name="c07_rows")
        bad = re.findall(r"MISMATCH (\w+) (\d+) (\d+)", out2)
        badc = re.findall(r"CONSTANT (\w+)", out2)
        info["snapshot"] = "regenerated; model and source DIFFER"
        for k in badc:
            v = int(kv[k])
            cmd = {"src_a64_imm_two": "F 2 0 0 2 0 0 0 0 0 %d 0 0 0 255" % (v + 1), "src_a64_imm_one": "F 2 0 0 2 0 0 0 0 0 %d 0 0 0 255" % (v + 1),
                   "src_frame_size_limit": "F 1 0 0 2 0 8 0 0 0 %d 0 0 0 255" % (v + 1), "src_min_dynamic_floor": "F 0 0 0 2 0 0 0 0 0 16 %d 0 0 255" % v
                   }.get(k, "F 1 0 0 2 0 8 0 0 0 4294967232 0 4096 0 255" if k == "src_err_too_large" else "F 2 0 0 2 0 0 0 0 0 40 32 0 0 255")
            ck.violation("C07/translator/constant-differs/" + k[4:], "%s -> the source of the tree has %s = %d; the model's value differs (threshold / error code of "
                         "FuncFrame::finalize, FuncFrame::init or the AArch64 sub/add sp sequence)" % (cmd, k, v), {"command": cmd, "source": "%s = %d" % (k, v)})
        if badc and not bad:
            return None, info
        if bad:
            for a, p_, c in bad[:5]:
                cmd = "F %d %s %s 2 0 255 255 0 0 0 0 0 0 255" % ({"X86": 0, "X64": 1, "A64": 2}[a], p_, c)
                want = [o for (a2, p2, c2, o) in rows if (a2, p2, c2) == (a, p_, c)][0]
                ck.violation("C07/translator/calling-convention-differs", "%s -> init_call_conv in the source of the tree yields %s for (%s, platform %s, convention %s); "
                             "the model's cc_init says otherwise" % (cmd, want, a, p_, c), {"command": cmd, "source": want})
        else:
            ck.violation("C07/translator/constant-differs", "a constant of FuncFrame::finalize / the AArch64 emitters / the Error enum translated from the source "
                         "differs from the model (coqc on the regenerated C07SourceData.v): %s" % (out + err)[-600:],
                         {"broken": "model constants vs source", "detail": (out + err)[-1500:],
                          "command": "F 1 0 0 2 0 8 0 0 0 %d 0 4096 0 255" % 0x7FFF0000}, no_input=True)
        return None, info
    return wgen, info


def run(ck):
    rng = random.Random(ck.seed)
    gen_dir, tie_info = source_tie(ck)
    ck.log("source translation: %s" % tie_info)
    obl = ck.coq_properties(gen_dir=gen_dir)
    ck.log("theorems: %d, failed: %d" % (len(obl), len([o for o in obl if not o["ok"]])))
    impl = ck.build_harness("c07", ["c07_harness.cpp"])
    model = ck.ocaml_model("Extract_Frame.v", ["zconv.ml", "c07_driver.ml"], name="c07")

    if ck.replay:
        rp = json.load(open(ck.replay))
        cmd = rp["replay"].get("command")
        if cmd:
            a = vlib.sh([impl], inp=cmd + "\n")[1].strip()
            if cmd[0] == "S":
                t = a.split(); n = int(t[4]) if len(t) > 4 else 0
                ct = cmd.split()
                mcmd = "T %d %s %s" % (n, t[2] if len(t) > 2 else "0", " ".join(
                    "%s %s %s %d %s %s %s" % (t[5 + 5 * i], t[6 + 5 * i], t[7 + 5 * i], int(ct[2 + 4 * int(t[5 + 5 * i]) + 2]) & 1, t[8 + 5 * i],
                                              ct[2 + 4 * int(t[5 + 5 * i]) + 3], t[9 + 5 * i]) for i in range(n)))
            else:
                mcmd = cmd + " " + argstack_of(a) if cmd[0] == "F" else cmd
            m = vlib.sh([model], inp=mcmd + "\n")[1].strip()
            print("input :", cmd); print(" impl  :", a); print(" model :", m)
            if cmd[0] == "F":
                print(" oracle:", c07_oracle.judge(cmd, a, rp.get("seed", 1)) or "property holds")
            if cmd[0] == "S" and a.startswith("S 0"):
                print(" oracle:", judge_slots(cmd, a) or "property holds")
        return 0

    nrand = 14000 if ck.tier == "quick" else 400000
    cmds = c07_gen.corner_frames() + [c07_gen.gen_frame(rng, tier=ck.tier) for _ in range(nrand)]
    corpus = os.path.join(vlib.VERIF, "corpus", "C07.txt")
    if os.path.exists(corpus):
        cmds = [l.strip() for l in open(corpus) if l.strip() and not l.startswith("#")] + cmds
    ck.log("stream: %d frames" % len(cmds))

    ri = run_sharded(impl, cmds)
    if isinstance(ri, tuple):
        ck.violation("C07/harness-crash", "harness failed: %s" % (ri,), {"commands": cmds[:3], "detail": str(ri), "broken": "harness"}, no_input=True)
        ri = []
    # which tree variant is this?  (fixes/C07-a64-sa-register.patch: FP-relative argument offset + SA register initialisation on AArch64)
    pr = vlib.sh([impl], inp="F 2 0 0 9 1 0 0 0 0 0 0 0 0 255\nF 2 0 0 9 0 0 0 0 0 0 0 0 0 9\n")[1].split("\n")
    p1 = c07_oracle.parse_answer(pr[0]) if pr and pr[0] else None
    p2 = c07_oracle.parse_answer(pr[1]) if len(pr) > 1 and pr[1] else None
    v1 = p1 is not None and p1["sa_from_sa"] == p1["pp_size"] and p1["pp_size"] != 8
    v2 = p2 is not None and any(x.startswith("mov G8.9,G8.31") for x in p2["P"])
    # both repairs are committed in /repo (872941b, a53b13c): the model always describes the fixed behaviour; the probes remain only as
    # detectors — a tree without (or with half of) a repair is a returning defect = VIOLATION with the probe frame as input
    sa_fix = 1
    if not (v1 and v2):
        ck.violation("C07/a64/sa-register-fix-missing", "AArch64 SA-register handling regressed: FP-relative argument offset fixed=%s, SA register initialised=%s "
                     "(F 2 0 0 9 1 ... reports sa_offset_from_sa=%s for a %s-byte push/pop area)" % (v1, v2, p1 and p1["sa_from_sa"], p1 and p1["pp_size"]),
                     {"command": "F 2 0 0 9 1 0 0 0 0 0 0 0 0 255" if not v1 else "F 2 0 0 9 0 0 0 0 0 0 0 0 0 9", "impl": pr[0] if not v1 else pr[1]})
    ck.log("a64 SA-register fix %s" % ("present" if (v1 and v2) else "MISSING"))
    # fixes/C07-finalize-too-large.patch: does finalize refuse frames whose sizes wrap the 32-bit arithmetic?
    pb = vlib.sh([impl], inp="F 1 0 0 2 0 8 0 0 0 4294967232 0 4096 0 255\n")[1]
    too_large_fix = " L ?" in pb
    if not too_large_fix:
        ck.violation("C07/x64/oversized-frame-accepted", "F 1 0 0 2 0 8 0 0 0 4294967232 0 4096 0 255 -> finalize accepts call+local sizes that wrap the 32-bit frame "
                     "arithmetic (kTooLarge check missing): %s" % pb[:200], {"command": "F 1 0 0 2 0 8 0 0 0 4294967232 0 4096 0 255", "impl": pb.strip()})
    ck.log("finalize kTooLarge check %s" % ("present" if too_large_fix else "MISSING"))
    # proposed fixes/C07-a64-refuse-unrealisable-frames.patch: does finalize refuse AArch64 frames with dynamic alignment / 128-bit vector saves?
    pq = vlib.sh([impl], inp="F 2 0 0 2 0 0 0 0 0 40 32 0 0 255\nF 2 0 16 2 0 0 16 0 0 0 0 0 0 255\n")[1].split("\n")
    r1, r2 = (" L ?" in pq[0]), (len(pq) > 1 and " L ?" in pq[1])
    # the refusal is committed in /repo (fef32d9): the model always describes it; the probe is a regression detector with the probe frame as input
    a64_refusal = 1
    if not (r1 and r2):
        bad = "F 2 0 0 2 0 0 0 0 0 40 32 0 0 255" if not r1 else "F 2 0 16 2 0 0 16 0 0 0 0 0 0 255"
        ck.violation("C07/a64/unrealisable-frame-accepted", "%s -> finalize accepts an AArch64 frame the emitters cannot realise (dynamic alignment refused=%s, "
                     "128-bit vector saves refused=%s)" % (bad, r1, r2), {"command": bad, "impl": pq[0] if not r1 else pq[1]})
    ck.log("a64 refusal of unrealisable frames %s" % ("present" if (r1 and r2) else "MISSING"))
    # proposed fixes/C07-final-alignment-truthful.patch: x86-32, natural 4, requested 8: is final_stack_alignment() reported as 4 (what is delivered)?
    pal = c07_oracle.parse_answer(vlib.sh([impl], inp="F 0 0 0 2 0 0 0 0 0 16 8 0 0 255\n")[1].strip())
    # committed in /repo (a1b136b): the model always describes it; the probe is a regression detector
    align_fix = 1
    if not (pal is not None and pal["final_align"] == 4):
        ck.violation("C07/x86/alignment-between-natural-and-min-dynamic", "F 0 0 0 2 0 0 0 0 0 16 8 0 0 255 -> final_stack_alignment() reports %s for an x86-32 frame that can "
                     "only deliver the natural alignment 4 (truthful-alignment repair missing)" % (pal and pal["final_align"]),
                     {"command": "F 0 0 0 2 0 0 0 0 0 16 8 0 0 255", "impl": str(pal and pal["final_align"])})
    ck.log("truthful final alignment %s" % ("present" if (pal is not None and pal["final_align"] == 4) else "MISSING"))
    mcmds = [c + " " + argstack_of(a) + " 0 %d %d %d" % (sa_fix, a64_refusal, align_fix) for c, a in zip(cmds, ri)]
    rm = run_sharded(model, mcmds) if ri else []
    if isinstance(rm, tuple):
        ck.violation("C07/model-crash", "model driver failed: %s" % (rm,), {"commands": mcmds[:3], "detail": str(rm), "broken": "model driver"}, no_input=True)
        rm = []
    ck.log("implementation and model answered")

    # independent oracle on every implementation answer
    with Pool(min(16, os.cpu_count() or 4)) as pool:
        verdicts = pool.map(_judge, [(c, a, ck.seed) for c, a in zip(cmds, ri)], chunksize=256)
    ck.log("oracle judged %d frames" % len(verdicts))

    # the implementation's instruction lists executed on the PROVEN machine (FrameExec.exec_frame, extracted): same scenario as the
    # python interpreter (hostile confined body); the two semantics must reach the same verdict on every frame
    ecmds, eidx = [], []
    for idx, (c, a) in enumerate(zip(cmds, ri)):
        pa = c07_oracle.parse_answer(a)
        if pa is None or pa["P_berr"] or pa["E_berr"]:
            continue
        t = c.split()
        arch = int(t[1])
        natural = pa["natural"]
        ras = 0 if arch == 2 else (4 if arch == 0 else 8)
        sp0 = (0x7FFF0000 if arch == 0 else 0x7FFFFFFF0000) - natural * c07_oracle.entry_slot(c, ck.seed) - ras   # same entry state as the interpreter
        cleanup = pa["argstack"] if c07_oracle.callee_pops(arch, int(t[2]), int(t[3])) else 0
        lsz = min(int(t[10]), 1 << 40)
        ecmds.append("E %d %d %d %s %s %s %d %s %d %d %d | %s | %s" % (
            arch, sp0, 0x7123456789 & ((1 << (8 * (4 if arch == 0 else 8))) - 1) | 1, " ".join(t[6:10]), " ".join(str(x) for x in pa["preserved"]),
            " ".join(str(x) for x in pa["srsize"]), int(t[5]) & 1, t[12], pa["local_off"], lsz, cleanup, ";".join(pa["P"]) or "-", ";".join(pa["E"]) or "-"))
        eidx.append(idx)
    re_ = run_sharded(model, ecmds) if ecmds else []
    exec_stats = {"frames": len(ecmds), "ok": 0, "failed": 0, "disagree_with_interpreter": 0, "unparsed": 0}
    ROUNDTRIP_KEYS = ("callee-saved-not-restored", "wrong-return-address", "wrong-sp-after-return", "misaligned-vector-move", "unencodable-register",
                      "no-return", "body-sp-misaligned", "non-cdecl-vec-save-64-of-128", "after-ret", "unknown-form", "unknown-instruction")
    if isinstance(re_, tuple):
        ck.violation("C07/exec/model-crash", "model driver failed on E commands: %s" % (re_,), {"commands": ecmds[:1], "broken": "model driver"}, no_input=True)
    else:
        for idx, ec, ea in zip(eidx, ecmds, re_):
            code = int(ea.split()[1])
            keys = [k.split("/")[-1] for (k, _w) in verdicts[idx] if k != "refused"]
            t = cmds[idx].split()
            if int(t[10]) + int(t[12]) > 0x7FFF0000:
                continue
            et = ea.split()
            if int(t[1]) == 2 and len(et) >= 5 and et[3] == "enc":
                pa_ = c07_oracle.parse_answer(ri[idx])
                asm_ok = pa_ is not None and not (pa_["P_aerr"] or pa_["E_aerr"])
                exec_stats["a64_encodability_compared"] = exec_stats.get("a64_encodability_compared", 0) + 1
                if (int(et[4]) == 0) != asm_ok:
                    ck.violation("C07/a64/encodability-predicate-vs-assembler", "%s -> the proved encodability predicate (a64_encodable) rejects %s instructions of the "
                                 "implementation's prolog/epilog, the real Assembler %s them" % (cmds[idx], et[4], "accepts" if asm_ok else "refuses"),
                                 {"command": cmds[idx], "impl": ri[idx], "machine": ea})
            if code == -1:
                exec_stats["unparsed"] += 1
            elif code == 0:
                exec_stats["ok"] += 1
            else:
                exec_stats["failed"] += 1
            rt = [k for k in keys if k in ROUNDTRIP_KEYS]
            # a64: an sp-misaligned access or an unencodable stp offset is seen by one side only in special cases; compare the core verdict
            if (code > 0) != bool(rt) and not (code > 0 and keys) and not (code == 0 and rt == ["body-sp-misaligned"] and int(t[1]) != 2):
                exec_stats["disagree_with_interpreter"] += 1
                ck.violation("C07/exec/semantics-disagree", "%s -> the proven machine (FrameExec.exec_frame) says %s, the independent interpreter says %s"
                             % (cmds[idx], ea, keys or "property holds"), {"command": cmds[idx], "impl": ri[idx], "exec": ec[:300], "machine": ea})
            elif code > 0 and not keys:
                pass

    stats = {"source_translation": tie_info, "proven_machine_runs": exec_stats, "arch": {}, "cc": {}, "refused_by_callconv": 0, "refused_by_emitter": 0, "asm_error": 0, "has_da": 0, "has_fp": 0,
             "vec_saves": 0, "callee_pops": 0, "oracle_keys": {}}
    disagreements = 0
    witnesses, deferred = {}, []
    nontrivial = set()
    violations_by_key = {}
    for idx, (c, a) in enumerate(zip(cmds, ri)):
        t = c.split()
        arch, cc = int(t[1]), int(t[3])
        stats["arch"][arch] = stats["arch"].get(arch, 0) + 1
        stats["cc"]["%d/%d" % (arch, cc)] = stats["cc"].get("%d/%d" % (arch, cc), 0) + 1
        m = rm[idx] if idx < len(rm) else None
        pa = c07_oracle.parse_answer(a)
        if pa is None:
            stats["refused_by_callconv"] += 1
        else:
            # explicit coverage counters: which theorem covers this frame, and the feature matrix
            sc = stats.setdefault("theorem_scope", {"roundtrip_x86": 0, "roundtrip_a64": 0, "a64_outside_scope(findings)": 0, "out_of_range(no_wrap)": 0,
                                                     "refused_by_emitter": 0})
            if int(t[10]) + int(t[12]) > 0x7FFF0000:
                sc["out_of_range(no_wrap)"] += 1
            elif pa["P_berr"] or pa["E_berr"]:
                sc["refused_by_emitter"] += 1
            elif arch != 2:
                sc["roundtrip_x86"] += 1
            elif pa["has_da"] == 0 and (pa["srsize"][1] == 8 or (pa["dirty"][1] & pa["preserved"][1]) == 0):
                sc["roundtrip_a64"] += 1          # = a64_realisable: scope of C07_roundtrip_a64 / C07_roundtrip_a64_accepted
            else:
                sc["a64_outside_scope(findings)"] += 1
            arms = stats.setdefault("case_split_arms", {})
            def arm(name):
                arms[name] = arms.get(name, 0) + 1
            if not (pa["P_berr"] or pa["E_berr"]) or arch == 2:
                E = pa["E"]
                if arch == 2:
                    adj = pa["adj"]
                    arm("a64 sub/add sp: " + ("no adjustment" if adj == 0 else "one immediate (<= 4095)" if adj <= 4095 else
                                              "two immediates (<= 16777215)" if adj <= 16777215 else "emitter refuses (> 16777215)"))
                    arm("a64 pairs: GP %s, vec %s" % ("odd" if bin(pa["dirty"][0] & pa["preserved"][0]).count("1") % 2 else "even",
                                                      "odd" if bin(pa["dirty"][1] & pa["preserved"][1]).count("1") % 2 else "even"))
                else:
                    rs = "none"
                    for ins in E:
                        if re.match(r"mov G\d\.4,G\d\.5$", ins): rs = "mov sp,bp"; break
                        if re.match(r"lea G\d\.4,\[G5", ins): rs = "lea sp,[bp-n]"; break
                        if re.match(r"add G\d\.4,#", ins): rs = "add sp,n"; break
                        if re.match(r"mov G\d\.4,\[G4", ins): rs = "load of the DA slot"; break
                    arm("x86 restore sp: " + rs)
                    arm("x86 return: " + ("ret n" if pa["cleanup"] else "ret"))
                    vm = [i.split(" ")[0] for i in pa["P"] if i.split(" ")[0] in ("movaps", "movups", "vmovaps", "vmovups")]
                    arm("x86 vector save: " + (vm[0] if vm else "none"))
                req = max([pa["natural"]] + [int(t[11]) if int(t[10]) else 0] + [int(t[13]) if int(t[12]) else 0])
                arm("alignment: " + ("dynamic" if pa["has_da"] else "natural" if req <= pa["natural"] else
                                     "lowered to natural (truthful)" if pa["final_align"] == pa["natural"] else "above natural without realignment"))
            fm = stats.setdefault("feature_matrix", {})
            feat = "%s fp=%d da=%d extra_saves=%d sa_reg=%s pops=%d" % (["x86", "x64", "a64"][arch], int(t[5]) & 1, pa["has_da"], 1 if pa["ex_size"] else 0,
                                                                   "sp" if pa["sa_reg"] == pa["sp_reg"] else "other", 1 if pa["cleanup"] else 0)
            fm[feat] = fm.get(feat, 0) + 1
            if pa["P"] or len(pa["E"]) > 1:
                if len(pa["P"]) >= 1:
                    nontrivial.add(c)
            stats["has_da"] += pa["has_da"]; stats["has_fp"] += int(t[5]) & 1
            stats["vec_saves"] += 1 if pa["ex_size"] else 0
            stats["callee_pops"] += 1 if pa["cleanup"] else 0
            if pa["P_aerr"] or pa["E_aerr"]:
                stats["asm_error"] += 1
                if not (arch == 2 and cc > 7) and not (pa["P_berr"] or pa["E_berr"]) and int(t[10]) + int(t[12]) <= 0x7FFF0000:
                    # the assembler refuses an instruction of a prolog/epilog outside the known-broken AArch64 conventions
                    ck.violation("C07/%s/assembler-refuses-prolog" % ["x86", "x64", "a64"][arch],
                                 "%s -> the Assembler returned error %d/%d for the emitted prolog/epilog" % (c, pa["P_aerr"], pa["E_aerr"]),
                                 {"command": c, "impl": a, "model": m})
        vs = verdicts[idx]
        found_input = False
        out_of_range = int(t[10]) + int(t[12]) > 0x7FFF0000     # outside C07_no_wrap's bound: the model's integers are not uint32_t
        if out_of_range:
            stats["out_of_range"] = stats.get("out_of_range", 0) + 1
            refused = (pa is None and " L ?" in a) or (pa is not None and (pa["P_aerr"] or pa["E_aerr"] or pa["P_berr"] or pa["E_berr"]))
            if too_large_fix and pa is not None:
                ck.violation("C07/%s/oversized-frame-accepted" % ["x86", "x64", "a64"][arch], "%s -> finalize accepted call+local sizes above 0x7FFF0000" % c,
                             {"command": c, "impl": a})
            if not refused:
                for (k, w) in vs:
                    if k != "refused":
                        kk = "C07/%s/frame-arithmetic-wraps-again" % ["x86", "x64", "a64"][arch]   # repaired by a53b13c: a return is a VIOLATION (the old finding key is retired)
                        stats["oracle_keys"][kk] = stats["oracle_keys"].get(kk, 0) + 1
                        ck.violation(kk, w, {"command": c, "impl": a})
                        break
            # the model's finalize_error decides the refusal too (kTooLarge): the answers must be identical
            if m is not None and canon_impl(a) != m:
                disagreements += 1
                ck.violation("C07/correspondence/refusal", "implementation and model (finalize_error) disagree on the oversized frame %r\n impl : %s\n model: %s"
                             % (c, canon_impl(a)[:300], m[:300]), {"command": c, "impl": a, "model": m})
            else:
                stats["refusals_compared"] = stats.get("refusals_compared", 0) + 1
            continue
        for (k, w) in vs:
            if k == "refused":
                stats["refused_by_emitter"] += 1
                continue
            stats["oracle_keys"][k] = stats["oracle_keys"].get(k, 0) + 1
            if ck.violation(k, w, {"command": c, "impl": a, "model": m}):
                found_input = True
                if m is not None and canon_impl(a) != m:
                    witnesses.setdefault(arch, (c, w))      # a frame where implementation != model AND a property is violated
        if m is not None and canon_impl(a) == m and " L ?" in a:
            stats["refusals_compared"] = stats.get("refusals_compared", 0) + 1
        if m is not None and canon_impl(a) != m:
            disagreements += 1
            if not found_input and pa is not None and stats.get("entry_sweeps", 0) < 40:
                stats["entry_sweeps"] = stats.get("entry_sweeps", 0) + 1
                # sharper search (round 6): the implementation differs from the proven model on this frame but the scenario's entry state
                # shows no violated property - sweep ALL 64 admissible entry stack pointers (a defect may need a particular residue of the
                # entry sp, e.g. `and sp, -32` must not be a no-op) before giving up on a concrete failing input
                for slot in range(64):
                    vs2 = [(k, w) for (k, w) in c07_oracle.judge(c, a, ck.seed, slot=slot) if k != "refused"]
                    if vs2:
                        stats["found_by_entry_sweep"] = stats.get("found_by_entry_sweep", 0) + 1
                        k, w = vs2[0]
                        if ck.violation(k, w + " [entry sp slot %d of 64, found by the sweep after implementation and model disagreed]" % slot,
                                        {"command": c, "impl": a, "model": m, "entry_slot": slot}):
                            found_input = True
                            witnesses.setdefault(arch, (c, w))
                        break
            if not found_input:
                deferred.append((arch, c, a, m))
    # a frame on which implementation and model differ but no property is violated (the differing list is still correct THERE) is reported
    # together with a frame of the same run on which the same kind of difference DOES violate the property, when there is one
    for (arch, c, a, m) in deferred:
        fld = first_diff(canon_impl(a), m)
        wit = witnesses.get(arch) or (list(witnesses.values())[0] if witnesses else None)
        txt = ("implementation and proven model disagree on %r (first differing field: %s); the independent interpreter found no violated property on "
               "this frame for any of the 64 entry stack pointers\n impl : %s\n model: %s" % (c, fld, canon_impl(a)[:700], m[:700]))
        if wit is not None:
            ck.violation("C07/correspondence/" + fld.split(" ")[0], txt + "\n failing input of the same run where implementation != model violates the property: %s" % wit[1],
                         {"command": wit[0], "differs_on": c, "impl": a, "model": m, "broken": "correspondence of Frame model (coq/theories/Frame/FrameModel.v) with /repo"})
        else:
            ck.violation("C07/correspondence/" + fld.split(" ")[0], txt,
                         {"command": c, "impl": a, "model": m, "broken": "correspondence of Frame model (coq/theories/Frame/FrameModel.v) with /repo"},
                         no_input=True)
    stats["correspondence_witnesses"] = len(witnesses)

    # frames with argument copies (FuncArgsAssignment: register/stack arguments moved into registers or local slots — the API-level form of
    # the allocator's kStackArgToStack copies): judged by the python interpreter AND executed on the proven machine (FrameExec.exec_args_frame)
    nargs_cmds = 2500 if ck.tier == "quick" else 60000
    acmds = []
    for _ in range(nargs_cmds):
        t = c07_gen.gen_frame(rng, tier=ck.tier).split()
        t[0] = "A"
        if int(t[10]) > 4096: t[10] = str(int(t[10]) % 4096)
        t[4] = str(rng.choice([0, 1, 3, 5, 7, 8, 9, 11, 14]))
        acmds.append(" ".join(t) + " %d" % rng.getrandbits(32))
    ra_ = run_sharded(impl, acmds)
    astats = {"frames": len(acmds), "judged": 0, "refused": 0, "machine_ok": 0, "machine_failed": 0, "disagree": 0, "stack_to_stack": 0, "with_da": 0}
    if isinstance(ra_, tuple):
        ck.violation("C07/args/harness-crash", "harness failed on A commands: %s" % (ra_,), {"commands": acmds[:2], "broken": "harness"}, no_input=True)
    else:
        gcmds, gidx, averd = [], [], []
        kcmds, kidx = [], []
        for i, (c, a) in enumerate(zip(acmds, ra_)):
            v = c07_oracle.judge_args(c, a, ck.seed)
            averd.append(v)
            parts = a.split(" | ")
            if len(parts) != 4:
                astats["refused"] += 1
                continue
            pa = c07_oracle.parse_answer(parts[1])
            st = parts[2].split(" ", 3)
            if pa is None or pa["P_berr"] or pa["E_berr"] or st[1] != "0":
                astats["refused"] += 1
                continue
            astats["judged"] += 1
            astats["with_da"] += pa["has_da"]
            xt = parts[3].split(); n = int(xt[1])
            astats["stack_to_stack"] += len([1 for k in range(n) if xt[2 + 4 * k] == "1" and xt[4 + 4 * k] == "1"])
            t = c.split(); arch = int(t[1])
            ras = 0 if arch == 2 else (4 if arch == 0 else 8)
            sp0 = (0x7FFF0000 if arch == 0 else 0x7FFFFFFF0000) - pa["natural"] * (i % 64) - ras
            cleanup = pa["argstack"] if c07_oracle.callee_pops(arch, int(t[2]), int(t[3])) else 0
            lsz = max(int(t[10]), 8 * n + 8)
            gcmds.append("G %d %d %d %s %s %s %d %s %d %d %d %d %s | %s | %s | %s" % (
                arch, sp0, 0x7123456789 & ((1 << (8 * (4 if arch == 0 else 8))) - 1) | 1, " ".join(str(x) for x in pa["dirty"]),
                " ".join(str(x) for x in pa["preserved"]), " ".join(str(x) for x in pa["srsize"]), int(t[5]) & 1, t[12], pa["local_off"], lsz, cleanup,
                n, " ".join(xt[2:]), ";".join(pa["P"]) or "-", st[3], ";".join(pa["E"]) or "-"))
            gidx.append(i)
            if True:
                # round 6: the VERIFIED static checker of the copy sequence (FrameCopies.copies_ok_data; theorem C07_roundtrip_with_copies:
                # accepted => the round trip holds for EVERY entry state, not only the one the machine run uses)
                kcmds.append("K %d %d %d %d %s %d %d | %s" % (arch, pa["dirty"][0], pa["preserved"][0], int(t[5]) & 1, t[12], pa["local_off"], lsz, st[3]))
                kidx.append(i)
        rk = run_sharded(model, kcmds) if kcmds else []
        if isinstance(rk, tuple):
            ck.violation("C07/args/model-crash", "model driver failed on K commands: %s" % (rk,), {"commands": kcmds[:1], "broken": "model driver"}, no_input=True)
            rk = []
        kres = dict(zip(kidx, rk))
        rg = run_sharded(model, gcmds) if gcmds else []
        if isinstance(rg, tuple):
            ck.violation("C07/args/model-crash", "model driver failed on G commands: %s" % (rg,), {"commands": gcmds[:1], "broken": "model driver"}, no_input=True)
            rg = []
        gres = dict(zip(gidx, rg))
        for i, (c, a) in enumerate(zip(acmds, ra_)):
            keys = [(k, w) for (k, w) in averd[i] if k != "refused"]
            for (k, w) in keys:
                stats["oracle_keys"][k] = stats["oracle_keys"].get(k, 0) + 1
                ck.violation(k, w, {"command": c, "impl": a})
            if i in kres:
                kc = int(kres[i].split()[1])
                sk = "static_checker_a64" if c.split()[1] == "2" else "static_checker_x86"
                astats[sk] = astats.get(sk, {"accepted (all entry states proved)": 0, "rejected": 0, "outside the copy shapes": 0})
                astats[sk]["accepted (all entry states proved)" if kc == 1 else "rejected" if kc == 0 else "outside the copy shapes"] += 1
                if kc != 1:
                    astats.setdefault("static_checker_not_accepted_examples", [])
                    if len(astats["static_checker_not_accepted_examples"]) < 4:
                        astats["static_checker_not_accepted_examples"].append(c)
                bad = [k for (k, _w) in keys if k.split("/")[-1] in ("preserved-argument-register-clobbered", "callee-saved-not-restored", "wrong-return-address",
                                                                     "wrong-sp-after-return", "destination-outside-local-area")]
                if kc == 1 and bad:
                    # the theorem says this cannot happen: the checker's data (dirty mask, areas) do not describe the implementation's frame
                    ck.violation("C07/args/static-checker-accepts-failing-frame", "%s -> FrameCopies.copies_ok accepts the copy sequence, the interpreter reports %s" % (c, bad),
                                 {"command": c, "impl": a, "checker": kres[i]})
            if i in gres:
                code = int(gres[i].split()[1])
                if code == 0: astats["machine_ok"] += 1
                else: astats["machine_failed"] += 1
                if (code != 0) != bool(keys) and not (code == 0 and all(k.split("/")[-1] in ("body-sp-misaligned", "destination-outside-local-area", "writes-into-caller-frame", "unencodable") for k, _ in keys)):
                    astats["disagree"] += 1
                    ck.violation("C07/args/semantics-disagree", "%s -> the proven machine (exec_args_frame) says %s, the interpreter says %s" % (c, gres[i], [k for k, _ in keys] or "ok"),
                                 {"command": c, "impl": a, "machine": gres[i]})
    stats["argument_copy_frames"] = astats

    # frames the Compiler really produces (functions with register pressure, spills, calls, stack arguments, local stack)
    ncomp = 1500 if ck.tier == "quick" else 40000
    ccmds = []
    for _ in range(ncomp):
        arch = rng.choice([0, 1, 1, 2, 2])
        plat = rng.choice([0, 1, 2])
        cc = rng.choice([0, 0, 0, 1, 2, 3] if arch != 2 else [0])
        ccmds.append("C %d %d %d 0 0 0 0 0 0 0 0 0 0 255 %d" % (arch, plat, cc, rng.getrandbits(40)))
    rc_ = run_sharded(impl, ccmds)
    comp_stats = {"functions": len(ccmds), "compiled": 0, "errors": 0, "instructions": 0, "sp_accesses": 0, "with_spills_or_locals": 0, "with_calls": 0,
                  "with_stack_args": 0, "disagreements": 0, "by_arch": {}}
    if isinstance(rc_, tuple):
        ck.violation("C07/compiled/harness-crash", "harness failed on compiled-frame commands: %s" % (rc_,), {"commands": ccmds[:2], "broken": "harness"}, no_input=True)
    else:
        for c, a in zip(ccmds, rc_):
            if a.startswith("C 1 diverges"):
                comp_stats["diverged"] = comp_stats.get("diverged", 0) + 1
                ck.violation("C07/a64/compiler-diverges-again",   # gone with fef32d9: a return is a VIOLATION (the old finding key is retired)
                              "%s -> the AArch64 Compiler does not terminate (memory/time limit hit "
                             "in emit_args_assignment): function with stack-passed arguments and a stack slot aligned to more than 16 (%s)" % (c, a), {"command": c, "impl": a})
        good = [(c, a.split(" | ")) for c, a in zip(ccmds, rc_) if a.startswith("C 0 | ")]
        comp_stats["errors"] = len(ccmds) - len(good)
        mcs = ["F " + parts[1] + " 1 %d %d %d" % (sa_fix, a64_refusal, align_fix) for (_c, parts) in good]
        rmc = run_sharded(model, mcs) if good else []
        if isinstance(rmc, tuple):
            ck.violation("C07/compiled/model-crash", "model driver failed: %s" % (rmc,), {"commands": mcs[:2], "broken": "model driver"}, no_input=True)
            rmc = []
        for (c, parts), m in zip(good, rmc):
            fcmd = "F " + " ".join(parts[1].split()[:14])
            ans = parts[2]
            h = parts[3].split()
            comp_stats["compiled"] += 1
            t = parts[1].split()
            comp_stats["by_arch"][t[0]] = comp_stats["by_arch"].get(t[0], 0) + 1
            comp_stats["instructions"] += int(h[1]); comp_stats["sp_accesses"] += int(h[6])
            comp_stats["with_spills_or_locals"] += 1 if int(t[9]) else 0
            comp_stats["with_calls"] += 1 if int(t[4]) & 2 else 0
            comp_stats["with_stack_args"] += 1 if int(t[14]) else 0
            found = False
            rep = {"command": c, "frame": fcmd, "impl": ans, "model": m, "handover": parts[3]}
            for (k, w) in c07_oracle.judge(fcmd, ans, ck.seed):
                if k == "refused":
                    continue
                stats["oracle_keys"][k] = stats["oracle_keys"].get(k, 0) + 1
                if ck.violation(k, "[compiled function %s] %s" % (c, w), rep):
                    found = True
            if h[2] != "1" or h[3] != "1":
                found |= ck.violation("C07/compiled/prolog-epilog-not-emit-helper-output", "%s -> the function's first/last instructions are not the emit_prolog/"
                                      "emit_epilog output for its frame (%s)" % (c, parts[3]), rep)
            if h[4] != "0":
                found |= ck.violation("C07/compiled/write-to-unsaved-preserved-register", "%s -> %s instructions write a callee-saved register that the frame "
                                      "does not save (%s)" % (c, h[4], h[7]), rep)
            if h[5] != "0":
                found |= ck.violation("C07/compiled/sp-access-outside-declared-areas", "%s -> %s sp-based memory operands of the body lie outside call area, "
                                      "local area and stack arguments (%s)" % (c, h[5], h[7]), rep)
            if len(h) > 8 and h[8] != "0":
                found |= ck.violation("C07/compiled/local-slot-read-before-written", "%s -> %s reads of local-area slots that are not written on every path from the function "
                                      "entry (must-initialised dataflow over the CFG): an argument/spill was stored at another offset than the body reads (%s)" % (c, h[8], h[7]), rep)
            if canon_impl(ans) != m:
                comp_stats["disagreements"] += 1
                if not found:
                    wit = list(witnesses.values())[0] if witnesses else None
                    ck.violation("C07/correspondence/compiled/" + first_diff(canon_impl(ans), m).split(" ")[0],
                                 "compiled function %r: its frame %r differs from the proven model\n impl : %s\n model: %s%s" % (c, fcmd, canon_impl(ans)[:600], m[:600],
                                 ("\n failing input of the same run where implementation != model violates the property: %s" % wit[1]) if wit else ""),
                                 dict(rep, broken="correspondence of Frame model with the frame the Compiler hands over", **({"command": wit[0], "compiled_function": c} if wit else {})),
                                 no_input=(wit is None))
    stats["compiled_functions"] = comp_stats

    # spill-slot layout (rastack.cpp calculate_stack_frame): model vs implementation + independent disjointness monitor
    scmds = [gen_slots(rng) for _ in range(3000 if ck.tier == "quick" else 60000)]
    rs = run_sharded(impl, scmds)
    slot_stats = {"sets": len(scmds), "slots": 0, "disagreements": 0}
    if isinstance(rs, tuple):
        # the real calculate_stack_frame crashed on some slot set: find it (batches of 64, then single commands)
        culprit = None
        for i in range(0, len(scmds), 64):
            rc, out, err = vlib.sh([impl], inp="\n".join(scmds[i:i + 64]) + "\n", timeout=120)
            if rc != 0:
                for c in scmds[i:i + 64]:
                    rc1, out1, err1 = vlib.sh([impl], inp=c + "\n", timeout=60)
                    if rc1 != 0:
                        culprit = (c, rc1)
                        break
                break
        if culprit:
            ck.violation("C07/slots/crash", "%s -> RAStackAllocator::calculate_stack_frame crashed (exit status %d)" % culprit,
                         {"command": culprit[0], "impl": "crash rc=%d" % culprit[1]})
        else:
            ck.violation("C07/slots/harness-crash", "harness failed on slot commands: %s" % (rs,), {"commands": scmds[:2], "broken": "harness"}, no_input=True)
    else:
        mc = []
        for c, a in zip(scmds, rs):
            t = a.split()
            n = int(t[4]) if len(t) > 4 else 0
            ct = c.split()
            parts = []
            for i in range(n):
                ix, size, align, isarg, off = t[5 + 5 * i: 10 + 5 * i]
                flags = int(ct[2 + 4 * int(ix) + 2]); use = ct[2 + 4 * int(ix) + 3]
                parts.append("%s %s %s %d %s %s %s" % (ix, size, align, flags & 1, isarg, use, off))
            mc.append("T %d %s %s" % (n, t[2] if len(t) > 2 else "0", " ".join(parts)))
            slot_stats["slots"] += n
        rms = run_sharded(model, mc)
        if isinstance(rms, tuple):
            ck.violation("C07/slots/model-crash", "model driver failed on slot commands: %s" % (rms,), {"commands": mc[:2], "broken": "model driver"}, no_input=True)
            rms = []
        for c, a, m in zip(scmds, rs, rms):
            found = False
            for (k, w) in judge_slots(c, a):
                if ck.violation(k, w, {"command": c, "impl": a, "model": m}):
                    found = True
            t = a.split(); n = int(t[4])
            impl_offs = [t[9 + 5 * i] for i in range(n)]
            mt = m.split("|")
            mh = mt[0].split()
            order_ok, placed_ok, model_offs = mh[1], mh[2], mh[3:]
            fin = mt[1].split()
            # stack-argument slots keep their own location: the model prints -1, the implementation leaves 0
            model_offs = [("0" if (t[8 + 5 * i] == "1") else o) for i, o in enumerate(model_offs)]
            if placed_ok != "1":
                # verdict of the Coq-verified checker placed_ok (SlotFull.placed_ok_sound) on the implementation's own placement
                if ck.violation("C07/slots/placement-rejected", "%s -> the verified checker rejects the implementation's placement %s" % (c, a[:500]),
                                {"command": c, "impl": a, "model": m}):
                    found = True
            if order_ok != "1":
                if ck.violation("C07/slots/order", "%s -> processing order is not a permutation of the slots sorted by non-decreasing weight (as the pinned sort produces): %s" % (c, a[:500]),
                                {"command": c, "impl": a, "model": m}):
                    found = True
            if impl_offs != model_offs or fin[0] != t[2] or fin[1] != "0" or fin[2] != "0":
                slot_stats["disagreements"] += 1
                if not found:
                    ck.violation("C07/correspondence/slots", "calculate_stack_frame and the proven slot model disagree on %r\n impl : %s\n model: %s" % (c, a[:600], m[:600]),
                                 {"command": c, "impl": a, "model": m, "broken": "correspondence of SlotModel.v/SlotFull.v with rastack.cpp"}, no_input=True)
    stats["slot_layouts"] = slot_stats

    # native execution on the host (x86-64 only)
    nat = native_cmds(cmds, ri, rng, 3000 if ck.tier == "quick" else 60000)
    nat_run = nat_bad = nat_skip = 0
    if nat:
        rn = run_sharded(impl, nat)
        if isinstance(rn, tuple):
            ck.violation("C07/native-crash", "native execution harness died: %s" % (rn,), {"commands": nat[:3], "detail": str(rn), "broken": "native execution"}, no_input=True)
        else:
            for c, a in zip(nat, rn):
                if a.startswith("X ok"):
                    nat_run += 1
                elif a.startswith("X skip"):
                    nat_skip += 1
                else:
                    nat_bad += 1
                    ck.violation("C07/x64/native/" + (a.split()[1] if len(a.split()) > 1 else "?"),
                                 "%s -> native execution on the host: %s" % (c, a), {"command": c, "impl": a})
    stats["native_executed"] = nat_run; stats["native_skipped"] = nat_skip; stats["native_failed"] = nat_bad

    # compiled x86-64 functions executed natively under the frame monitor (stack arguments without a register at entry, dynamic
    # alignment => arguments moved into local slots, calls => local_stack_offset != 0, spills, optional FP)
    ncmds = ["N 1 %d 0 0 0 0 0 0 0 0 0 0 0 255 %d" % (rng.choice([0, 1]), rng.getrandbits(40)) for _ in range(800 if ck.tier == "quick" else 20000)]
    rn2 = run_sharded(impl, ncmds)
    nstats = {"functions": len(ncmds), "win64": len([x for x in ncmds if x.split()[2] == "1"]), "ok": 0, "skipped": 0, "failed": 0, "with_da": 0, "with_calls": 0, "with_stack_args": 0, "moved_args_and_call_area": 0}
    if isinstance(rn2, tuple):
        ck.violation("C07/native-compiled-crash", "native execution of compiled functions died: %s" % (rn2,), {"commands": ncmds[:3], "broken": "native execution"}, no_input=True)
    else:
        for c, a in zip(ncmds, rn2):
            m = re.search(r"nargs=(\d+) ngp=(\d+) calls=(\d+) fp=(\d) alignedLocal=(\d+) da=(\d)", a)
            if m:
                na, _g, nc, fpf, _al, da = [int(x) for x in m.groups()]
                nstats["with_da"] += da; nstats["with_calls"] += 1 if nc else 0; nstats["with_stack_args"] += 1 if na > 6 else 0
                nstats["moved_args_and_call_area"] += 1 if (na > 15 and da and not fpf and nc) else 0
            if a.startswith("N ok"):
                nstats["ok"] += 1
            elif a.startswith("N skip"):
                nstats["skipped"] += 1
            else:
                nstats["failed"] += 1
                ck.violation("C07/x64/native-compiled/" + a.split()[1], "%s -> compiled function executed natively: %s" % (c, a), {"command": c, "impl": a})
    stats["native_compiled"] = nstats

    for o in ck.proof_failures():
        ck.violation("C07/proof/" + o["name"], "theorem %s no longer checks (%s)" % (o["name"], getattr(ck, "coq_log", "")[-800:]),
                     {"broken": "theorem " + o["name"], "file": "coq/theories/Properties/Properties_C07.v"}, no_input=True)

    example_answers = [{"cmd": c, "impl": a[:400], "model": (rm[i] if i < len(rm) else "")[:400]}
                       for i, (c, a) in list(enumerate(zip(cmds, ri)))[len(cmds) // 2: len(cmds) // 2 + 3]]
    proved_vs_compared = {
        "proved for ALL inputs (Coq, closed under the global context)":
            "layout chain, x86/x64 and AArch64 round trip, frame conditions (what prolog/epilog must not change), alignment, no-wrap for every frame "
            "finalize accepts, slot placement for every processing order, meaning of the proven machine's verdicts (both directions), "
            "model = source for the calling-convention table and the thresholds (see obligations)",
        "translated from the C++ source on this run and re-checked by coqc when changed": tie_info,
        "compared EXHAUSTIVELY on this run": "every (architecture, platform, convention id) through the running code (corner frames), every frame on a "
            "case-split threshold of the model (tools/c07_gen.py boundary_frames), the variant probes",
        "compared on GENERATED inputs of this run (counts in this record)": "finalize outputs, refusals and prolog/epilog instruction lists of "
            "implementation vs extracted model (frames), argument-copy frames, frames of compiled functions, slot sets; every implementation answer "
            "is additionally judged by the independent interpreter, by the extracted proven machine and (x86-64) by native execution",
    }
    return ck.finish(
        "proof",
        {"evaluations": len(cmds), "distinct_nontrivial": len(nontrivial),
         "rule": "frame commands from VERIF_SEED (tools/c07_gen.py: every convention id x platform x arch corner frames, then random frames over dirty "
                 "mask classes, size/alignment boundaries, FP/calls/AVX/AVX-512 flags, SA register); a frame is non-trivial when the real prolog has at "
                 "least one instruction (distinct command lines counted)",
         "example_answers": example_answers, "proved_vs_compared": proved_vs_compared, "distribution": stats, "model_vs_impl_disagreements": disagreements,
         "tree_variant": {"truthful_final_alignment": bool(align_fix)}, "frames_judged_by_oracle": len(verdicts), "traces_validated_against_impl": len(cmds)},
        assumptions=["the C++ harness calls the real FuncDetail::init, FuncFrame::init/finalize and BaseEmitter::emit_prolog/emit_epilog of /repo's working tree",
                     "theorems are about the Gallina model (FrameModel.v) and the abstract machine (FrameMachine.v); the model is tied to the code by the "
                     "exact differential of this check; the machine's instruction semantics are trusted (validated by the python interpreter and native runs)",
                     "arg_stack_size is an input of the frame model (owned by C06); pointer arithmetic is on unbounded integers (no wrap-around at 0 / 2^64)",
                     "alignments are powers of two (API contract); frames above finalize's size limit are refused (finalize_error, inside the model)",
                     "tools/c07_translate.py understands the statement subset init_call_conv is written in; RegGroup indices and the Environment predicates of "
                     "the three harness platforms are given to it"],
        checker_cmd="coqc (Coq 8.16.1) -Q coq/theories Verif coq/theories/Properties/Properties_C07.v  [full .vo build of its dependencies]",
        trusted_base=["Coq 8.16.1 kernel incl. vm_compute (no native_compute)", "no axioms: every theorem 'Closed under the global context'",
                      "extraction (ExtrOcamlBasic only) + OCaml + zarith glue in ml/zconv.ml",
                      "harness/c07_harness.cpp, tools/checks/c07.py, tools/c07_gen.py, tools/c07_oracle.py (generator, differ, interpreter oracle)",
                      "tools/c07_translate.py (C++ subset interpreter; a wrong translation makes coqc reject `model = source`, it cannot make a theorem pass silently "
                      "unless it errs exactly like the model)"])

"""C12 — Instruction read/write information covers what the CPU really does (x86/x64 InstAPI::query_rw_info).

theorems     : coq/theories/Properties/Properties_C12.v — RegWrite mini-semantics (GP partial writes, VEX zeroing, {k}{z}
               masking, vpternlog idiom) against the model's byte masks; covers_db / rm_replaceable by reflection over the
               generated case lists (coq/gen/C12_*.v)
translator   : harness/c12_harness.cpp `dump` (RW tables of the working tree) + node tools/c12_db.js (ISA database expanded by the
               repository's own db/index.js) -> tools/c12_gen.py -> coq/gen/C12_X86RwTables.v, C12_X86Cases_*.v, C12_X86Cover.v
correspondence: extracted model (coq/extract/Extract_RwInfo.v + ml/c12_driver.ml) vs. the real InstAPI::query_rw_info on every
               database tuple (accepted or not) and on random tuples
oracle       : tools/c12_gen.py judge()/judge_rm(): the IMPLEMENTATION's answers against the database, independent of the model
regeneration : node tools/tablegen-x86.js in a scratch copy must reproduce the committed generated files byte for byte
"""
import collections
import json
import os
import random
import re
import shutil
import sys
from concurrent.futures import ThreadPoolExecutor

import vlib

sys.path.insert(0, os.path.dirname(os.path.dirname(os.path.abspath(__file__))))
import c12_gen as G

SHARDS_OK = 8
RT_POOL = [2, 3, 4, 5, 6, 11, 12, 13, 16, 17, 25, 26, 27, 28, 29, 30]
MEM_SIZES = [0, 1, 2, 4, 6, 8, 10, 16, 32, 48, 63, 64, 65, 128, 255]     # 64/65: the clamp of the byte-mask width (lsb_mask(min(size, 64)))


def run_stream(exe, cmds, shards=8, timeout=900):
    """returns list of answer lines (or raises)"""
    if not cmds:
        return []
    chunks = [cmds[i::shards] for i in range(shards)]

    def one(chunk):
        if not chunk:
            return []
        rc, out, err = vlib.sh([exe], inp="\n".join(chunk) + "\n", timeout=timeout)
        lines = out.split("\n")[:-1]
        if rc != 0 or len(lines) != len(chunk):
            raise RuntimeError("stream failed rc=%s lines=%d/%d %s" % (rc, len(lines), len(chunk), err[-400:]))
        return lines
    with ThreadPoolExecutor(max_workers=shards) as ex:
        rs = list(ex.map(one, chunks))
    out = [None] * len(cmds)
    for i, r in enumerate(rs):
        out[i::shards] = r
    return out


def random_cmds(rng, T, n):
    """random (mostly not validator-accepted) tuples: the model is a transliteration and must agree everywhere"""
    cmds = []
    ninst = len(T["I"])
    special = [i["id"] for i in T["I"] if T["RA"][i["a"]]["cat"] > 0 or T["RB"][i["b"]]["cat"] > 0]
    for _ in range(n):
        iid = rng.choice(special) if (special and rng.random() < 0.35) else rng.randrange(ninst + 2)
        nops = rng.choice([0, 1, 2, 2, 2, 3, 3, 3, 4, 4, 5, 6])
        ops = []
        for _j in range(nops):
            r = rng.random()
            if r < 0.55:
                ops.append("r%d:%d" % (rng.choice(RT_POOL), rng.randrange(8)))
            elif r < 0.8:
                ops.append("m%d:%d:%d" % (rng.choice(MEM_SIZES), rng.choice([0, 1, 2, 2, 2]), rng.choice([0, 0, 1, 11, 12, 13])))
            elif r < 0.95:
                ops.append("i%d" % rng.choice([0, 1, 0x11, 0x55, 0xF0, 0xAA, 255, -1, rng.randrange(256)]))
            elif r < 0.98:
                ops.append("l")
            else:
                ops.append("n")
        opt = rng.choice([0, 0, 0, G.OPT_ZMASK, G.OPT_ER, G.OPT_ZMASK | G.OPT_ER])
        cmds.append("Q %d %d %d %d %d %s" % (rng.randrange(2), iid, opt, rng.choice([0, 0, 1]), nops, " ".join(ops)))
    return cmds


def boundary_cmds(T, TA):
    """deterministic commands at the case-split boundaries of the model / proofs: all 256 vpternlog predicates (x 3 shapes), memory operand sizes
    around the 64-byte clamp for one instruction of every RW category, operand counts 0..6, a64 element index x size around 64,
    one instruction per reg/mem record x operand shapes x {er}/{z}/{k} (the case splits of the whole-path theorems)"""
    cmds = []
    K = T["K"]
    for iid in (K["kIdVpternlogd"], K["kIdVpternlogq"]):
        for imm in range(256):
            cmds.append("Q 1 %d 0 0 4 r11:1 r11:2 r11:3 i%d" % (iid, imm))
            cmds.append("Q 1 %d 0 1 4 r13:1 r13:2 m64:2:0 i%d" % (iid, imm))
        cmds.append("Q 1 %d 0 0 3 r11:1 r11:2 r11:3" % iid)
    by_cat = {}
    for i in T["I"]:
        for row in (T["RA"][i["a"]], T["RB"][i["b"]]):
            by_cat.setdefault(row["cat"], i["id"])
    for cat, iid in sorted(by_cat.items()):
        for sz in (0, 1, 63, 64, 65, 128, 255):
            for arch in (0, 1):
                cmds.append("Q %d %d 0 0 2 r11:1 m%d:2:0" % (arch, iid, sz))
                cmds.append("Q %d %d 0 0 2 m%d:2:1 r5:1" % (arch, iid, sz))
                cmds.append("Q %d %d 0 1 3 r13:1 r13:2 m%d:2:0" % (arch, iid, sz))
        for n in range(0, 7):
            cmds.append("Q 1 %d 0 0 %d %s" % (iid, n, " ".join(["r5:1", "r6:2", "r11:3", "m8:2:0", "i1", "r16:2"][:n])))
    # round 6: the case splits of the whole-path proofs - one instruction per reg/mem record (RWInfoRm: candidate mask, flags incl. movss/movsd,
    # pextrw, rm_feature-if-imm) x register/memory/immediate shapes x {no option, {er}, {z}} x {no mask, {k}}: reg/mem marking, the
    # single-candidate rule, "never with {er}", merge-masking vs zeroing, the extend mask cleared by movss/movsd
    by_rm = {}
    for i in T["I"]:
        for row in (T["RA"][i["a"]], T["RB"][i["b"]]):
            if row["cat"] <= 1:
                by_rm.setdefault(row["rm"], i["id"])
    shapes = [["r11:1", "r11:2"], ["r11:1", "m16:2:0"], ["m16:2:0", "r11:1"], ["r5:1", "r11:2"], ["r11:1", "r5:2"], ["r28:1", "r5:2"], ["r6:1", "r28:2"],
              ["r11:1", "r11:2", "r11:3"], ["r13:1", "r13:2", "m64:2:0"], ["r12:1", "r12:2", "i1"], ["r12:1", "m32:2:0", "i1"], ["r5:1", "r28:2", "i1"],
              ["r11:1", "r11:2", "r11:3", "i240"], ["r11:1"], ["m8:2:0"]]
    for rmi, iid in sorted(by_rm.items()):
        for sh in shapes:
            for opt in (0, G.OPT_ER, G.OPT_ZMASK):
                for extra in (0, 1):
                    cmds.append("Q 1 %d %d %d %d %s" % (iid, opt, extra, len(sh), " ".join(sh)))
    some = [i["id"] for i in TA["I"][:400:37]]
    for iid in some:
        for k, es in (("b", 1), ("h", 2), ("s", 4), ("d", 8)):
            for idx in sorted(set(i for i in (0, 1, 64 // es - 1, 64 // es, 64 // es + 1, 15) if i < 16)):     # the operand's index field has 4 bits
                cmds.append("A %d 2 e%s:1:%d v%s:2" % (iid, k, idx, "b16"))
    return cmds


def random_feature_cmds(rng, T, n):
    """random query_features tuples, biased to the instructions with operand-dependent refinement and to register ids around 16 and 32"""
    K = T["K"]
    special = [v for k, v in K.items() if k.startswith("i_")]
    multi = [i["id"] for i in T["I"] if len([x for x in T["A"][i["addl"]]["feat"] if x]) > 1]
    cmds = []
    idpool = [0, 1, 7, 8, 14, 15, 16, 17, 30, 31, 32, 33]
    for _ in range(n):
        r = rng.random()
        iid = rng.choice(special) if r < 0.3 else (rng.choice(multi) if r < 0.85 and multi else rng.randrange(len(T["I"]) + 2))
        nops = rng.choice([0, 1, 2, 2, 3, 3, 3, 4, 4, 5])
        ops = []
        for _j in range(nops):
            r = rng.random()
            if r < 0.6:
                ops.append("r%d:%d" % (rng.choice([5, 6, 11, 11, 12, 12, 13, 16, 28, 2]), rng.choice(idpool)))
            elif r < 0.85:
                x = rng.choice([0, 0, 1, 11, 12, 13])
                ops.append("m%d:%d:%d" % (rng.choice(MEM_SIZES), rng.choice([0, 1, 2, 2, 2]), x + (100 * rng.choice(idpool) if x and rng.random() < 0.6 else 0)))
            else:
                ops.append("i%d" % rng.randrange(256))
        opt = rng.choice([0, 0, 0, K["o_Evex"], K["o_Vex"], K["o_Vex3"], G.OPT_ZMASK, G.OPT_ER, K["o_Evex"] | K["o_Vex"]])
        cmds.append("F %d %d %d %d %d %s" % (rng.randrange(2), iid, opt, rng.choice([0, 0, 1]), nops, " ".join(ops)))
    return cmds


def tablegen_regen(ck):
    """tables = tablegen(db): run the repository's generator on a scratch copy and compare the generated files"""
    repo = vlib.REPO
    import tempfile
    scratch = tempfile.mkdtemp(prefix="c12-tablegen-")     # outside the repository under verification and outside the verification tree
    for d in ("asmjit", "db", "tools"):
        shutil.copytree(os.path.join(repo, d), os.path.join(scratch, d))
    for gen_js in ("tablegen-x86.js", "tablegen-a64.js"):
        rc, out, err = vlib.sh(["node", gen_js], cwd=os.path.join(scratch, "tools"), timeout=300)
        if rc != 0:
            shutil.rmtree(scratch, ignore_errors=True)
            return None, "%s failed: %s" % (gen_js, err[-500:] or out[-500:])
    diffs = []
    for root, _d, files in os.walk(os.path.join(scratch, "asmjit")):
        for f in files:
            if f.endswith(".backup"):
                continue
            p = os.path.join(root, f)
            q = os.path.join(repo, os.path.relpath(p, scratch))
            if not os.path.exists(q) or open(p, "rb").read() != open(q, "rb").read():
                diffs.append(os.path.relpath(p, scratch))
    detail = ""
    if diffs:
        rc, out, err = vlib.sh(["diff", "-u", os.path.join(repo, diffs[0]), os.path.join(scratch, diffs[0])], timeout=60)
        detail = "\n".join(l for l in out.splitlines() if l[:1] in "+-")[:1500]
    shutil.rmtree(scratch, ignore_errors=True)
    return diffs, detail


def build_cases(forms, T, impl, ck):
    """candidates -> implementation answers -> accepted cases with database expectations and the oracle's verdicts"""
    name2id = {i["name"]: i["id"] for i in T["I"]}
    by_name = collections.defaultdict(list)
    for f in forms:
        by_name[f["name"]].append(f)
    cands = []
    unsupported = collections.Counter()
    derived = [g for g in (G.implicit_omitted_form(f) for f in forms) if g is not None]
    for g in derived:
        by_name[g["name"]].append(g)
    for f in forms + derived:
        c = G.candidates(f, name2id)
        if c is None:
            unsupported["not in AsmJit's tables (APX/AVX10 extension or unknown mnemonic)"] += 1
            continue
        if not c:
            unsupported["no operand tuple could be built: " + f["name"]] += 1
            continue
        for x in c:
            cands.append((f, x))
    answers = run_stream(impl, [G.cmd_of(x) for _f, x in cands])
    fanswers = run_stream(impl, [G.cmd_of(x, "F") for _f, x in cands])
    id_name = feature_names(vlib.REPO)
    feat_id = {n: i for i, n in id_name.items()}
    cases = []
    seen = set()
    accepted_forms = set()
    tried_forms = set()
    for (f, x), a, fa in zip(cands, answers, fanswers):
        if not f.get("implicit_omitted"):
            tried_forms.add(f["idx"])
        r = G.parse_answer(a)
        if r["impl"].get("v") != 1:
            continue
        if not f.get("implicit_omitted"):
            accepted_forms.add(f["idx"])
        exps, rf, wf, er, mg, rmc = G.expectations(f, x)
        ms, mforms = G.mem_sizes_allowed(by_name, f, x, feat_id)
        alts = G.feature_alternatives(by_name, f, x, feat_id)
        feat_bad = G.judge_features(alts, fa, id_name)
        line = G.case_v(f, x, exps, rf, wf, er, mg, rmc, ms, alts, feat_bad is None, mforms)
        dkey = line.split(" ", 2)[2]      # without the form index: identical tuple + identical expectations only once
        if dkey in seen:
            continue
        seen.add(dkey)
        cover_bad = G.judge(exps, rf, wf, er, mg, r)
        rm_bad = G.judge_rm(exps, ms, x[5], r) if rmc else []
        if rmc and not rm_bad:
            rm_bad = [(j, why, "rm-feature") for j, why in G.judge_rm_features(exps, mforms, x[5], r, fa, id_name)]
        cases.append({"form": f, "cand": x, "line": line, "ans": r, "raw": a, "cover_bad": cover_bad, "rm_bad": rm_bad, "feat_bad": feat_bad,
                      "fraw": fa})
    tried_forms = set(k for k in tried_forms if isinstance(k, int))
    for f in forms:
        if f["idx"] in tried_forms and f["idx"] not in accepted_forms:
            unsupported["validator accepts no tuple built for: " + f["name"]] += 1
    return cands, answers, cases, unsupported


def gen_files(T, cases):
    ok = [c for c in cases if not c["cover_bad"] and not c["rm_bad"]]
    rm_bad = [c for c in cases if not c["cover_bad"] and c["rm_bad"]]
    cover_bad = [c for c in cases if c["cover_bad"]]
    files = {"C12_X86RwTables.v": G.tables_v(T)}
    import zlib
    names = []
    for k in range(SHARDS_OK):      # sharded by mnemonic, so that a change of a few instructions leaves most shards (and their .vo) untouched
        part = [c for c in ok if zlib.crc32(c["form"]["name"].encode()) % SHARDS_OK == k]
        names.append(str(k))
        files["C12_X86Cases_%d.v" % k] = G.cases_file("x86_cases_%d" % k, [c["line"] for c in part],
                                                     [("fused", "case_fused x86_tables x86_feat_consts")])
    files["C12_X86Cases_rm_bad.v"] = G.cases_file("x86_cases_rm_bad", [c["line"] for c in rm_bad],
                                                 [("covered", "case_covered x86_tables"),
                                                  ("rm_false", "fun c => negb (case_rm_ok x86_tables c && case_rmfeat_ok x86_tables x86_feat_consts c)"),
                                                  ("feat", "case_feat_good x86_tables x86_feat_consts")])
    files["C12_X86Cases_cover_bad.v"] = G.cases_file("x86_cases_cover_bad", [c["line"] for c in cover_bad],
                                                    [("not_covered", "fun c => negb (case_covered x86_tables c)"), ("feat", "case_feat_good x86_tables x86_feat_consts")])
    files["C12_X86Cover.v"] = G.cover_file(names, (len(ok), len(rm_bad), len(cover_bad)))
    return files, ok, rm_bad, cover_bad


def build_a64(ck, impl):
    """AArch64 register-list forms of db/isa_aarch64.json -> tuples -> implementation answers -> verdicts"""
    rc, dump, err = vlib.sh([impl, "dumpa64"], timeout=120, inp="")
    if rc != 0:
        raise RuntimeError("dumpa64 failed: " + err[-500:])
    TA = G.parse_dump_a64(dump)
    name2id = {i["name"]: i["id"] for i in TA["I"]}
    forms = G.a64_list_forms(open(os.path.join(vlib.REPO, "db", "isa_aarch64.json")).read())
    cands, unsupported = [], collections.Counter()
    for f in forms:
        c = G.a64_candidates(f, name2id)
        if c is None:
            unsupported["a64 list form not expressible (SVE/system/element-list/8-register forms): " + f["name"]] += 1
            continue
        for x in c:
            cands.append((f, x))
    answers = run_stream(impl, ["A %d %d %s" % (x[0], len(x[1]), " ".join(x[1])) for _f, x in cands], shards=2)
    cases, seen = [], set()
    for (f, x), a in zip(cands, answers):
        r = G.parse_answer(a.replace("A ", "Q ", 1))
        if r["impl"].get("v") != 1:
            unsupported["a64 validator refuses the tuple built for: " + f["name"]] += 1
            continue
        line = G.a64_case_v(x)
        if line in seen:
            continue
        seen.add(line)
        cases.append({"form": f, "cand": x, "line": line, "ans": r, "raw": a, "bad": G.judge_a64(x[2], x[3], r)})
    return TA, forms, cands, cases, unsupported


def build_a64_access(ck, impl, TA):
    """every form of the expanded a64 database AsmJit knows and the tuple builder can express: access per operand"""
    rc, dbtxt, err = vlib.sh(["node", os.path.join(vlib.VERIF, "tools", "c12_db_a64.js"), vlib.REPO], timeout=180)
    if rc != 0:
        raise RuntimeError("c12_db_a64.js failed: " + err[-500:])
    forms = [json.loads(l) for l in dbtxt.splitlines() if l.strip()]
    name2id = {i["name"]: i["id"] for i in TA["I"]}
    cands, unsupported = [], collections.Counter()
    for f in forms:
        c = G.a64_access_candidates(f, name2id)
        if isinstance(c, str):
            unsupported[" ".join(c.split(" ")[:2])] += 1
            continue
        for x in c:
            cands.append((f, x))
    answers = run_stream(impl, ["A %d %d %s" % (x[0], len(x[1]), " ".join(x[1])) for _f, x in cands], shards=4)
    cases, seen, forms_ok = [], set(), set()
    for (f, x), a in zip(cands, answers):
        r = G.parse_answer(a.replace("A ", "Q ", 1))
        if r["impl"].get("v") != 1:
            unsupported["validator refuses the tuple"] += 1
            continue
        forms_ok.add(f["idx"])
        line = G.a64_case_v(x)
        if line in seen:
            continue
        seen.add(line)
        cases.append({"form": f, "cand": x, "line": line, "ans": r, "raw": a, "bad": G.judge_a64(x[2], x[3], r)})
    # AArch64 query_features (a stub in the pinned tree): one verdict for all accepted tuples whose database form names an extension
    need = [(f, x) for (f, x), a in zip(cands, answers) if f["ext"] and G.parse_answer(a.replace("A ", "Q ", 1))["impl"].get("v") == 1]
    ganswers = run_stream(impl, ["G %d %d %s" % (x[0], len(x[1]), " ".join(x[1])) for _f, x in need], shards=4) if need else []
    untouched = len([g for g in ganswers if g.split()[1:3] == ["0", "0"]])
    build_a64_access.features = {"tuples_with_database_extension": len(need), "answers_that_leave_the_output_untouched": untouched,
                                 "first_tuple_and_answer": ("%s %s" % (need[0][0]["name"], need[0][0]["ext"]), ganswers[0]) if need else None}
    return forms, cands, cases, unsupported, len(forms_ok)


def a64_random_cmds(rng, TA, n):
    cmds = []
    consec = [i["id"] for i in TA["I"] if i["flags"] & TA["K"]["kInstFlagConsecutive"]]
    arrs = list(G.A64_ARR.values())
    for _ in range(n):
        iid = rng.choice(consec) if rng.random() < 0.4 else rng.randrange(len(TA["I"]) + 2)
        if rng.random() < 0.1:
            iid |= rng.choice([1, 5, 15]) << 16      # condition-code bits above the real id
        nops = rng.choice([0, 1, 2, 2, 3, 3, 4, 4, 5, 6])
        ops = []
        for _j in range(nops):
            r = rng.random()
            if r < 0.4:
                ops.append("v%s:%d" % (rng.choice(arrs), rng.randrange(32)))
            elif r < 0.55:
                k = rng.choice("bhsd")
                ops.append("e%s:%d:%d" % (k, rng.randrange(32), rng.randrange({"b": 16, "h": 8, "s": 4, "d": 2}[k])))
            elif r < 0.75:
                ops.append("%s:%d" % (rng.choice("xw"), rng.randrange(31)))
            elif r < 0.93:
                ops.append("m:%d:%d:%d" % (rng.randrange(31), rng.randrange(6), rng.choice([0, 8, 16, 32])))
            else:
                ops.append("i%d" % rng.randrange(64))
        cmds.append("A %d %d %s" % (iid, nops, " ".join(ops)))
    return cmds


EXEC_CATEGORIES = {"GP", "GP_EXT", "SIMD", "SSE", "AVX", "AVX512", "MASK", "CRYPTO_HASH"}
EXEC_DENY = {"push", "pop", "pushf", "popf", "pushfq", "popfq", "pusha", "popa", "rdrand", "rdseed", "rdtsc", "rdtscp", "rdpid", "rdpru",
             "rdpkru", "wrpkru", "ldmxcsr", "vldmxcsr", "xgetbv", "enter", "leave"}
EXEC_REGTYPES = {"r8", "r8hi", "r16", "r32", "r64", "xmm", "ymm", "zmm", "k"}


# quick tier: check B (dependence on unreported reads) is an obligation for this fixed subset, run with 64 states from a FIXED seed (deterministic):
# read-modify-write / merging / accumulating instructions (the families where defects were found) plus the three recorded finding families
B_QUICK = {"cmpxchg", "xadd", "xchg", "punpcklbw", "punpcklwd", "punpckldq", "vdpbf16ps", "vpermi2ps", "vpermi2pd", "vpermi2d", "vpermt2ps",
           "vfixupimmsd", "vfixupimmss", "vfixupimmps", "vrangesd", "vrangess", "vpternlogd", "vpternlogq", "vcvtpd2ps", "vcvtpd2dq", "vcvtqq2ps",
           "vfmadd231ps", "vfmadd231sd", "vpdpbusd", "pinsrw", "pinsrb", "movss", "movsd", "vmovss", "movlps", "movhps", "cvtsi2sd", "sqrtss",
           "adc", "sbb", "cmovz", "setz", "bsf", "bsr", "bt", "bts", "shl", "shld", "rol", "imul", "mul", "div", "popcnt", "lzcnt", "kaddw", "kmovw"}
B_QUICK_SEED = 20261002


def host_exec(ck, cases):
    """EXPLORATION (never an obligation): execute the non-privileged, non-control-flow, non-volatile forms on the host CPU from random
    machine states and compare the processor's behaviour with the reported RW information (harness/c12_exec.cpp)."""
    exe = ck.build_harness("c12x", ["c12_exec.cpp"])
    nstates = 6 if ck.tier == "quick" else 64
    sel, bsel, skipped = [], [], collections.Counter()
    for c in cases:
        f, x = c["form"], c["cand"]
        if x[0] != 1:
            continue
        if f.get("implicit_omitted"):
            skipped["implicit call shape (implicit registers cannot be reported)"] += 1
            continue
        if f["volatile"] or f["control"] != "none" or f["privilege"] != "L3" or not set(f["category"]) <= EXEC_CATEGORIES or f["name"] in EXEC_DENY:
            skipped["volatile / control-flow / privileged / state / x87-MMX-AMX form"] += 1
            continue
        if any(o["reg"] and o["regType"] not in EXEC_REGTYPES for o in f["operands"]):
            skipped["register class not executed"] += 1
            continue
        if any(k not in ("reg", "imm", "mem") for k in x[5]) or any(t[0] == "m" and not (t.endswith(":0") and (t.split(":")[1] == "2" or int(t.split(":")[1]) >= 100)) for t in x[4]):
            skipped["addressing form not executed (index/label/absolute)"] += 1
            continue
        if x[2] & G.OPT_ER:
            skipped["{er} variant"] += 1
            continue
        uflags = 0
        for fl, acc in f["io"].items():
            if acc == "U" and fl in G.FLAG_BITS:
                uflags |= G.FLAG_BITS[fl]
        sel.append((c, "X %d %d %d %d %d %d %d %s" % (ck.seed, nstates, x[1], x[2], x[3], uflags, len(x[4]), " ".join(x[4]))))
        if ck.tier == "quick" and f["name"] in B_QUICK:
            bsel.append((c, "X %d %d %d %d %d %d %d %s" % (B_QUICK_SEED, 64, x[1], x[2], x[3], uflags, len(x[4]), " ".join(x[4]))))
        # same-register variant: the first two generic register operands of equal type share one register
        ops = f["operands"]
        if len(x[4]) >= 2 and x[5][0] == "reg" and x[5][1] == "reg" and ops[0]["reg"] not in G.FIXED and ops[1]["reg"] not in G.FIXED \
                and x[4][0].split(":")[0] == x[4][1].split(":")[0] and not ops[1]["regIndexRel"]:
            same = [x[4][0], x[4][0]] + list(x[4][2:])
            sel.append((dict(c, cand=(x[0], x[1], x[2], x[3], same, x[5])),
                        "X %d %d %d %d %d %d %d %s" % (ck.seed + 1, nstates, x[1], x[2], x[3], uflags, len(same), " ".join(same))))
    try:
        outs = run_stream(exe, [cmd for _c, cmd in sel], shards=8, timeout=1500)
    except Exception as e:      # the exploration must never turn into a verdict
        return {"status": "exploration harness failed: %s" % str(e)[:300], "selected": len(sel)}
    executed = faults_only = 0
    skip_reasons = collections.Counter()
    a_list, b_list, e_list = [], [], []
    for (c, cmd), o in zip(sel, outs):
        p = o.split()
        if len(p) < 2 or not p[1].startswith("ok"):
            skip_reasons[" ".join(p[1:])[:60]] += 1
            continue
        kv = dict(t.split("=", 1) for t in p[2:] if "=" in t)
        if int(kv.get("runs", "0")) == 0:
            faults_only += 1
            continue
        executed += 1
        desc = "%s %s" % (c["form"]["name"], " ".join(c["cand"][4])) + (" {k}" if c["cand"][3] else "") + (" {z}" if c["cand"][2] & G.OPT_ZMASK else "")
        if kv.get("A", "-") != "-":
            a_list.append({"form": desc, "what": kv["A"], "cmd": cmd})
        if kv.get("B", "-") != "-":
            b_list.append({"form": desc, "what": kv["B"], "cmd": cmd})
        if kv.get("E", "-") != "-":
            e_list.append({"form": desc, "what": kv["E"], "cmd": cmd})

    def by_mnemonic(lst):
        d = collections.OrderedDict()
        for e in lst:
            d.setdefault(e["form"].split()[0], []).append(e)
        return {k: {"count": len(v), "first": v[0]} for k, v in d.items()}
    # PROMOTED to an obligation (round 2): a register/flag/memory byte that changes on the host CPU without being reported as written.
    # (Dependence on unreported reads (B) and over-reported extensions (E) stay exploration: they need "lucky" states.)
    for e in a_list:
        ck.violation("C12/host/%s/unreported-change" % e["form"].split()[0],
                     "host CPU: %s changes %s, which query_rw_info does not report as written (the ISA database does not either)" % (e["form"], e["what"]),
                     {"command": e["cmd"], "harness": "c12_exec"})
    # thorough tier (64 states per form, zero/small values frequent): a reported-written byte that depends on something not reported as read
    # is an obligation too; in the quick tier (6 states) B needs too much luck and stays exploration.
    b_quick = []
    if bsel:
        try:
            for (c, cmd), o in zip(bsel, run_stream(exe, [cmd for _c, cmd in bsel], shards=8, timeout=900)):
                kv = dict(t.split("=", 1) for t in o.split()[2:] if "=" in t)
                if kv.get("B", "-") != "-":
                    b_quick.append({"form": "%s %s" % (c["form"]["name"], " ".join(c["cand"][4])) + (" {k}" if c["cand"][3] else ""), "what": kv["B"], "cmd": cmd})
        except Exception as e:
            ck.notes.append("quick check-B subset failed to run: %s" % str(e)[:200])
    if ck.tier == "thorough" or b_quick:
        for e in (b_list if ck.tier == "thorough" else b_quick):
            ck.violation("C12/host/%s/unreported-read" % e["form"].split()[0],
                         "host CPU: the result of %s depends on state that query_rw_info does not report as read (%s)" % (e["form"], e["what"]),
                         {"command": e["cmd"], "harness": "c12_exec"})
    return {"status": "A (unreported change) is an obligation; B (dependence on unreported reads) in the thorough tier and, for a fixed subset, in the quick tier; E is exploration", "states_per_form": nstates,
            "quick_check_B_subset": {"mnemonics": len(B_QUICK), "tuples": len(bsel), "states": 64, "seed": B_QUICK_SEED, "dependences_found": len(b_quick)},
            "selected": len(sel), "executed": executed,
            "every_state_faulted": faults_only, "not_executed": dict(skip_reasons), "not_selected": dict(skipped),
            "unreported_changes": by_mnemonic(a_list), "dependence_on_unreported_reads": by_mnemonic(b_list),
            "extension_reported_but_bytes_kept": {"forms": len(e_list), "mnemonics": sorted(set(e["form"].split()[0] for e in e_list))[:400],
                                                  "first": e_list[0] if e_list else None},
            "forms_with_unreported_change": len(a_list), "forms_depending_on_unreported_read": len(b_list)}


def feature_names(repo):
    """CpuFeatures::X86 identifiers in enum order (asmjit/core/cpuinfo.h) -> {id: name}"""
    import re
    txt = open(os.path.join(repo, "asmjit", "core", "cpuinfo.h")).read()
    m = re.search(r'@EnumValuesBegin\{"enum": "CpuFeatures::X86"\}@(.*?)@EnumValuesEnd@', txt, re.S)
    if not m:
        return {}
    names = re.findall(r"^\s*k([A-Za-z0-9_]+)\s*,", m.group(1), re.M)
    return {i: n for i, n in enumerate(names)}


def features_exploration(ck, impl, forms, cases):
    """EXPLORATION: query_features of every accepted tuple must include the extensions of at least one database form the tuple matches
    (the encoder picks one of them; which one is C01's subject).  Not an obligation: reported in the evidence."""
    fn = feature_names(vlib.REPO)
    if not fn:
        return {"status": "feature enum not found"}
    by_name = collections.defaultdict(list)
    for f in forms:
        by_name[f["name"]].append(f)
    outs = run_stream(impl, [G.cmd_of(c["cand"], "F") for c in cases])
    bad = collections.OrderedDict()
    ok = 0
    for c, o in zip(cases, outs):
        p = o.split()
        if len(p) < 2 or p[1] != "0":
            bad.setdefault(c["form"]["name"], "query_features failed for %s" % " ".join(c["cand"][4]))
            continue
        rep = set(fn.get(int(x), "?%s" % x) for x in p[2:])
        arch, iid, opt, extra, txts, kinds = c["cand"]
        match = False
        cand_exts = []
        for g in by_name[c["form"]["name"]]:
            if len(g["operands"]) != len(txts) or any(e in G.IGNORED_EXT for e in g["ext"]):
                continue
            if g["arch"] != "ANY" and (g["arch"] == "X64") != (arch == 1):
                continue
            if (extra and not g["kmask"]) or ((opt & G.OPT_ZMASK) and not g["zmask"]):
                continue
            if not all(G.admits(g["operands"][k], txts[k]) for k in range(len(txts))):
                continue
            need = set(g["ext"])
            if any(t.startswith("r13:") or (t[0] == "m" and t.endswith(":13")) for t in txts):
                need.discard("AVX512_VL")       # 512-bit forms do not need the vector-length extension
            cand_exts.append(sorted(need))
            if need <= rep:
                match = True
        if match:
            ok += 1
        else:
            bad.setdefault(c["form"]["name"], "%s %s: reported {%s}, matching database forms need %s" % (
                c["form"]["name"], " ".join(txts) + (" {k}" if extra else ""), ",".join(sorted(rep)), cand_exts[:3]))
    return {"status": "exploration only (not obligations)", "tuples": len(cases), "reported_features_cover_a_matching_form": ok,
            "mnemonics_where_not": len(bad), "first_per_mnemonic": dict(list(bad.items())[:60])}


def regen_parallel(ck, files, timeout=1500):
    """Same contract as vlib.Check.coq_regen (None when the committed snapshot is current, else (gen_dir, failed, log)), but the case shards
    are compiled in parallel (own implementation: tools/vlib.py is shared and compiles sequentially)."""
    import glob
    gen = os.path.join(vlib.COQ, "gen")
    if all(os.path.exists(os.path.join(gen, n)) and open(os.path.join(gen, n)).read() == t for n, t in files.items()):
        return None
    wgen = os.path.join(ck.work, "gen")
    shutil.rmtree(wgen, ignore_errors=True)
    os.makedirs(wgen)
    for p in glob.glob(os.path.join(gen, "*.v")):
        shutil.copy(p, wgen)
    # files identical to the snapshot keep their compiled .vo when everything they import is unchanged too (tables for the case shards)
    def same(n):
        p = os.path.join(gen, n)
        return os.path.exists(p) and open(p).read() == files[n]

    def vo_fresh(n):
        v, vo = os.path.join(gen, n), os.path.join(gen, n + "o")
        return os.path.exists(vo) and os.path.getmtime(vo) >= os.path.getmtime(v)
    tables_same = {"x86": same("C12_X86RwTables.v") and vo_fresh("C12_X86RwTables.v"), "a64": same("C12_A64Tables.v") and vo_fresh("C12_A64Tables.v")}
    reuse = set()
    for n in files:
        fam = "a64" if "A64" in n else "x86"
        if n.endswith("Cover.v"):
            continue
        if tables_same[fam] and same(n) and vo_fresh(n):
            reuse.add(n)
    for n, t in files.items():
        open(os.path.join(wgen, n), "w").write(t)
    for n in reuse:
        shutil.copy(os.path.join(gen, n + "o"), os.path.join(wgen, n + "o"))
    args = ["-Q", os.path.join(vlib.COQ, "theories"), "Verif", "-Q", wgen, "VerifGen", "-w", "-all"]
    mine = sorted(files)
    stages = [[n for n in mine if n.endswith("Tables.v")],
              [n for n in mine if not n.endswith("Tables.v") and not n.endswith("Cover.v")],
              [n for n in mine if n.endswith("Cover.v")]]
    failed, log = [], ""      # other properties' generated files are not needed by Properties_C12.v and are left alone

    def one(n):
        if n in reuse:
            return n, 0, ""
        rc, out, err = vlib.sh(["coqc"] + args + [os.path.join(wgen, n)], cwd=wgen, timeout=timeout)
        return n, rc, (out + err)[-3000:]
    for stage in stages:
        with ThreadPoolExecutor(max_workers=8) as ex:
            for n, rc, txt in ex.map(one, stage):
                if rc != 0:
                    failed.append(n)
                    log += txt
    return wgen, failed, log


def replay(ck, impl, model_of, forms, T):
    rp = json.load(open(ck.replay))
    cmds = rp["replay"].get("commands") or [rp["replay"]["command"]]
    model = model_of()
    for c in cmds:
        print("input :", c)
        if c.startswith("X "):
            exe = ck.build_harness("c12x", ["c12_exec.cpp"])
            print(" host  :", vlib.sh([exe], inp=c + "\n", timeout=120)[1].strip())
            continue
        a = vlib.sh([impl], inp=c + "\n")[1].strip()
        print(" impl  :", a)
        print(" model :", vlib.sh([model], inp=c + "\n")[1].strip())
        fi = rp["replay"].get("form")
        if fi is not None and rp["replay"].get("cand"):
            f = forms[fi]
            x = tuple(rp["replay"]["cand"])
            exps, rf, wf, er, mg, rmc = G.expectations(f, x)
            print(" oracle:", G.judge(exps, rf, wf, er, mg, G.parse_answer(a)) or "covers the database")
    return 0


def generate(ck):
    """the translator run alone (used by tools/c12_snapshot.py): {file name: text}, summary"""
    impl = ck.build_harness("c12", ["c12_harness.cpp"])
    T = G.parse_dump(vlib.sh([impl, "dump"], timeout=120, inp="")[1])
    forms = G.load_db(vlib.sh(["node", os.path.join(vlib.VERIF, "tools", "c12_db.js"), vlib.REPO], timeout=120)[1])
    cands, answers, cases, unsupported = build_cases(forms, T, impl, ck)
    files, ok, rm_bad, cover_bad = gen_files(T, cases)
    TA, a64_forms, a64_cands, a64_cases, a64_unsupported = build_a64(ck, impl)
    files["C12_A64Tables.v"] = G.a64_tables_v(TA)
    files["C12_A64Cases.v"] = G.a64_cases_file([c["line"] for c in a64_cases if not c["bad"]], [c["line"] for c in a64_cases if c["bad"]])
    acc = build_a64_access(ck, impl, TA)
    files["C12_A64Access.v"] = G.a64_access_file([c["line"] for c in acc[2] if not c["bad"]], [c["line"] for c in acc[2] if c["bad"]])
    return files, {"x86 cases": len(cases), "ok": len(ok), "rm_bad": len(rm_bad), "cover_bad": len(cover_bad),
                   "feat_bad": len([c for c in cases if c["feat_bad"]]), "a64 list": len(a64_cases), "a64 access": len(acc[2])}


def run(ck):
    rng = random.Random(ck.seed)
    impl = ck.build_harness("c12", ["c12_harness.cpp"])
    rc, dump, err = vlib.sh([impl, "dump"], timeout=120)
    if rc != 0:
        raise RuntimeError("dump failed: " + err[-500:])
    T = G.parse_dump(dump)
    rc, dbtxt, err = vlib.sh(["node", os.path.join(vlib.VERIF, "tools", "c12_db.js"), vlib.REPO], timeout=120)
    if rc != 0:
        raise RuntimeError("c12_db.js failed: " + err[-500:])
    forms = G.load_db(dbtxt)
    ck.log("tables: %d instructions, database: %d forms" % (len(T["I"]), len(forms)))

    cands, answers, cases, unsupported = build_cases(forms, T, impl, ck)
    files, ok, rm_bad, cover_bad = gen_files(T, cases)
    TA, a64_forms, a64_cands, a64_cases, a64_unsupported = build_a64(ck, impl)
    files["C12_A64Tables.v"] = G.a64_tables_v(TA)
    files["C12_A64Cases.v"] = G.a64_cases_file([c["line"] for c in a64_cases if not c["bad"]], [c["line"] for c in a64_cases if c["bad"]])
    acc_forms, acc_cands, acc_cases, acc_unsupported, acc_forms_ok = build_a64_access(ck, impl, TA)
    files["C12_A64Access.v"] = G.a64_access_file([c["line"] for c in acc_cases if not c["bad"]], [c["line"] for c in acc_cases if c["bad"]])
    ck.log("a64 access: %d database forms, %d with an accepted tuple, %d distinct cases (%d not covered)" %
           (len(acc_forms), acc_forms_ok, len(acc_cases), len([c for c in acc_cases if c["bad"]])))
    ck.log("a64: %d register-list forms, %d tuples, %d accepted distinct cases (%d not reported as runs)" %
           (len(a64_forms), len(a64_cands), len(a64_cases), len([c for c in a64_cases if c["bad"]])))
    ck.log("tuples tried %d, validator-accepted distinct cases %d (ok %d, false reg/mem claims %d, not covered %d)" %
           (len(cands), len(cases), len(ok), len(rm_bad), len(cover_bad)))

    # ---- translator tie + theorems
    gen_dir = None
    regen = regen_parallel(ck, files)
    if regen is not None:
        gen_dir, failed, log = regen
        ck.log("generated Coq files differ from the committed snapshot; recompiled in %s (failed: %s)" % (gen_dir, failed))
        ck.notes.append("coq/gen regenerated for this run (working tree differs from the committed snapshot)")
        if failed:
            ck.coq_log = getattr(ck, "coq_log", "") + log
    universal_names = re.findall(r"^Theorem\s+(\w+)", open(os.path.join(vlib.COQ, "theories", "Properties", "Properties_C12.v")).read(), re.M)
    # three property files so that a broken reflection lemma of one family does not take the other theorems down with it
    obl = ck.coq_properties(timeout=1500) + ck.coq_properties(module="Properties_C12_X86", gen_dir=gen_dir, timeout=1500) + \
        ck.coq_properties(module="Properties_C12_A64", gen_dir=gen_dir, timeout=1500)
    ck.log("theorems: %d, failed: %d" % (len(obl), len([o for o in obl if not o["ok"]])))

    def model_of():
        return ck.ocaml_model("Extract_RwInfo.v", ["zconv.ml", "c12_driver.ml"], name="c12", gen_dir=gen_dir)

    if ck.replay:
        return replay(ck, impl, model_of, forms, T)

    # ---- oracle verdicts on the implementation's answers (always)
    n_viol = 0
    for c in cases:
        for (j, why) in c["cover_bad"]:
            key = G.case_key(c["form"], c["cand"], j)
            if ck.violation(key, "%s %s [%s]: %s" % (c["form"]["name"], " ".join(c["cand"][4]), c["form"]["opcode"], why),
                            {"command": G.cmd_of(c["cand"]), "impl": c["raw"], "form": c["form"]["idx"], "cand": list(c["cand"])}):
                n_viol += 1
        for rb in c["rm_bad"]:
            j, why = rb[0], rb[1]
            key = G.case_key(c["form"], c["cand"], j) + ("/regmem" if len(rb) == 2 else "/regmem-feature:" + why.split("]")[0].split(":")[1])
            if ck.violation(key, "%s %s: %s (validator on the substituted tuple: %s)" % (c["form"]["name"], " ".join(c["cand"][4]), why,
                                                                                       {1: "accepts", 0: "refuses"}.get(c["ans"]["impl"].get("s%d" % j), "n/a")),
                            {"command": G.cmd_of(c["cand"]), "impl": c["raw"], "form": c["form"]["idx"], "cand": list(c["cand"])}):
                n_viol += 1
    for c in cases:
        if c["feat_bad"]:
            ck.violation(G.case_key(c["form"], c["cand"], 0).rsplit("/", 1)[0] + "/features",
                         "%s %s [%s]: %s" % (c["form"]["name"], " ".join(c["cand"][4]), c["form"]["opcode"], c["feat_bad"]),
                         {"command": G.cmd_of(c["cand"], "F"), "impl": c["fraw"], "form": c["form"]["idx"], "cand": list(c["cand"])})
    for c in acc_cases:
        for (j, why) in c["bad"]:
            ck.violation("C12/a64-access/%s/%s/op%s" % (c["form"]["name"], ",".join(t.split(":")[0] for t in c["cand"][1]), j),
                         "%s %s (asmjit tuple %s): %s" % (c["form"]["name"], ", ".join(o["data"] for o in c["form"]["operands"]), " ".join(c["cand"][1]), why),
                         {"command": "A %d %d %s" % (c["cand"][0], len(c["cand"][1]), " ".join(c["cand"][1])), "impl": c["raw"]})
    af = getattr(build_a64_access, "features", None)
    if af and af["answers_that_leave_the_output_untouched"]:
        ck.violation("C12/a64-features/not-implemented",
                     "a64 query_features returns kOk without writing its output for %d of %d tuples whose database form requires an extension (e.g. %s -> %r)" % (
                         af["answers_that_leave_the_output_untouched"], af["tuples_with_database_extension"], af["first_tuple_and_answer"][0], af["first_tuple_and_answer"][1]),
                     {"command": "G ...", "first_tuple_and_answer": af["first_tuple_and_answer"]})
    for c in a64_cases:
        for (j, why) in c["bad"]:
            cmd = "A %d %d %s" % (c["cand"][0], len(c["cand"][1]), " ".join(c["cand"][1]))
            ck.violation(G.a64_key(c["form"], c["cand"], j), "%s (asmjit tuple %s): %s" % (c["form"]["inst"], " ".join(c["cand"][1]), why),
                         {"command": cmd, "impl": c["raw"]})
    # second opinion on the reg/mem claims the database confirms: the validator must accept the substituted tuple
    rm_claims = rm_validator_refuses = 0
    for c in cases:
        if c["ans"]["err"] == 0 and all(k in ("reg", "imm") for k in c["cand"][5]) and not c["rm_bad"]:
            for j, o in enumerate(c["ans"]["ops"]):
                if c["cand"][5][j] == "reg" and (o["flags"] & 4):
                    rm_claims += 1
                    if c["ans"]["impl"].get("s%d" % j) == 0:
                        rm_validator_refuses += 1

    # ---- correspondence: model vs implementation
    model = model_of()
    cmds = ["T"] + [G.cmd_of(x) for _f, x in cands]
    corpus = os.path.join(vlib.VERIF, "corpus", "C12.txt")
    if os.path.exists(corpus):
        cmds += [l.strip() for l in open(corpus) if l.strip() and not l.startswith("#")]
    cmds += random_cmds(rng, T, 20000 if ck.tier == "quick" else 400000)
    nb = len(cmds)
    cmds += boundary_cmds(T, TA)
    n_boundary = len(cmds) - nb
    cmds += [G.cmd_of(x, "F") for _f, x in cands]
    cmds += random_feature_cmds(rng, T, 20000 if ck.tier == "quick" else 300000)
    cmds += ["A %d %d %s" % (x[0], len(x[1]), " ".join(x[1])) for _f, x in a64_cands + acc_cands]
    cmds += a64_random_cmds(rng, TA, 5000 if ck.tier == "quick" else 100000)
    ri = run_stream(impl, cmds)
    rm = run_stream(model, cmds)
    disagreements = 0
    for cmd, a, b in zip(cmds, ri, rm):
        if a.split(" ## ")[0] != b:
            disagreements += 1
            if disagreements <= 20:
                ck.violation("C12/correspondence/" + ("regtraits" if cmd == "T" else ("a64-inst%s" % cmd.split()[1]) if cmd[0] == "A" else "inst%s" % cmd.split()[2]),
                             "implementation and model disagree on %r: impl %r model %r" % (cmd, a, b),
                             {"command": cmd, "impl": a, "model": b, "broken": "correspondence of RwModel.query_rw_info / A64RwModel.a64_query_rw_info with {x86,a64}::InstInternal::query_rw_info"},
                             no_input=True)

    # ---- exploration: required CPU features
    fx = {"tuples": len(cases), "tuples_with_high_register_id": len([c for c in cases if G.uses_high_id(c["cand"][4])]),
          "reported_features_cover_a_matching_form": len([c for c in cases if not c["feat_bad"]]),
          "not_covered": len([c for c in cases if c["feat_bad"]]),
          "tuples_with_more_than_one_matching_extension_set": len([c for c in cases if c["line"].count("]; [") and len(G.feature_alternatives.__name__) > 0 and False])}
    fx.pop("tuples_with_more_than_one_matching_extension_set")
    ck.log("query_features: %s" % fx)

    # ---- exploration: host execution
    hx = host_exec(ck, cases)
    ck.log("host execution (exploration): %s" % {k: v for k, v in hx.items() if isinstance(v, (int, str))})

    # ---- tables = tablegen(db)
    diffs, detail = tablegen_regen(ck)
    if diffs is None:
        ck.violation("C12/tablegen/failed", detail, {"broken": "tools/tablegen-x86.js does not run"}, no_input=True)
    elif diffs:
        ck.violation("C12/tablegen/" + ",".join(os.path.basename(d) for d in diffs),
                     "generated sections of %s differ from what tools/tablegen-x86.js (from db/isa_x86.json) / tools/tablegen-a64.js (from the INST rows) "
                     "produce:\n%s" % (diffs, detail),
                     {"files": diffs, "diff": detail, "broken": "committed tables = tablegen(database / INST rows), x86 and a64"}, no_input=True)

    for o in ck.proof_failures():
        ck.violation("C12/proof/" + o["name"], "theorem %s no longer checks (%s)" % (o["name"], getattr(ck, "coq_log", "")[-800:]),
                     {"broken": "theorem " + o["name"], "file": "coq/theories/Properties/Properties_C12*.v"}, no_input=True)

    nontrivial = set()
    for c in cases:
        if c["ans"]["err"] == 0:
            nontrivial.add((c["cand"][1], tuple(G.op_shape(t) for t in c["cand"][4]), c["cand"][0], c["cand"][2], c["cand"][3]))
    forms_covered = len(set(c["form"]["idx"] for c in cases))
    samples = [{"cmd": G.cmd_of(c["cand"]), "db_form": "%s %s" % (c["form"]["name"], ", ".join(o["data"] for o in c["form"]["operands"])),
                "impl": c["raw"]} for c in (cases[:3] + cases[len(cases) // 2: len(cases) // 2 + 3])]
    cat_hist = collections.Counter()
    for c in cases:
        i = T["I"][c["cand"][1]]
        row = T["RA"][i["a"]] if len(c["cand"][4]) == 2 else T["RB"][i["b"]]
        cat_hist["category %d" % row["cat"]] += 1
    return ck.finish(
        "proof",
        {"evaluations": len(cmds) + len(cands), "distinct_nontrivial": len(nontrivial),
         "rule": "every form of db/isa_x86.json that AsmJit's tables contain x {register, memory} alternative of each operand x "
                 "{no mask, {k}, {k}{z}} x {x86, x64 where it matters} x {er}; a case is non-trivial when the validator accepts the tuple and "
                 "query_rw_info answers it (distinct (instruction id, operand shapes, arch, options) counted); plus random tuples for the correspondence",
         "samples": samples, "database_forms": len(forms), "database_forms_with_accepted_tuple": forms_covered,
         "tuples_tried": len(cands), "cases": len(cases), "cases_ok": len(ok), "cases_false_regmem_claim": len(rm_bad),
         "cases_not_covered": len(cover_bad), "unsupported": dict(unsupported), "a64_unsupported": dict(a64_unsupported),
         "a64_access": {"database_forms": len(acc_forms), "forms_with_accepted_tuple": acc_forms_ok, "tuples": len(acc_cands), "distinct_cases": len(acc_cases),
                        "cases_not_covered": len([c for c in acc_cases if c["bad"]]), "not_expressible": dict(acc_unsupported),
                        "query_features": getattr(build_a64_access, "features", None)},
         "a64_register_list_forms": len(a64_forms), "a64_cases": len(a64_cases), "a64_cases_run_not_reported": len([c for c in a64_cases if c["bad"]]), "cases_by_rw_category": dict(cat_hist),
         "regmem_claims_confirmed_by_database": rm_claims, "of_which_validator_refuses_substitution": rm_validator_refuses,
         "correspondence_commands": len(cmds), "correspondence_boundary_commands": n_boundary, "model_vs_impl_disagreements": disagreements,
         "traces_validated_against_impl": len(cmds),
         "tablegen_regenerates_identically": diffs == [], "host_execution": hx, "query_features": fx,
         "what_is_proved_vs_compared": {
             "proved_for_all_inputs (Properties_C12.v, no generated data)": [n for n in universal_names if any(o["name"] == n and o["ok"] for o in ck.obligations)],
             "proved_by_reflection_over_the_generated_lists (Properties_C12_X86.v / _A64.v)": {
                 "x86_cases_covered_and_regmem_and_features": len(ok), "x86_cases_refuted_regmem_feature": len(rm_bad), "x86_cases_refuted_cover": len(cover_bad),
                 "a64_register_list_cases": len(a64_cases), "a64_access_cases": len(acc_cases)},
             "compared_model_vs_implementation (exact, every field)": {"commands": len(cmds), "of_which_boundary": n_boundary, "disagreements": disagreements},
             "judged_by_the_independent_monitors (implementation vs database)": {"x86_tuples": len(cases), "a64_tuples": len(a64_cases) + len(acc_cases)},
             "executed_on_the_host (obligation A everywhere, B on the quick subset / thorough)": hx.get("executed")}},
        assumptions=["the theorems are about the Gallina model of query_rw_info and the generated tables/cases; model = code is checked by the "
                     "differential run of this check on every database tuple and on random tuples",
                     "'what the processor does' is represented by db/isa_x86.json (operand access, bit ranges, zero-extension marks, implicit "
                     "registers, flag effects) plus the hand-written byte-level rules of coq/theories/RwInfo/RegWrite.v and the reviewed read-range "
                     "corrections in tools/c12_gen.py db_read_override()",
                     "tuples the validator refuses are outside the statement (counted in coverage.unsupported)"],
        checker_cmd="coqc (Coq 8.16.1) -Q coq/theories Verif -Q coq/gen VerifGen coq/theories/Properties/Properties_C12.v  [full .vo build of its dependencies]",
        trusted_base=["Coq 8.16.1 kernel incl. vm_compute (no native_compute)", "no axioms: every theorem 'Closed under the global context'",
                      "translators: harness/c12_harness.cpp dump, tools/c12_db.js (+ the repository's db/index.js), tools/c12_gen.py",
                      "extraction (ExtrOcamlBasic only) + OCaml 4.13.1 + ml/c12_driver.ml, ml/zconv.ml", "AsmJit's validator as the filter of which tuples are forms"])

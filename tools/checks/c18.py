"""C18 — Arena-backed containers and strings behave like their abstract data types.

S2 theorems  : coq/theories/Properties/Properties_C18.v (re-checked by coqc on every run)
S3 tie       : (T) growth table of arenavector.cpp and prime/reciprocal/shift table of arenahash.cpp are re-extracted from
               /repo's working tree on every run (harness `tables` mode -> tools/c18_tables.py -> coq/gen/C18Tables.v) and
               the reflection lemmas over them are re-checked when the text changes;
               (C) harness/c18_harness.cpp drives the real Arena / ArenaVector / ArenaHash / String / bit_vector_* under
               AddressSanitizer and the extracted model (coq/extract/Extract_Containers.v + ml/c18_driver.ml) answers the
               same command stream; after every operation the complete observable state is compared (block chain, bump
               pointer, slot lists, dynamic blocks, canonical addresses, sizes, capacities, contents, bucket chains).
S4 search    : monitors inside the harness that do not use the model (interval monitor for arena blocks, std::vector /
               std::string shadows, bucket = hash mod prime, NUL termination, chain links checked before the chain is
               walked) + a python big-integer oracle for the bit-vector primitives + AddressSanitizer/LeakSanitizer.
"""
import json
import os
import random
import re
import sys
from concurrent.futures import ThreadPoolExecutor

import vlib

sys.path.insert(0, os.path.dirname(os.path.dirname(os.path.abspath(__file__))))
import c18_tables  # noqa: E402

MALLOC_LIMIT_MB = 64
# theorems of Properties_C18.v that are about the tables translated from /repo
TABLE_DEPENDENT = {"C18Consts.v": set(), "C18HashTable.v": {"C18_hash_mod_correct", "C18_hash_insert_refines", "C18_hash_insert_arena", "C18_world2_step_ok", "C18_world2_any_interleaving"},
                   "C18VecTable.v": {"C18_vec_expand_byte_size", "C18_vec_ops_refine_list", "C18_vec_step_refines_list", "C18_vec_reserve", "C18_vec_step_frame", "C18_vec_other_vector_survives", "C18_world_step_refines", "C18_world_ops_refine_lists", "C18_world2_step_ok", "C18_world2_any_interleaving"}}
MALLOC_LIMIT = MALLOC_LIMIT_MB << 20
SIZE_MAX = (1 << 64) - 1


# ------------------------------------------------------------------ generators
def hexs(b):
    return b.hex() if b else "-"


def rand_text(rng, n, zero_ok=False):
    lo = 0 if zero_ok else 1
    return bytes(rng.randrange(lo, 256) if rng.random() < 0.2 else rng.randrange(32, 127) for _ in range(n))


def oneshot_size(rng):
    r = rng.random()
    if r < 0.45:
        return 8 * rng.randrange(1, 40)
    if r < 0.75:
        return 8 * rng.randrange(40, 600)
    if r < 0.93:
        return 8 * rng.randrange(600, 20000)
    if r < 0.97:
        return 8 * rng.randrange(1 << 17, 1 << 19)
    if r < 0.985:
        return (MALLOC_LIMIT + (1 << 20)) + 8 * rng.randrange(0, 1000)      # refused by the allocator
    return rng.choice([SIZE_MAX - 7, SIZE_MAX - 47, SIZE_MAX - 55, (1 << 63), (1 << 62) + 8])


def reusable_size(rng):
    r = rng.random()
    if r < 0.5:
        k = rng.randrange(0, 8)
        return max(1, (16 << k) + rng.choice([-17, -1, 0, 1, -8, 7, -15]))
    if r < 0.8:
        return rng.randrange(1, 2100)
    if r < 0.95:
        return rng.randrange(2049, 70000)
    if r < 0.98:
        return MALLOC_LIMIT + rng.randrange(-30, 4000) if rng.random() < 0.5 else MALLOC_LIMIT + (1 << 21)
    return rng.choice([SIZE_MAX, SIZE_MAX - 24, SIZE_MAX - 25, 1 << 63])


def new_session(rng):
    minb = rng.choice([1024, 1024, 1024, 2048, 4096, 1500, 65536])
    st = rng.choice([0, 0, 0, 512, 2048, 200, 64])
    return "N %d %d" % (minb, st)


def gen_arena_script(rng, n):
    cmds = [new_session(rng)]
    for _ in range(n):
        r = rng.random()
        if r < 0.40:
            cmds.append("AO %d" % oneshot_size(rng))
        elif r < 0.72:
            cmds.append("AR %d" % reusable_size(rng))
        elif r < 0.90:
            cmds.append("AF %d %d" % (rng.randrange(1 << 20), rng.randrange(2)))
        elif r < 0.93:
            cmds.append("AZ %d" % (1 if rng.random() < 0.35 else 0))
        elif r < 0.96:
            cmds.append("AD %d %s" % (rng.randrange(2), hexs(rand_text(rng, rng.choice([0, 1, 7, 8, 9, 15, 16, 100, 1000, 3000]), True))))
        elif r < 0.975:
            cmds.append("AG %s" % hexs(rand_text(rng, rng.choice([0, 1, 26, 27, 28, 29, 100]))))
        elif r < 0.99:
            # Arena::sformat: up to 511 characters here (the output of exactly 511 characters is the longest one for which the pinned
            # code stays inside its 512-byte buffer); longer outputs are probed in a process of their own (see run)
            cmds.append("AP %d %d" % (rng.choice([0, 1, 6, 7, 8, 100, 503, 509, 510, 511, rng.randrange(0, 512)]), rng.randrange(1000)))
        else:
            cmds.append("AS")
    cmds.append("AS")
    return cmds


def gen_soft_reset_script(rng):
    """growing blocks, soft reset, then requests that skip some retained blocks (the DESIGN 7.3' shape)"""
    cmds = ["N %d 0" % rng.choice([1024, 2048])]
    for _ in range(rng.randrange(3, 8)):
        cmds.append("AO %d" % (8 * rng.randrange(100, 1500)))
    cmds.append("AZ 0")
    for _ in range(rng.randrange(1, 6)):
        cmds.append("AO %d" % (8 * rng.randrange(100, 3000)))
        if rng.random() < 0.3:
            cmds.append("AR %d" % rng.randrange(1, 2048))
    cmds += ["AS", "AZ %d" % rng.randrange(2), "AO 64", "AS"]
    return cmds


def vec_value(rng, k):
    return rng.randrange(0, 6) if rng.random() < 0.3 else rng.getrandbits(64 if k == 2 else 32)


def vec_count(rng, k, tier):
    isz = (4, 4, 8, 12)[k]
    r = rng.random()
    if r < 0.5:
        return rng.randrange(0, 40)
    if r < 0.8:
        e = rng.randrange(3, 14 if tier == "quick" else 18)
        return max(0, ((1 << e) // isz) + rng.choice([-1, 0, 1, 2]))
    if r < 0.93:
        return rng.randrange(0, 5000)
    if r < 0.96:
        return (MALLOC_LIMIT // isz) + rng.randrange(1, 1 << 16)     # too large for the allocator
    return rng.choice([0xFFFFFFFF, 0xFFFFFFFE, 1 << 32, (1 << 32) + 5, SIZE_MAX, 1 << 40, SIZE_MAX // isz])


def gen_vec_op(rng, tier):
    k = rng.choice([0, 0, 1, 2, 3])
    r = rng.random()
    if r < 0.30:
        return "V %d a %d" % (k, vec_value(rng, k))
    if r < 0.36:
        return "V %d p %d" % (k, vec_value(rng, k))
    if r < 0.46:
        return "V %d i %d %d" % (k, rng.randrange(1 << 30), vec_value(rng, k))
    if r < 0.55:
        return "V %d r %d" % (k, rng.randrange(1 << 30))
    if r < 0.60:
        return "V %d o" % k
    if r < 0.62:
        return "V %d c" % k
    if r < 0.65:
        return "V %d t %d" % (k, rng.randrange(0, 60))
    if r < 0.71:
        return "V %d %s %d" % (k, rng.choice(["f", "g"]), vec_count(rng, k, tier))
    if r < 0.74:
        return "V %d d %d" % (k, rng.choice([0, 1, 2, 7, 100, 1 << 32, SIZE_MAX, SIZE_MAX - 3]))
    if r < 0.82:
        return "V %d %s %d" % (k, rng.choice(["zf", "zg"]), vec_count(rng, k, tier) if rng.random() < 0.8 else rng.randrange(0, 30))
    if r < 0.85:
        return "V %d x" % k
    if r < 0.88:
        return "V %d w" % rng.randrange(2)
    if r < 0.91:
        return "V %d q" % rng.randrange(2)
    if r < 0.96:
        return "V %d s %d" % (k, rng.randrange(0, 6))
    return "V %d l %d" % (k, rng.randrange(0, 6))


def gen_hash_op(rng, state):
    k = rng.randrange(2)
    r = rng.random()
    if r < 0.55:
        mode = rng.random()
        if mode < 0.4:
            hc = rng.getrandbits(32)
        elif mode < 0.7:
            hc = (rng.randrange(0, 40) * rng.choice([29, 59, 131, 269, 541, 1061, 2099])) & 0xFFFFFFFF   # collisions modulo a table prime
        else:
            hc = rng.choice([0, 1, 0xFFFFFFFF, 0xFFFFFFFE, 0x80000000, 28, 29, 58, 59])
        key = rng.randrange(0, 50) if rng.random() < 0.5 else rng.getrandbits(40)
        state.append((hc, key))
        return "H %d i %d %d" % (k, hc, key)
    if r < 0.75:
        return "H %d r %d" % (k, rng.randrange(1 << 20))
    if r < 0.80:
        return "H %d R %d" % (k, rng.randrange(1 << 20))
    if r < 0.97:
        if state and rng.random() < 0.7:
            hc, key = rng.choice(state)
        else:
            hc, key = rng.getrandbits(32), rng.randrange(0, 50)
        return "H %d g %d %d" % (k, hc, key)
    if r < 0.98:
        return "H %d d" % k
    if r < 0.99:
        return "H %d h %d" % (k, rng.randrange(0, 14))      # ArenaHashBase::_rehash to an arbitrary (small) row, also the odd ones
    return "H %d x" % k


def gen_tree_probe_cmds(rng, count):
    """translator-style probes of ArenaTree::_single_rotate / _double_rotate on explicit node graphs (any links, also shared or
    cyclic ones: the primitives only follow the two or three links they name)"""
    cmds = []
    for _ in range(count):
        n = rng.randrange(2, 8); dbl = rng.randrange(2); d = rng.randrange(2)
        links = [[rng.randrange(0, n + 1), rng.randrange(0, n + 1), rng.randrange(2)] for _ in range(n)]
        root = rng.randrange(1, n + 1)
        # the links the primitives dereference must not be null: root.child(!dir); for a double rotation also that node's child(dir)
        other = rng.choice([i for i in range(1, n + 1) if i != root] or [root])
        links[root - 1][1 - d] = other          # child(!dir): index 0 = left = dir 0, so child(!d) is slot (1 - d)
        if dbl:
            third = rng.randrange(1, n + 1)
            links[other - 1][d] = third         # child.child(dir)  (first rotation is around `other` with direction !dir: its child(dir) comes up)
        cmds.append("TP %d %d %d %d %s" % (dbl, d, root, n, " ".join("%d,%d,%d" % tuple(x) for x in links)))
    return cmds


NAME_COLLISIONS = [(b"flvs3t", b"03jio1"), (b"y5u5tj", b"3k77e_"), (b"xvv3d5", b"hx8st5"), (b"zr7vc5", b"io3t2t")]   # equal Support::hash_string


def gen_name_hash_script(rng, n):
    """ArenaHash with NAME keys as CodeHolder uses it for named labels: hash = Support::hash_string(name), lookup by memcmp;
    colliding names, names with zero bytes, the empty name, long names, names that differ in the last byte only"""
    cmds = [new_session(rng)]
    k = rng.randrange(2)
    pool = [b"", b"a", b"b", b"main", b"L0", b"L1", b"loop", b"loop.", b"loop\x00", b"\x00", b"\x00\x00", bytes(range(256))]
    for a, b in NAME_COLLISIONS:
        pool += [a, b]
    for _ in range(20):
        pool.append(rand_text(rng, rng.randrange(1, 40), zero_ok=True))
    for _ in range(n):
        r = rng.random()
        nm = rng.choice(pool) if rng.random() < 0.85 else rand_text(rng, rng.randrange(0, 300), zero_ok=True)
        if r < 0.5:
            cmds.append("H %d ni %s" % (k, hexs(nm)))
        elif r < 0.85:
            cmds.append("H %d ng %s" % (k, hexs(nm)))
        elif r < 0.95:
            cmds.append("H %d r %d" % (k, rng.randrange(1 << 20)))
        elif r < 0.98:
            cmds.append("H %d h %d" % (k, rng.randrange(0, 10)))
        else:
            cmds.append("H %d d" % k)
    return cmds


def gen_mixed_script(rng, n, tier, weights=(0.2, 0.45, 0.35)):
    cmds = [new_session(rng)]
    hstate = []
    wa, wv, wh = weights
    for _ in range(n):
        r = rng.random()
        if r < wa:
            q = rng.random()
            if q < 0.4:
                cmds.append("AO %d" % oneshot_size(rng))
            elif q < 0.7:
                cmds.append("AR %d" % reusable_size(rng))
            elif q < 0.9:
                cmds.append("AF %d %d" % (rng.randrange(1 << 20), rng.randrange(2)))
            elif q < 0.96:
                cmds.append("AZ %d" % (1 if rng.random() < 0.35 else 0))
                hstate = []
            else:
                cmds.append("AS")
        elif r < wa + wv:
            cmds.append(gen_vec_op(rng, tier))
        else:
            cmds.append(gen_hash_op(rng, hstate))
    cmds.append("AS")
    return cmds


def gen_tree_script(rng, n):
    """red-black tree: ascending / descending / zig-zag / random keys, removals in every order, lookups"""
    cmds = ["N %d 0" % rng.choice([1024, 4096])]
    mode = rng.choice(["asc", "desc", "zigzag", "random", "random", "dense"])
    lo, hi, nxt = 1000000, 1000000, 0
    keys = []
    for i in range(n):
        r = rng.random()
        if r < 0.55 or not keys:
            if mode == "asc":
                k = nxt; nxt += 1
            elif mode == "desc":
                k = 1000000 - nxt; nxt += 1
            elif mode == "zigzag":
                nxt += 1; k = 500000 + (nxt if nxt % 2 else -nxt)
            elif mode == "dense":
                k = rng.randrange(0, 64)
            else:
                k = rng.getrandbits(rng.choice([8, 16, 40]))
            keys.append(k)
            cmds.append("T i %d" % k)
        elif r < 0.85:
            cmds.append("T r %d" % (rng.choice([0, 0, 1 << 20]) if rng.random() < 0.3 else rng.randrange(1 << 20)))
        elif r < 0.97:
            cmds.append("T g %d" % (rng.choice(keys) if rng.random() < 0.7 else rng.getrandbits(16)))
        else:
            cmds.append("T d")
        if rng.random() < 0.01:
            mode = rng.choice(["asc", "desc", "zigzag", "random", "dense"])
    for _ in range(min(len(keys), 40)):
        cmds.append("T r %d" % rng.randrange(1 << 20))
    cmds.append("T d")
    return cmds


def gen_bitset_script(rng, n):
    """ArenaBitSet: resize (growing inside a word, across words, with both fill values), append through the capacity, bit ops"""
    cmds = [new_session(rng)]
    for _ in range(n):
        r = rng.random()
        if r < 0.25:
            sz = rng.choice([0, 1, 3, 5, 63, 64, 65, 70, 127, 128, 129, 200, 1000, 5000, 20000]) if rng.random() < 0.6 else rng.randrange(0, 400)
            cmds.append("K z %d %d" % (sz if rng.random() < 0.97 else rng.choice([(1 << 32) - 1, 1 << 32, SIZE_MAX, (MALLOC_LIMIT + 4096) * 8]), rng.randrange(2)))
        elif r < 0.50:
            cmds.append("K a %d" % rng.randrange(2))
        elif r < 0.62:
            cmds.append("K s %d %d" % (rng.randrange(1 << 30), rng.randrange(2)))
        elif r < 0.72:
            cmds.append("K g %d" % rng.randrange(1 << 30))
        elif r < 0.84:
            cmds.append("K %s %d %d" % (rng.choice(["f", "c"]), rng.randrange(1 << 30), rng.randrange(1 << 30)))
        elif r < 0.88:
            cmds.append("K %s" % rng.choice(["ca", "fa"]))
        elif r < 0.94:
            cmds.append("K t %d" % rng.choice([0, 1, 63, 64, 65, rng.randrange(0, 300)]))
        elif r < 0.945:
            cmds.append("K x")
        elif r < 0.975:
            # the other operand: K sw swaps the two bit sets, and_/and_not/or_/copy_from combine with it
            cmds.append(rng.choice(["K sw", "K sw", "K and", "K andn", "K or", "K or", "K cp", "K cp"]))
        elif r < 0.993:
            cmds.append("AR %d" % reusable_size(rng))
        else:
            cmds.append("AZ %d" % rng.randrange(2))
    return cmds


def gen_bitset2_script(rng, rounds):
    """ArenaBitSet and_/and_not/or_/copy_from: two bit sets of different sizes (same word, different words, one empty), built by
    resize/set/fill, swapped and combined; sizes around the word boundaries"""
    cmds = [new_session(rng)]
    def build():
        out = ["K z %d %d" % (rng.choice([0, 1, 3, 63, 64, 65, 70, 127, 128, 129, 200, 1000]) if rng.random() < 0.7 else rng.randrange(0, 400), rng.randrange(2))]
        for _ in range(rng.randrange(0, 8)):
            out.append(rng.choice(["K s %d %d" % (rng.randrange(1 << 30), rng.randrange(2)), "K f %d %d" % (rng.randrange(1 << 30), rng.randrange(1 << 30)),
                                   "K c %d %d" % (rng.randrange(1 << 30), rng.randrange(1 << 30)), "K a %d" % rng.randrange(2)]))
        return out
    for _ in range(rounds):
        cmds += build(); cmds.append("K sw"); cmds += build()
        for _ in range(rng.randrange(1, 5)):
            cmds.append(rng.choice(["K and", "K andn", "K or", "K cp", "K sw"]))
        if rng.random() < 0.15:
            cmds.append(rng.choice(["K x", "AZ 0", "AZ 1", "AR %d" % reusable_size(rng)]))
    return cmds


def gen_list_pool_script(rng, n):
    cmds = [new_session(rng)]
    for _ in range(n):
        r = rng.random()
        if r < 0.25:
            cmds.append("L %s" % rng.choice(["a", "p"]))
        elif r < 0.45:
            cmds.append("L %s %d" % (rng.choice(["ia", "ib"]), rng.choice([0, 1, 2, rng.randrange(1 << 20)])))
        elif r < 0.60:
            cmds.append("L u %d" % rng.choice([0, 1, rng.randrange(1 << 20)]))
        elif r < 0.70:
            cmds.append("L %s" % rng.choice(["pf", "po"]))
        elif r < 0.85:
            cmds.append("P a")
        elif r < 0.95:
            cmds.append("P r %d" % rng.randrange(1 << 20))
        elif r < 0.98:
            cmds.append("AO %d" % oneshot_size(rng))
        else:
            cmds.append("AZ %d" % rng.randrange(2))
    return cmds


def gen_string_script(rng, n):
    cmds = ["N 1024 0"]
    lens = [0, 1, 2, 7, 8, 29, 30, 31, 32, 33, 23, 24, 100, 126, 127, 128, 129, 206, 207, 208, 209, 255, 256, 511, 512, 513, 1022, 1023, 1024, 1025, 2000, 5000]

    def ln():
        return rng.choice(lens) if rng.random() < 0.6 else rng.randrange(0, 300)
    for _ in range(n):
        k = rng.randrange(3)
        r = rng.random()
        if r < 0.12:
            cmds.append("S %d as %s" % (k, hexs(rand_text(rng, ln(), True))))
        elif r < 0.27:
            cmds.append("S %d os %d %s" % (k, rng.randrange(2), hexs(rand_text(rng, ln(), True))))
        elif r < 0.35:
            cmds.append("S %d oc %d %d" % (k, rng.randrange(2), rng.randrange(256)))
        elif r < 0.43:
            cmds.append("S %d on %d %d %d" % (k, rng.randrange(2), rng.randrange(1, 256), ln() if rng.random() < 0.95 else MALLOC_LIMIT + 4096))
        elif r < 0.48:
            cmds.append("S %d pe %d %d" % (k, ln(), rng.randrange(32, 127)))
        elif r < 0.63:
            v = rng.choice([0, 1, 7, 8, 9, 10, 15, 16, 255, (1 << 63) - 1, 1 << 63, (1 << 63) + 1, SIZE_MAX, SIZE_MAX - 1]) if rng.random() < 0.4 else rng.getrandbits(rng.randrange(1, 65))
            base = rng.choice([0, 2, 8, 10, 16, 16, 10, 3, 1, 36, 7])
            width = rng.choice([0, 0, 1, 5, 20, 64, 65, 255, 256, 257, 1000])
            flags = rng.choice([0, 1, 2, 4, 5, 6, 7, 0x80000000, 0x80000001, 0x80000002, 0x80000004, 0x80000007])
            cmds.append("S %d nu %d %d %d %d %d" % (k, rng.randrange(2), v, base, width, flags))
        elif r < 0.71:
            cmds.append("S %d hx %d %s %d" % (k, rng.randrange(2), hexs(rand_text(rng, rng.choice([0, 1, 2, 10, 15, 16, 100]), True)), rng.choice([0, 0, 32, 58])))
        elif r < 0.86:
            cmds.append("S %d fm %d %s" % (k, rng.randrange(2), hexs(rand_text(rng, ln()))))
        elif r < 0.91:
            cmds.append("S %d tr %d" % (k, ln()))
        elif r < 0.94:
            cmds.append("S %d cl" % k)
        elif r < 0.96:
            cmds.append("S %d rs" % k)
        else:
            cmds.append("S %d eq %s" % (k, hexs(rand_text(rng, rng.randrange(0, 8), True))))
    return cmds


def gen_string_move_script(rng, n):
    """String::swap, move assignment and move construction between the two plain Strings (0 and 3), each in the small (<= 30),
    large (malloc) state or empty, interleaved with ordinary edits"""
    cmds = ["N 1024 0"]
    lens = [0, 1, 29, 30, 31, 100, 127, 128, 129, 600]
    for _ in range(n):
        k = rng.choice([0, 3])
        r = rng.random()
        if r < 0.2:
            cmds.append("S %d as %s" % (k, hexs(rand_text(rng, rng.choice(lens), True))))
        elif r < 0.3:
            cmds.append("S %d os 1 %s" % (k, hexs(rand_text(rng, rng.choice(lens), True))))
        elif r < 0.5:
            cmds.append("S %d sw" % k)
        elif r < 0.7:
            cmds.append("S %d mv" % k)
        elif r < 0.85:
            cmds.append("S %d mc" % k)
        elif r < 0.9:
            cmds.append("S %d tr %d" % (k, rng.choice(lens)))
        elif r < 0.95:
            cmds.append("S %d %s" % (k, rng.choice(["cl", "rs"])))
        else:
            cmds.append("S %d %s" % (rng.choice([1, 2]), rng.choice(["sw", "mv", "mc"])))     # StringTmp: refused by the harness (skip)
    return cmds


def gen_string_fit_script(rng):
    """in-place formatting (remaining capacity >= 128) with outputs around the remaining capacity"""
    cmds = ["N 1024 0"]
    pre = rng.choice([0, 0, 1, 10, 50, 79])
    if pre:
        cmds.append("S 1 as %s" % hexs(rand_text(rng, pre)))
    rem = 207 - pre
    for d in [rng.choice([-2, -1, 0, 0, 1, 2])]:
        cmds.append("S 1 fm %d %s" % (1 if pre else rng.randrange(2), hexs(rand_text(rng, rem + d))))
    cmds.append("S 1 oc 1 65")
    # a large string: grow, then fill exactly
    cmds.append("S 0 on 0 66 %d" % rng.choice([300, 600]))
    cmds.append("S 0 tr %d" % rng.choice([0, 10, 100]))
    return cmds


def bv_words(rng, w, n):
    out = []
    for _ in range(n):
        r = rng.random()
        out.append(0 if r < 0.2 else (1 << w) - 1 if r < 0.4 else rng.getrandbits(w) if r < 0.8 else (rng.getrandbits(w) & rng.getrandbits(w) & rng.getrandbits(w)))
    return out


def gen_bitvec_cmds(rng, count):
    cmds = []
    for _ in range(count):
        w = rng.choice([32, 64])
        n = rng.randrange(1, 6)
        ws = bv_words(rng, w, n)
        bits = w * n
        op = rng.choice(["g", "s", "o", "x", "f", "f", "c", "c", "io", "io"])
        edge = [0, 1, w - 1, w, w + 1, 2 * w - 1, 2 * w, bits - 1, bits]
        if op in ("g", "s", "o", "x"):
            i = min(bits - 1, rng.choice(edge) if rng.random() < 0.5 else rng.randrange(bits))
            cmds.append("B %d %s %s %d%s" % (w, ",".join(map(str, ws)), op, i, "" if op == "g" else " %d" % rng.randrange(2)))
        elif op in ("f", "c"):
            i = min(bits, rng.choice(edge) if rng.random() < 0.5 else rng.randrange(bits + 1))
            c = rng.choice([0, 1, w - 1, w, w + 1, 2 * w, bits - i]) if rng.random() < 0.5 else rng.randrange(bits - i + 1)
            c = min(c, bits - i)
            cmds.append("B %d %s %s %d %d" % (w, ",".join(map(str, ws)), op, i, c))
        else:
            v = rng.randrange(2)
            big = sum(x << (w * j) for j, x in enumerate(ws))
            cand = [j for j in range(bits) if ((big >> j) & 1) == v]
            if not cand:
                continue
            start = rng.randrange(0, cand[-1] + 1)
            cmds.append("B %d %s io %d %d" % (w, ",".join(map(str, ws)), start, v))
    return cmds


def gen_range_cmds(rng, count):
    """BitVectorRangeIterator (jitallocator.cpp): ranges of B-bits in [start, end)"""
    cmds = []
    for _ in range(count):
        w = rng.choice([32, 64]); n = rng.randrange(1, 5); ws = bv_words(rng, w, n); bits = w * n
        r = rng.random()
        if r < 0.5:
            start, end = 0, bits
        elif r < 0.8:
            start = rng.choice([0, 1, w - 1, w, w + 1]) % (bits + 1); end = w * rng.randrange((start + w - 1) // w, n + 1)
        else:
            start = rng.randrange(bits + 1); end = rng.randrange(start, bits + 1)
        hint = rng.choice([1, 2, w - 1, w, w + 1, 3 * w, SIZE_MAX])
        cmds.append("R %d %s %d %d %d %d" % (w, ",".join(map(str, ws)), start, end, hint, rng.randrange(2)))
    return cmds


def judge_range(cmd, ans):
    """independent oracle: maximal runs of B-bits inside [start, end) (judged when no B-bit lies between end and the end of its word)"""
    t = cmd.split(); w = int(t[1]); ws = [int(x) for x in t[2].split(",")]
    start, end, hint, b = int(t[3]), int(t[4]), int(t[5]), int(t[6])
    big = sum(x << (w * j) for j, x in enumerate(ws))
    bit = lambda j: ((big >> j) & 1) == b
    wend = min(((end + w - 1) // w) * w, w * len(ws))
    if any(bit(j) for j in range(end, wend)):
        return None
    m = re.match(r"R r=(\S+)$", ans)
    if not m:
        return ("C18/bitvec/range-protocol", "unparsable answer %r" % ans)
    got = [] if m.group(1) == "-" else [tuple(int(x) for x in p.split("-")) for p in m.group(1).split(",")]
    covered = set()
    prev = start
    for (s, e) in got:
        if not (prev <= s < e <= end) or not all(bit(j) for j in range(s, e)):
            return ("C18/bitvec/range-iterator-wrong-range", "%s -> %s: range (%d,%d) is not a run of %d-bits inside [%d,%d)" % (cmd, got, s, e, b, start, end))
        if any(bit(j) for j in range(prev, s)):
            return ("C18/bitvec/range-iterator-skipped-bits", "%s -> %s skips bits before %d" % (cmd, got, s))
        if not (e == end or not bit(e) or (e % w == 0 and e - s >= hint)):
            return ("C18/bitvec/range-iterator-short-range", "%s -> %s: range (%d,%d) ends early" % (cmd, got, s, e))
        prev = e
    if any(bit(j) for j in range(prev, end)):
        return ("C18/bitvec/range-iterator-skipped-bits", "%s -> %s misses bits after %d" % (cmd, got, prev))
    return None


def judge_name_hash(cmd, ans):
    """independent oracle for Support::hash_string on the names of the H .. ni/ng commands (big-integer Horner evaluation)"""
    t = cmd.split()
    m = re.search(r" hc=(\d+) ", " " + ans + " ")
    if not m:
        return None
    data = bytes.fromhex(t[3]) if t[3] != "-" else b""
    v = 0
    for c in data:
        v = v * 65599 + c
    v &= 0xFFFFFFFF
    if int(m.group(1)) != v:
        return ("C18/hash/name-hash-differs-from-oracle", "Support::hash_string(%r) = %s, the polynomial sum c_i * 65599^(n-1-i) mod 2^32 is %d" % (data[:40], m.group(1), v))
    return None


def judge_bitvec(cmd, ans):
    """independent big-integer oracle for one bit-vector command; None = fine, else (key, text)"""
    t = cmd.split()
    w = int(t[1]); ws = [int(x) for x in t[2].split(",")]; op = t[3]
    big = sum(x << (w * j) for j, x in enumerate(ws)); bits = w * len(ws)
    m = re.match(r"B (?:(bit|idx)=(\S+) )?w=(\S+)$", ans)
    if not m:
        return ("C18/bitvec/protocol", "unparsable answer %r to %r" % (ans, cmd))
    got = [int(x) for x in m.group(3).split(",")]
    gbig = sum(x << (w * j) for j, x in enumerate(got))
    exp, res = big, None
    if op == "g":
        res = (big >> int(t[4])) & 1
    elif op == "s":
        i, v = int(t[4]), int(t[5]); exp = (big & ~(1 << i)) | (v << i)
    elif op == "o":
        i, v = int(t[4]), int(t[5]); exp = big | (v << i)
    elif op == "x":
        i, v = int(t[4]), int(t[5]); exp = big ^ (v << i)
    elif op in ("f", "c"):
        i, c = int(t[4]), int(t[5]); mask = ((1 << c) - 1) << i
        exp = (big | mask) if op == "f" else (big & ~mask)
    elif op == "io":
        st, v = int(t[4]), int(t[5])
        res = next(j for j in range(st, bits) if ((big >> j) & 1) == v)
    if len(got) != len(ws) or gbig != exp:
        return ("C18/bitvec/%s-wrong-words" % op, "%s -> words %s, expected %s" % (cmd, got, [(exp >> (w * j)) & ((1 << w) - 1) for j in range(len(ws))]))
    if res is not None and (m.group(2) is None or int(m.group(2)) != res):
        return ("C18/bitvec/%s-wrong-result" % op, "%s -> %s, expected %d" % (cmd, m.group(2), res))
    return None


def corpus_scripts():
    path = os.path.join(vlib.VERIF, "corpus", "C18.txt")
    scripts, cur = [], []
    if os.path.exists(path):
        for line in open(path):
            line = line.strip()
            if not line or line.startswith("#"):
                continue
            if line.startswith("N ") and cur:
                scripts.append(cur); cur = []
            cur.append(line)
        if cur:
            scripts.append(cur)
    return scripts


def gen_scripts(rng, tier):
    q = tier == "quick"
    scripts = corpus_scripts()
    for _ in range(30 if q else 300):
        scripts.append(gen_arena_script(rng, rng.choice([40, 120, 300])))
    for _ in range(40 if q else 400):
        scripts.append(gen_soft_reset_script(rng))
    for _ in range(30 if q else 300):
        scripts.append(gen_mixed_script(rng, rng.choice([100, 300]), tier))
    for _ in range(8 if q else 60):
        scripts.append(gen_mixed_script(rng, 400 if q else 1500, tier, weights=(0.05, 0.9, 0.05)))      # vector heavy
    for _ in range(8 if q else 60):
        scripts.append(gen_mixed_script(rng, 600 if q else 4000, tier, weights=(0.05, 0.05, 0.9)))      # hash heavy (several rehashes)
    for _ in range(12 if q else 120):
        scripts.append(gen_name_hash_script(rng, rng.choice([60, 200])))
    for _ in range(25 if q else 300):
        scripts.append(gen_tree_script(rng, rng.choice([60, 300, 800])))
    for _ in range(20 if q else 200):
        scripts.append(gen_list_pool_script(rng, rng.choice([60, 250])))
    for _ in range(25 if q else 250):
        scripts.append(gen_bitset_script(rng, rng.choice([40, 150, 400])))
    for _ in range(12 if q else 120):
        scripts.append(gen_bitset2_script(rng, rng.choice([5, 15])))
    for _ in range(25 if q else 300):
        scripts.append(gen_string_script(rng, 120))
    for _ in range(30 if q else 200):
        scripts.append(gen_string_fit_script(rng))
    for _ in range(10 if q else 100):
        scripts.append(gen_string_move_script(rng, 80))
    bv = gen_bitvec_cmds(rng, 6000 if q else 200000) + gen_range_cmds(rng, 3000 if q else 100000) + gen_tree_probe_cmds(rng, 2000 if q else 50000)
    for i in range(0, len(bv), 500):
        scripts.append(bv[i:i + 500])
    return scripts


# ------------------------------------------------------------------ running
DEFECT_RE = re.compile(r" !DEFECT:(\S+)")


def run_exe(exe, args, scripts, env=None, timeout=3000, big_stack=False):
    inp = "\n".join("\n".join(s) for s in scripts) + "\n"
    cmd = [exe] + args
    if big_stack:   # the extracted list functions are not tail recursive: vectors of 10^5..10^6 cells need a deep stack
        cmd = "ulimit -s unlimited 2>/dev/null || ulimit -s 1000000 2>/dev/null; exec " + " ".join(cmd)
    rc, out, err = vlib.sh(cmd, inp=inp, timeout=timeout, env=env)
    lines = out.split("\n")
    lines.pop()     # "" after the final newline, or a partial line of a run that was stopped
    return rc, lines, err


def shard(scripts, n):
    """greedy balance by command count"""
    bins = [[] for _ in range(n)]
    load = [0] * n
    for idx in sorted(range(len(scripts)), key=lambda i: -len(scripts[i])):
        j = load.index(min(load))
        bins[j].append(idx); load[j] += len(scripts[idx])
    return [sorted(b) for b in bins if b]


def _asan_env():
    env = dict(os.environ)
    env["ASAN_OPTIONS"] = "allocator_may_return_null=1:max_allocation_size_mb=%d:detect_leaks=1:abort_on_error=0:print_summary=1" % MALLOC_LIMIT_MB
    env["UBSAN_OPTIONS"] = "print_stacktrace=1"
    return env


def violation_predicate(key, impl, model):
    """predicate script -> bool: does this script still show the violation `key`?  (monitor key: the harness prints the key;
    sanitizer: the implementation stops; correspondence: an answer of the implementation differs from the model's)"""
    env = _asan_env()

    def pred(script):
        rci, li, ei = run_exe(impl, [], [script], env=env, timeout=120)
        if key.startswith("C18/sanitizer/"):
            return rci != 0 and ("ERROR: " in ei or "runtime error" in ei)
        if key.startswith("C18/correspondence/"):
            if model is None or rci != 0 or len(li) != len(script):
                return False
            rcm, lm, em = run_exe(model, [str(MALLOC_LIMIT)], [script], big_stack=True, timeout=120)
            if rcm != 0 or len(lm) != len(script):
                return False
            return any(DEFECT_RE.sub("", x) != y and not DEFECT_RE.findall(x) for x, y in zip(li, lm))
        return any(key in DEFECT_RE.findall(x) for x in li)
    return pred


def ddmin(script, pred, budget=150):
    """delta debugging on the commands of a script (a leading session command `N ...` is always kept): returns a sub-sequence
    that still satisfies pred, 1-minimal when the budget of runs suffices"""
    head = script[:1] if script and script[0].startswith("N ") else []
    body = script[len(head):]
    runs = [0]

    def test(b):
        runs[0] += 1
        try:
            return pred(head + b)
        except Exception:
            return False
    if not body or not test(body):
        return script, runs[0], False
    n = 2
    while len(body) >= 2 and runs[0] < budget:
        chunk = max(1, len(body) // n)
        subsets = [body[i:i + chunk] for i in range(0, len(body), chunk)]
        reduced = False
        for i in range(len(subsets)):
            if runs[0] >= budget:
                break
            comp = [c for j, sub in enumerate(subsets) if j != i for c in sub]
            if comp and test(comp):
                body = comp; n = max(n - 1, 2); reduced = True
                break
        if not reduced:
            if n >= len(body):
                break
            n = min(len(body), n * 2)
    return head + body, runs[0], True


def minimise_violations(ck, impl, model, limit=6):
    """sharper failing inputs: every violation that carries a script gets the shortest sub-script that still shows it"""
    done = 0
    for v in ck.violations:
        rp = v.get("replay") or {}
        sc = rp.get("script")
        if done >= limit or not isinstance(sc, list) or len(sc) < 3 or rp.get("variant") not in ("asan",) or "minimised" in rp:
            continue
        key = v["key"]
        if not (key.startswith("C18/sanitizer/") or key.startswith("C18/correspondence/") or key.startswith("C18/")):
            continue
        if key.startswith(("C18/proof/", "C18/tables/", "C18/constants", "C18/model-driver")):
            continue
        try:
            small, runs, ok = ddmin(list(sc), violation_predicate(key, impl, model))
        except Exception as e:   # the search must never turn a finding into a crash of the check
            ck.log("minimisation of %s failed: %r" % (key, e)); continue
        done += 1
        if ok and len(small) < len(sc):
            rp["script_as_generated"] = sc[-400:] if len(sc) > 400 else sc
            rp["script"] = small
            rp["minimised"] = {"from_commands": len(sc), "to_commands": len(small), "runs": runs}
            v["what"] += " [minimised by delta debugging from %d to %d commands: %s]" % (len(sc), len(small), "; ".join(c[:90] for c in small[:12]))
            ck.log("minimised %s: %d -> %d commands (%d runs)" % (key, len(sc), len(small), runs))



def hash_row_counterexample(rows, rng):
    """a 32-bit hash code h and a row (prime, rcp, shift) of the re-extracted prime table for which the code's
    _calc_mod(h) = h - uint32((uint64(h) * rcp) >> shift) * prime differs from h mod prime (None if the search finds none)"""
    M32, M64 = (1 << 32) - 1, (1 << 64) - 1
    for idx, row in enumerate(rows):
        prime, rcp, shift = row[0], row[1], row[2]
        if prime <= 0 or not (0 <= shift < 64):
            return idx, 0, None, None
        qmax = M32 // prime
        cand = [M32, M32 - 1, 0, 1]
        for q in (0, 1, 2, 3, qmax // 2, qmax - 2, qmax - 1, qmax):
            for r in (0, 1, 2, prime // 2, prime - 2, prime - 1):
                h = q * prime + r
                if 0 <= h <= M32:
                    cand.append(h)
        cand += [rng.randrange(0, 1 << 32) for _ in range(3000)]
        for h in cand:
            x = (((h * rcp) & M64) >> shift) & M32
            m = (h - x * prime) & M32
            if m != h % prime:
                return idx, h, m, h % prime
    return None


def continuation(rng, kind, n):
    """commands of the same container kind that can follow any script prefix (used to push a model/implementation disagreement on
    until one of the harness' monitors or the sanitizer shows a failing input of the property itself)"""
    if kind in ("arena",):
        return gen_arena_script(rng, n)[1:]
    if kind in ("vector", "hash"):
        w = (0.1, 0.8, 0.1) if kind == "vector" else (0.1, 0.1, 0.8)
        return gen_mixed_script(rng, n, "quick", weights=w)[1:]
    if kind == "tree":
        return gen_tree_script(rng, n)[1:]
    if kind in ("list", "pool"):
        return gen_list_pool_script(rng, n)[1:]
    if kind == "bitset":
        return gen_bitset_script(rng, n)[1:]
    if kind == "string":
        return gen_string_script(rng, n)[1:]
    return []


def search_monitor_after_disagreement(ck, impl, rng, tries=24):
    """fewer no-failing-input-found cases: for every model/implementation disagreement on which no monitor fired, run the
    (minimised) script followed by random continuations of the same kind on the implementation alone and report the first monitor
    or sanitizer stop as a violation WITH a failing input (itself minimised afterwards)"""
    env = _asan_env()
    found = []
    for v in list(ck.violations):
        key = v["key"]
        if not key.startswith("C18/correspondence/") or not v.get("no_input"):
            continue
        kind = key.split("/")[-1]
        sc = (v.get("replay") or {}).get("script")
        if not isinstance(sc, list) or not sc or not sc[0].startswith("N "):
            continue
        for t in range(tries):
            try:
                tail = continuation(rng, kind, 40 if t < 12 else 200)
            except Exception:
                tail = []
            if not tail:
                break
            script = list(sc) + tail
            rci, li, ei = run_exe(impl, [], [script], env=env, timeout=300)
            keys = [(j, k) for j, x in enumerate(li) for k in DEFECT_RE.findall(x)]
            if keys:
                j, k = keys[0]
                if ck.violation(k, "monitor %s fired at %r, %d commands after the model/implementation disagreement %s (search by random continuation, try %d)" %
                                (k, script[j][:120], j + 1 - len(sc), key, t), {"script": script[:j + 1], "variant": "asan", "after": key}):
                    found.append(k)
                break
            if rci != 0 and ("ERROR: " in ei or "runtime error" in ei):
                m = re.search(r"ERROR: (AddressSanitizer|LeakSanitizer): ([^\n]*)", ei) or re.search(r"runtime error: ([^\n]*)", ei)
                if ck.violation("C18/sanitizer/" + kind, "the implementation stopped %d commands after the model/implementation disagreement %s: %s" %
                                (len(li) + 1 - len(sc), key, m.group(0) if m else ei[-300:]), {"script": script[:len(li) + 1], "stderr": ei[-2000:], "variant": "asan", "after": key}):
                    found.append("C18/sanitizer/" + kind)
                break
    return found


def run_pair(ck, impl, model, scripts, shards=16):
    env = dict(os.environ)
    env["ASAN_OPTIONS"] = "allocator_may_return_null=1:max_allocation_size_mb=%d:detect_leaks=1:abort_on_error=0:print_summary=1" % MALLOC_LIMIT_MB
    env["UBSAN_OPTIONS"] = "print_stacktrace=1"
    bins = shard(scripts, shards)

    def one(args):
        which, b = args
        ss = [scripts[i] for i in b]
        if which == "impl":
            return run_exe(impl, [], ss, env=env)
        return run_exe(model, [str(MALLOC_LIMIT)], ss, big_stack=True)
    with ThreadPoolExecutor(max_workers=shards) as ex:
        ri = list(ex.map(one, [("impl", b) for b in bins]))
        rm = list(ex.map(one, [("model", b) for b in bins]))
    return bins, ri, rm


def coverage_count(cov, prev, script, cmd, ans):
    """explicit coverage counters from one implementation answer (prev: per-script memory)"""
    t = cmd.split(); c = t[0]
    f = dict(m.split("=", 1) for m in ans.split() if "=" in m)
    if f.get("e") == "1" or ans.startswith(("AO null", "AR null")):
        k = kind_of(cmd)
        cov["refused_operations_by_kind"][k] = cov["refused_operations_by_kind"].get(k, 0) + 1
    if c in ("N", "AO", "AR", "AF", "AZ", "AD", "AG") and "chain" in f:
        chain = [x for x in f["chain"].split(",") if x]
        cov["arena_chain_max"] = max(cov["arena_chain_max"], len(chain))
        cov["arena_dynamic_blocks_max"] = max(cov["arena_dynamic_blocks_max"], len([x for x in f.get("dyn", "").split(",") if x]))
        key = ("chain", script)
        if c == "AZ":
            cov["arena_resets"] += 1
        elif c != "N" and key in prev and len(chain) < len(prev[key]):
            cov["arena_soft_reset_block_skips"] += 1
        prev[key] = chain
    elif c == "V" and "c" in f:
        cov["vector_capacities_seen"].add(int(f["c"]))
        key = ("v", script, t[1])
        if key in prev and prev[key] != f.get("d") and f.get("d") != "null":
            cov["vector_reallocations"] += 1
        prev[key] = f.get("d")
    elif c == "H" and "count" in f:
        cov["hash_bucket_counts_seen"].add(int(f["count"]))
        key = ("h", script, t[1])
        if key in prev and prev[key] != f["count"] and f["count"] != "1":
            cov["hash_rehashes"] += 1
        prev[key] = f["count"]
    elif c == "S" and "k" in f:
        cov["string_kinds_seen"].add(int(f["k"])); cov["string_max_size"] = max(cov["string_max_size"], int(f["n"]))
    elif c == "T" and "n" in f:
        cov["tree_max_nodes"] = max(cov["tree_max_nodes"], int(f["n"]))
        if f.get("ok") == "1":
            cov["tree_states_accepted_by_proven_checker"] += 1
    elif c == "K" and "n" in f:
        n = int(f["n"]); cov["bitset_max_size"] = max(cov["bitset_max_size"], n)
        key = ("k", script)
        if t[1] == "z" and key in prev and prev[key] < n and prev[key] % 64 and prev[key] // 64 == n // 64:
            cov["bitset_grow_inside_word"] += 1
        prev[key] = n


# ------------------------------------------------------------------ a small static library: only what the C18 harness links
# (the harness #includes arenavector.cpp, arenahash.cpp and jitallocator.cpp itself); building all of asmjit takes minutes on a
# loaded machine and is evicted from vlib's cache by every scratch-tree run. Keyed by the hash of every header/source of /repo.
MINILIB_SOURCES = ["support/arena.cpp", "support/arenabitset.cpp", "support/arenalist.cpp", "support/arenatree.cpp", "support/support.cpp",
                   "core/string.cpp", "core/globals.cpp", "core/virtmem.cpp", "core/osutils.cpp", "core/cpuinfo.cpp"]


def build_minilib(ck, variant):
    import subprocess, shutil
    cxx, cflags, lflags = vlib.VARIANTS[variant]
    flags = vlib.CXX_BASE + cflags
    key = vlib.file_hash(vlib.repo_all_files(), extra="c18mini " + " ".join([cxx] + flags + MINILIB_SOURCES))[:16]
    root = os.path.join(vlib.BUILD, "asmjit")
    os.makedirs(root, exist_ok=True)
    out = os.path.join(root, "c18mini-%s-%s" % (variant, key))
    lib = os.path.join(out, "libasmjit_c18.a")
    with vlib.Lock(os.path.join(root, "c18mini-" + variant + ".lock")):
        if not os.path.exists(lib):
            ck.log("building the C18 subset of asmjit (%s, %d files) from %s" % (variant, len(MINILIB_SOURCES), vlib.REPO))
            tmp = out + ".tmp"
            shutil.rmtree(tmp, ignore_errors=True)
            os.makedirs(tmp)
            procs = []
            for rel in MINILIB_SOURCES:
                src = os.path.join(vlib.REPO, "asmjit", rel)
                obj = os.path.join(tmp, rel.replace("/", "_")[:-4] + ".o")
                procs.append((src, obj, subprocess.Popen([cxx] + flags + ["-c", src, "-o", obj], stdout=subprocess.PIPE, stderr=subprocess.STDOUT)))
            failed = []
            for src, obj, pr in procs:
                outp = pr.communicate()[0]
                if pr.returncode != 0:
                    failed.append((src, outp.decode(errors="replace")[-3000:]))
            if failed:
                raise RuntimeError("asmjit (C18 subset) build failed: %s" % failed[:2])
            vlib.sh(["ar", "rcs", os.path.join(tmp, "libasmjit_c18.a")] + [pr[1] for pr in procs], check=True)
            os.rename(tmp, out)
            import glob as _g
            olds = sorted(_g.glob(os.path.join(root, "c18mini-" + variant + "-*")), key=os.path.getmtime)
            for d in olds[:-3]:
                if d != out and not d.endswith(".tmp"):
                    shutil.rmtree(d, ignore_errors=True)
    return {"lib": lib, "cxx": cxx, "cflags": flags, "lflags": lflags, "key": key, "variant": variant}


def kind_of(cmd):
    c = cmd.split()[0]
    return {"N": "arena", "AO": "arena", "AR": "arena", "AF": "arena", "AZ": "arena", "AS": "arena", "AD": "arena", "AG": "arena", "AP": "arena", "V": "vector", "H": "hash",
            "S": "string", "B": "bitvec", "R": "bitvec", "T": "tree", "TP": "tree", "L": "list", "P": "pool", "K": "bitset", "X1": "vector", "X2": "vector"}.get(c, "other")


def run(ck):
    rng = random.Random(ck.seed)
    # ---- build + translator tie
    lib_plain = build_minilib(ck, "plain")
    plain = ck.build_harness("c18", ["c18_harness.cpp"], variant="plain", lib=lib_plain)
    rc, ttext, terr = vlib.sh([plain, "tables"], timeout=120)
    if "\nconsts " not in ttext:
        raise RuntimeError("table dumper failed: rc=%s %s" % (rc, terr[-2000:]))
    dumper_crash = None
    if rc != 0 or "tables_end" not in ttext:
        # the static tables are complete; the dumper died while growing a fresh ArenaHash through the prime rows
        done = len([l for l in ttext.splitlines() if l.startswith("grow_real")])
        dumper_crash = "rc=%s after %d of 24 rehash steps: %s" % (rc, done, terr[-400:])
    ttext = "\n".join(l for l in ttext.splitlines() if l != "tables_end") + "\n"
    tab = c18_tables.parse(ttext)
    if dumper_crash:
        ck.violation("C18/hash/rehash-of-empty-table-crashes", "growing an empty ArenaHash through the prime rows (h._rehash(arena, i), i = 0..23, arena block size 4096) "
                     "stopped the process: " + dumper_crash, {"command": "c18_harness tables", "variant": "plain", "broken": "ArenaHashBase::_rehash"}, no_input=True)
    gen_dir = None
    rendered = c18_tables.render(tab)
    # only the two files of this property are recompiled when the regenerated text differs from the committed snapshot
    regen = ck.coq_regen(rendered, order=[n for n in ("C18HashTable.v", "C18VecTable.v", "C18Consts.v") if n in rendered])
    table_failures = []
    if regen is not None:
        gen_dir, failed, log = regen
        ck.log("C18Tables.v differs from the committed snapshot: recompiled, failed: %s" % failed)
        table_failures = [(f, log) for f in failed]
    for bad in c18_tables.cross_check(tab):
        ck.violation("C18/hash/grow-limit-expression", "ArenaHashBase::_rehash computed a grow limit different from uint32(prime*0.9): %s" % (bad,),
                     {"row": list(bad), "broken": "translator cross-check of the prime table"}, no_input=True)
    if tab["consts"] != "slot_count=8 min_slot=16 max_slot=2048 block_header=16 alloc_overhead=32 sso=30 hash_mul=65599 hash_add=7 astr32_embedded=27 bitword=64 tree_red_mask=1 tree_node=16 list_node=16 hash_node=16":
        ck.violation("C18/constants", "layout / algorithm constants of Arena, String, Support::hash_char, ArenaString, ArenaBitSet, ArenaTree changed: %s (the models hard-code the pinned values)" % tab["consts"],
                     {"consts": tab["consts"], "broken": "constants of ArenaModel.v / StrModel.v / NameHashModel.v / BitSetModel.v / TreeModel.v"}, no_input=True)
    if table_failures:
        # the regenerated tables do not check: judge the table-independent theorems against the committed snapshot and
        # count the table-dependent ones as broken
        obl = ck.coq_properties()
        for o in obl:
            if any(o["name"] in TABLE_DEPENDENT.get(f, ()) for f, _ in table_failures):
                o["ok"] = False
        gen_dir = None
    else:
        obl = ck.coq_properties(gen_dir=gen_dir)
    ck.log("theorems: %d, failed: %d" % (len(obl), len([o for o in obl if not o["ok"]])))
    # (when the regenerated tables do not check, the model runs with the committed snapshot of the tables: the implementation
    # then disagrees with it wherever the changed table matters, and the monitors look for a concrete failing input)
    # every model the extraction imports must be compiled against the current sources (some are not imported by Properties_C18.v)
    import glob as _glob
    models = sorted("theories/Containers/" + os.path.basename(f) + "o" for f in _glob.glob(os.path.join(vlib.COQ, "theories", "Containers", "*Model.v")))
    bad = ck.coq_make(models + ["theories/Containers/TreeGeneral.vo", "theories/Containers/TreeInsertAbs.vo", "theories/Containers/TreeRemoveAbs.vo"])
    if bad:
        raise RuntimeError("model files do not compile: %s %s" % (bad, getattr(ck, "coq_log", "")[-1500:]))
    model = ck.ocaml_model("Extract_Containers.v", ["zconv.ml", "c18_driver.ml"], name="c18", gen_dir=gen_dir)
    impl = ck.build_harness("c18", ["c18_harness.cpp"], variant="asan", lib=build_minilib(ck, "asan"))

    if ck.replay:
        rp = json.load(open(ck.replay))["replay"]
        script = rp.get("script") or [rp.get("command")]
        exe = plain if rp.get("variant") == "plain" else impl
        env = dict(os.environ); env["ASAN_OPTIONS"] = "allocator_may_return_null=1:max_allocation_size_mb=%d" % MALLOC_LIMIT_MB
        _, li, ei = run_exe(exe, [], [script], env=env)
        _, lm, _ = run_exe(model, [str(MALLOC_LIMIT) if exe == impl else str(1 << 80)], [script], big_stack=True) if model else (0, [], "")
        for i, c in enumerate(script):
            print("input:", c); print(" impl :", li[i] if i < len(li) else "<none>"); print(" model:", lm[i] if i < len(lm) else "<none>")
        print(ei[-2000:])
        return 0

    # ---- correspondence + monitors
    scripts = gen_scripts(rng, ck.tier)
    ncmds = sum(len(s) for s in scripts)
    ck.log("scripts: %d, commands: %d" % (len(scripts), ncmds))
    kinds, disagreements, judged, defect_hits = {}, 0, 0, {}
    # explicit coverage counters, measured on the implementation's answers
    cov = {"refused_operations_by_kind": {}, "vector_capacities_seen": set(), "vector_reallocations": 0, "hash_bucket_counts_seen": set(),
           "hash_rehashes": 0, "arena_soft_reset_block_skips": 0, "arena_resets": 0, "arena_dynamic_blocks_max": 0, "arena_chain_max": 0,
           "string_kinds_seen": set(), "string_max_size": 0, "tree_max_nodes": 0, "tree_states_accepted_by_proven_checker": 0,
           "bitset_max_size": 0, "bitset_grow_inside_word": 0}
    prev_state = {}
    nontrivial = set()
    samples = []
    if model is not None:
        bins, ri, rm = run_pair(ck, impl, model, scripts)
        for b, (rci, li, ei), (rcm, lm, em) in zip(bins, ri, rm):
            pos = 0
            want = sum(len(scripts[i]) for i in b)
            if rcm != 0 or len(lm) != want:
                ck.violation("C18/model-driver-crash", "the model driver failed (rc=%s, %d of %d answers): %s" % (rcm, len(lm), want, em[-600:]),
                             {"script": scripts[b[0]][:50], "broken": "ml/c18_driver.ml"}, no_input=True)
                continue
            crashed_at = None
            if rci != 0 or len(li) != want:
                crashed_at = len(li)
            for i in b:
                s = scripts[i]
                first_bad = True
                for j, cmd in enumerate(s):
                    g = pos + j
                    k = kind_of(cmd)
                    kinds[k] = kinds.get(k, 0) + 1
                    if g >= len(li):
                        if crashed_at is not None and g == crashed_at:
                            m = re.search(r"ERROR: (AddressSanitizer|LeakSanitizer): ([^\n]*)", ei) or re.search(r"runtime error: ([^\n]*)", ei)
                            what = m.group(0) if m else ("rc=%s %s" % (rci, ei[-300:]))
                            ck.violation("C18/sanitizer/" + k, "the implementation run stopped at %r of script #%d: %s" % (cmd, i, what),
                                         {"script": s[:j + 1], "stderr": ei[-3000:], "variant": "asan"})
                            crashed_at = None
                        continue
                    x, y = li[g], lm[g]
                    flags = DEFECT_RE.findall(x)
                    xs = DEFECT_RE.sub("", x)
                    for key in flags:
                        defect_hits[key] = defect_hits.get(key, 0) + 1
                        ck.violation(key, "monitor %s fired at %r (script #%d, step %d): implementation answered %r, model %r" % (key, cmd, i, j, xs, y),
                                     {"script": s[:j + 1], "impl": x, "model": y, "variant": "asan"})
                    try:
                        coverage_count(cov, prev_state, i, cmd, xs)
                    except Exception:
                        pass
                    if k == "hash" and len(cmd.split()) > 3 and cmd.split()[2] in ("ni", "ng"):
                        jr = judge_name_hash(cmd, xs)
                        if jr is not None:
                            ck.violation(jr[0], jr[1], {"command": cmd, "script": s[:j + 1], "impl": x, "model": y, "variant": "asan"})
                    if k == "bitvec":
                        judged += 1
                        jr = judge_range(cmd, xs) if cmd.startswith("R ") else judge_bitvec(cmd, xs)
                        if jr is not None:
                            ck.violation(jr[0], jr[1], {"command": cmd, "impl": x, "model": y})
                    if xs != y and not flags and first_bad:
                        first_bad = False
                        disagreements += 1
                        ck.violation("C18/correspondence/" + k, "implementation and proven model disagree at %r (script #%d, step %d): impl %r, model %r; "
                                     "no independent monitor fired on this script so far" % (cmd, i, j, xs, y),
                                     {"script": s[:j + 1], "impl": x, "model": y, "variant": "asan",
                                      "broken": "correspondence of the %s model (coq/theories/Containers) with /repo" % k}, no_input=True)
                    if ("skip" not in xs.split()[:2]) and not xs.startswith(("AF none",)):
                        nontrivial.add((k, cmd))
                    if len(samples) < 8 and (g % 997 == 0):
                        samples.append({"cmd": cmd, "impl": x, "model": y})
                pos += len(s)
            if rci != 0 and crashed_at is None and len(li) == want:
                m = re.search(r"ERROR: (AddressSanitizer|LeakSanitizer): ([^\n]*)", ei)
                ck.violation("C18/sanitizer/exit", "the implementation run ended with rc=%s: %s" % (rci, m.group(0) if m else ei[-400:]),
                             {"script": scripts[b[-1]][:80], "stderr": ei[-3000:], "variant": "asan"}, no_input=not m)

        # a format whose second allocation is refused (allocator limit 1 MiB for this run): the string loses its terminator
        # (C18_str_format_failure_keeps_terminator_refuted; known finding)
        small = [["N 1024 0", "S 1 as %s" % hexs(bytes(48 + (i % 10) for i in range(50))), "S 1 fr 1 1048540 65", "S 1 oc 1 66"],
                 ["N 1024 0", "S 1 as %s" % hexs(b"abc"), "S 1 fr 1 1048570 67"]]
        env1 = dict(os.environ); env1["ASAN_OPTIONS"] = "allocator_may_return_null=1:max_allocation_size_mb=1:detect_leaks=1"
        rcs, ls, es = run_exe(impl, [], small, env=env1)
        rct, lt, et = run_exe(model, [str(1 << 20)], small, big_stack=True)
        flat = [c for sc in small for c in sc]
        if rcs != 0 or len(ls) != len(flat) or len(lt) != len(flat):
            ck.violation("C18/sanitizer/string-small-limit", "run with a 1 MiB allocator limit failed: rc=%s %s %s" % (rcs, es[-400:], et[-300:]),
                         {"script": [c[:200] for c in flat], "variant": "asan"}, no_input=True)
        else:
            for c, x, y in zip(flat, ls, lt):
                kinds["string"] = kinds.get("string", 0) + 1
                flags = DEFECT_RE.findall(x); xs = DEFECT_RE.sub("", x)
                for key in flags:
                    defect_hits[key] = defect_hits.get(key, 0) + 1
                    ck.violation(key, "monitor %s fired at %r...: implementation %r, model %r" % (key, c[:60], xs, y), {"script": [c[:400] for c in flat], "variant": "asan-1MiB", "impl": x, "model": y})
                if xs != y and not flags:
                    disagreements += 1
                    ck.violation("C18/correspondence/string-small-limit", "implementation %r, model %r at %r..." % (xs, y, c[:60]),
                                 {"script": [c[:400] for c in flat], "variant": "asan-1MiB", "broken": "StrModel.str_op_format"}, no_input=True)
                nontrivial.add(("string", c[:80]))

        # 4 GiB probes (plain build, memory never touched): capacity and released size beyond 32 bits
        probes = ["X1 4294967294", "X1 4294967000", "X2 536870914", "X2 536870913"]
        rcx, lx, ex = run_exe(plain, [], [probes])
        rcy, ly, ey = run_exe(model, [str(1 << 80)], [probes])
        for c, x, y in zip(probes, lx + ["<none>"] * 4, ly + ["<none>"] * 4):
            kinds["vector"] = kinds.get("vector", 0) + 1
            flags = DEFECT_RE.findall(x); xs = DEFECT_RE.sub("", x)
            for key in flags:
                defect_hits[key] = defect_hits.get(key, 0) + 1
                ck.violation(key, "monitor %s fired at %r: implementation %r, model %r" % (key, c, xs, y), {"script": [c], "variant": "plain", "impl": x, "model": y})
            if xs != y and not flags:
                if "e=1" in xs and "e=0" in y:
                    ck.notes.append("probe %s: the 4 GiB request was refused by this machine's malloc (not judged)" % c)
                else:
                    disagreements += 1
                    ck.violation("C18/correspondence/vector-4g", "implementation %r, model %r at %r" % (xs, y, c), {"script": [c], "variant": "plain", "broken": "reserve_shape"}, no_input=True)
            nontrivial.add(("vector", c))

    # Arena::sformat with an output that does not fit its 512-byte stack buffer: one process per probe (AddressSanitizer stops it
    # at the out-of-bounds store of the pinned code)
    if not ck.replay:
        for n in (512, 600, 5000):
            script = ["N 4096 0", "AP %d 5" % n]
            env2 = dict(os.environ); env2["ASAN_OPTIONS"] = "allocator_may_return_null=1:max_allocation_size_mb=%d" % MALLOC_LIMIT_MB
            rci, li, ei = run_exe(impl, [], [script], env=env2)
            rcm, lm, em = run_exe(model, [str(MALLOC_LIMIT)], [script], big_stack=True)
            kinds["arena"] = kinds.get("arena", 0) + 1
            if len(li) < 2 or "ERROR: AddressSanitizer" in ei:
                m = re.search(r"ERROR: AddressSanitizer: (\S+)", ei)
                ck.violation("C18/arena/sformat-overflows-stack-buffer", "Arena::sformat(\"%%s\", <%d characters>) stopped the process: %s (the pinned code "
                             "uses the return value of vsnprintf, the length of the COMPLETE output, as index into char buf[512])" % (n, m.group(1) if m else ei[-300:]),
                             {"script": script, "variant": "asan", "command": script[1]})
            else:
                x = DEFECT_RE.sub("", li[1]); flags2 = DEFECT_RE.findall(li[1])
                for key in flags2:
                    ck.violation(key, "monitor %s fired at %r: %r" % (key, script[1], x[:200]), {"script": script, "variant": "asan"})
                if not flags2 and (len(lm) < 2 or x != lm[1]):
                    ck.violation("C18/correspondence/arena-sformat", "implementation %r, model %r at %r" % (x[:200], (lm[1] if len(lm) > 1 else "<none>")[:200], script[1]),
                                 {"script": script, "variant": "asan", "broken": "ArenaModel.arena_sformat"}, no_input=True)
            nontrivial.add(("arena", script[1]))

    # the re-extracted prime table no longer satisfies the reflection lemma: look for a concrete hash code that the real table puts
    # into a bucket other than hash mod prime (monitor C18/hash/bucket-is-not-hash-mod-prime, or the sanitizer when the index is
    # outside the bucket array)
    if not ck.replay and any(f == "C18HashTable.v" for f, _ in table_failures):
        ce = hash_row_counterexample(tab["rows"], rng)
        if ce is not None and ce[2] is not None:
            idx, h, got, want = ce
            script = ["N 4096 0", "H 0 h %d" % idx, "H 0 i %d 1" % h, "H 0 d"]
            rci, li, ei = run_exe(impl, [], [script], env=_asan_env(), timeout=120)
            keys = [k for x in li for k in DEFECT_RE.findall(x)]
            if keys:
                ck.violation(keys[0], "prime table row %d %r: hash code %d lands in bucket %d, hash mod prime is %d (found by searching the re-extracted table; "
                             "monitors %s fired at %r)" % (idx, tuple(tab["rows"][idx]), h, got, want, sorted(set(keys)), script[2]), {"script": script, "variant": "asan"})
            elif rci != 0:
                m = re.search(r"ERROR: (AddressSanitizer|LeakSanitizer): ([^\n]*)", ei)
                ck.violation("C18/sanitizer/hash", "prime table row %d %r: hash code %d gives bucket index %d (hash mod prime is %d) and the implementation stopped: %s" %
                             (idx, tuple(tab["rows"][idx]), h, got, want, m.group(0) if m else ei[-300:]), {"script": script, "stderr": ei[-2000:], "variant": "asan"})
            else:
                ck.note("hash table counterexample %r computed from the table did not show in the implementation run" % (ce,)) if hasattr(ck, "note") else None
    if not ck.replay:
        minimise_violations(ck, impl, model)
        try:
            if search_monitor_after_disagreement(ck, impl, rng):
                minimise_violations(ck, impl, model)
        except Exception as e:
            ck.log("continuation search failed: %r" % (e,))

    for f, log in table_failures:
        ck.violation("C18/tables/" + f, "the table re-extracted from /repo no longer satisfies the reflection lemmas of %s: %s" % (f, log[-800:]),
                     {"broken": "coq/gen/%s (hash_primes_ok / vec_grow_table_ok ...)" % f, "tables": ttext[:3000]}, no_input=True)
    for o in ck.proof_failures():
        ck.violation("C18/proof/" + o["name"], "theorem %s no longer checks (%s)" % (o["name"], getattr(ck, "coq_log", "")[-800:]),
                     {"broken": "theorem " + o["name"], "file": "coq/theories/Properties/Properties_C18.v"}, no_input=True)
    by_kind = {}
    for k, _ in nontrivial:
        by_kind[k] = by_kind.get(k, 0) + 1
    return ck.finish(
        "proof",
        {"evaluations": ncmds, "distinct_nontrivial": len(nontrivial),
         "rule": "operation scripts generated from VERIF_SEED (arena one-shot/reusable/free/reset incl. soft-reset block skipping and refused "
                 "requests; vectors of 4/8/12-byte items around every growth boundary, invalid and refused sizes; hash tables with colliding "
                 "codes through several rehashes; strings around the SSO/128/207/512/1024 boundaries with number/hex/format operations; "
                 "bit-vector primitives on 1..5 words of 32/64 bits at word boundaries); a command is non-trivial when it was executed (not "
                 "skipped for lack of an operand); distinct (kind, command line) pairs counted",
         "samples": samples, "commands_by_kind": kinds, "distinct_nontrivial_by_kind": by_kind, "scripts": len(scripts),
         "traces_validated_against_impl": len(scripts), "model_vs_impl_disagreements": disagreements,
         "bitvec_cases_judged_by_python_oracle": judged, "monitor_hits": defect_hits,
         "coverage_counters": {k: (sorted(v)[:40] if isinstance(v, set) else v) for k, v in cov.items()},
         "tables": {"grow_table": tab["grow"], "prime_rows": len(tab["rows"]), "regenerated_differs_from_snapshot": regen is not None}},
        assumptions=["theorems are about the Gallina models (coq/theories/Containers); the models are tied to the code by the per-operation "
                     "differential run of this check (AddressSanitizer build) and by the re-extracted tables",
                     "malloc is modelled as an oracle: a request succeeds iff it is at most %d MiB (the sanitizer allocator's limit in the "
                     "run); fresh block ids follow the order of successful requests" % MALLOC_LIMIT_MB,
                     "the arena model assumes malloc results are 8-aligned (asserted by the code)",
                     "String::_op_format is modelled given the text the format expands to (formats used: \"%s\")"],
        checker_cmd="coqc (Coq 8.16.1) -Q coq/theories Verif -Q coq/gen VerifGen coq/theories/Properties/Properties_C18.v  [full .vo build of its dependencies]",
        trusted_base=["Coq 8.16.1 kernel incl. vm_compute (no native_compute)",
                      "extraction (ExtrOcamlBasic only) + OCaml 4.13.1 + zarith glue in ml/zconv.ml + ml/c18_driver.ml",
                      "harness/c18_harness.cpp (incl. its monitors and the canonicalisation of addresses), tools/c18_tables.py, tools/checks/c18.py",
                      "AddressSanitizer/LeakSanitizer of gcc"])

"""C02 — AArch64 assembler emits a correct encoding of every instruction it accepts.

S1 translator : node on /repo/db (tools/c02_tr_isa.js, the repository's own db/index.js) -> tools/c02_rows.py -> coq/gen/IsaA64Db.v
                (re-generated on every run; the reflection lemma rows_wf and the theorems over the rows are re-checked by coqc)
S2 theorems   : coq/theories/Properties/Properties_C02.v
S3 tie        : harness/c02_harness.cpp (the real a64::Assembler::_emit of /repo's working tree) vs. the extracted specification
                (coq/extract/Extract_A64.v + ml/c02_driver.ml) on the same generated command stream
S4 oracle     : every case is printed in GNU syntax by the small printer below (not AsmJit's formatter) and assembled by llvm-mc;
                whatever AsmJit accepts must be accepted by llvm-mc with the same word(s)
"""
import json
import os
import random
import struct
import re
import sys
from concurrent.futures import ThreadPoolExecutor

import vlib
sys.path.insert(0, os.path.dirname(os.path.dirname(os.path.abspath(__file__))))
import c02_rows
import c02_tables

MATTR = ("+v8.8a,+lse,+crc,+rcpc,+rcpc-immo,+mte,+pauth,+flagm,+altnzcv,+fp-armv8,+neon,+fullfp16,+fp16fml,+bf16,+i8mm,+dotprod,"
         "+complxnum,+jsconv,+rdm,+sha2,+sha3,+sm4,+aes,+ls64,+mops,+hbc,+brbe,+tme,+sb,+ssbs,+predres,+rand,+spe,+wfxt,+xs,+lor,"
         "+pan,+ras,+tlb-rmi,+specrestrict,+ccdp,+ccpp,+bti,+dit,+fptoint,+am,+amvs,+ecv,+fgt,+tracev8.4,+nv,+sel2,+mpam,+pan-rwv,+uaops,+ccidx")
COND = ["al", "nv", "eq", "ne", "cs", "cc", "mi", "pl", "vs", "vc", "hi", "ls", "ge", "lt", "gt", "le"]
SHIFTN = {0: "lsl", 1: "lsr", 2: "asr", 3: "ror", 5: "msl", 6: "uxtb", 7: "uxth", 8: "uxtw", 9: "uxtx", 10: "sxtb", 11: "sxth", 12: "sxtw", 13: "sxtx"}
ORACLE_UNKNOWN = ("unrecognized instruction mnemonic", "instruction requires:", "unpredictable")


# ------------------------------------------------------------------ operand tuples -> harness tokens
def tok(o):
    k = o[0]
    if k == "g":
        return "g:%d:%d" % (1 if o[1] else 0, o[2])
    if k == "i":
        return "i:%d:%d" % (o[1], o[2])
    if k == "k":
        return "k:%d" % o[1]
    if k == "m":
        _, base, idx, sop, sh, off, mode = o
        if idx is None:
            return "m:%d:0:0:0:%d:%d:%d:%d" % (base, sop, sh, off, mode)
        return "m:%d:1:%d:%d:%d:%d:%d:%d" % (base, 1 if idx[0] else 0, idx[1], sop, sh, off, mode)
    if k == "v":
        return "v:%s:%d:%d:%d" % ("bhsdq"[o[1]], o[2], o[3], o[4])
    if k == "l":
        return "l:%d" % o[1]
    if k == "r":
        return "r:%d" % o[1]
    raise ValueError(o)


# ------------------------------------------------------------------ GNU-syntax printer (independent of AsmJit's formatter)
def p_gp(x, rid):
    if 0 <= rid <= 30:
        return ("x" if x else "w") + str(rid)
    if rid == 31:
        return "sp" if x else "wsp"
    if rid == 63:
        return "xzr" if x else "wzr"
    return None


VARR = {(3, 1): "8b", (4, 1): "16b", (3, 2): "4h", (4, 2): "8h", (3, 3): "2s", (4, 3): "4s", (3, 4): "1d", (4, 4): "2d", (2, 2): "2h"}
LANE_T = {1: "b", 2: "h", 3: "s", 4: "d", 5: "4b", 6: "2h"}


def p_vec(o):
    """('v', rt, et, ei, id) -> text | None (no such register / view)"""
    _, rt, et, ei, rid = o
    if not (0 <= rid <= 31):
        return None
    if ei >= 0:
        if rt != 4 or et not in LANE_T:
            return None
        return "v%d.%s[%d]" % (rid, LANE_T[et], ei)
    if et == 0:
        return "bhsdq"[rt] + str(rid) if 0 <= rt <= 4 else None
    if (rt, et) in VARR:
        return "v%d.%s" % (rid, VARR[(rt, et)])
    return None


def p_mem(o, pair_normal_form=False):
    _, base, idx, sop, sh, off, mode = o
    b = p_gp(True, base)
    if b is None or base == 63:
        return None
    if idx is not None:
        if off != 0 or mode != 0:
            return None                      # no such addressing mode
        ir = p_gp(idx[0], idx[1])
        if ir is None or idx[1] == 31 or sop not in SHIFTN:
            return None
        if sh == 0:
            return "[%s, %s%s]" % (b, ir, "" if sop == 0 else ", " + SHIFTN[sop])
        return "[%s, %s, %s #%d]" % (b, ir, SHIFTN[sop], sh)
    if pair_normal_form and off == 0:
        mode = 0
    if mode == 0:
        return "[%s]" % b if off == 0 else "[%s, #%d]" % (b, off)
    if mode == 1:
        return "[%s, #%d]!" % (b, off)
    if mode == 2:
        return "[%s], #%d" % (b, off)
    return None


INVALID = "<no textual form>"


def p_mem_post(o):
    _, base, idx, sop, sh, off, mode = o
    b = p_gp(True, base)
    if b is None or base == 63:
        return None
    if idx is not None:
        ir = p_gp(idx[0], idx[1])
        if ir is None or idx[1] in (31, 63) or not idx[0] or off != 0 or mode != 2 or sop != 0 or sh != 0:
            return None
        return "[%s], %s" % (b, ir)
    if mode == 2:
        return "[%s], #%d" % (b, off)
    if mode == 0:
        return "[%s]" % b if off == 0 else "[%s, #%d]" % (b, off)
    return "[%s, #%d]!" % (b, off)


def print_gnu_inst(entries, ops):
    """instruction level: the first form of the mnemonic whose operand SHAPES fit the operand tuples gives the text.
    -> text | INVALID (a form fits in shape but an operand has no textual form: invalid register id, condition > 15, address mode that
    does not exist) | None (no modelled form of the mnemonic has this operand shape: outside the scope of the model)"""
    inv = False
    for e in entries:
        t = print_gnu(e, ops)
        if t is INVALID:
            inv = True
        elif t is not None:
            return t
    return INVALID if inv else None


def print_gnu(entry, ops):
    name = entry["row"]["name"]
    syn = entry["syn"]
    out = []
    i = 0
    mn = name
    bad = False
    for s in syn:
        k = s[0]
        if k == "SShift":
            if i >= len(ops):
                continue
            o = ops[i]; i += 1
            if o[0] != "i":
                return None
            if o[1] not in SHIFTN:
                bad = True
            else:
                out.append("%s #%d" % (SHIFTN[o[1]], o[2]))
            continue
        if i >= len(ops):
            return None
        o = ops[i]; i += 1
        if k == "SBitfield":
            if o[0] != "i":
                return None
            out.append("#%d" % o[2])
            if s[1] != 2:
                if i >= len(ops) or ops[i][0] != "i":
                    return None
                out.append("#%d" % ops[i][2]); i += 1
            continue
        if k == "SMovW":
            if o[0] != "i":
                return None
            out.append("#%d" % o[2])
            if i < len(ops):
                e = ops[i]; i += 1
                if e[0] != "i":
                    return None
                if e[1] not in SHIFTN:
                    bad = True
                else:
                    out.append("%s #%d" % (SHIFTN[e[1]], e[2]))
            continue
        if k == "SSysReg":
            if o[0] != "i":
                return None
            v = o[2]
            if not (0x8000 <= v <= 0xFFFF):
                bad = True
            else:
                out.append("s%d_%d_c%d_c%d_%d" % (2 + ((v >> 14) & 1), (v >> 11) & 7, (v >> 7) & 15, (v >> 3) & 15, v & 7))
            continue
        if k in ("SVecList", "SVecListElem"):
            regs = [o]
            while len(regs) < 8 and i < len(ops) and ops[i][0] == "v":
                regs.append(ops[i]); i += 1
            if any(x[0] != "v" for x in regs):
                return None
            if (k == "SVecListElem") != (regs[0][3] >= 0):
                return None                      # whole-register list vs single-lane list: another row's shape
            ts = [p_vec(x) for x in regs]
            if any(t is None for t in ts) or len(regs) > 4:
                bad = True
            if k == "SVecListElem":
                if any(x[3] != regs[0][3] for x in regs):
                    bad = True                   # one lane index for the whole list
                out.append("{ " + ", ".join(str(t).split("[")[0] for t in ts) + " }[%d]" % regs[0][3])
            else:
                out.append("{ " + ", ".join(str(t) for t in ts) + " }")
            continue
        if k in ("SMemPostReg", "SMemPostImm"):
            if o[0] != "m":
                return None
            t = p_mem_post(o)
            if t is None:
                bad = True
            out.append(t)
            continue
        if k in ("SVec", "SVecElem"):
            if o[0] != "v":
                return None
            if (k == "SVecElem") != (o[3] >= 0) and re.match(r"^(ld|st)[1-4]r?$", name):
                return None                      # whole-register list vs single-lane form of LDn/STn: another row's shape
            t = p_vec(o)
            if t is None:
                bad = True
            elif k == "SVecElem" and re.match(r"^(ld|st)[1-4]$", name):
                t = "{ %s }[%d]" % (t.split("[")[0], o[3])
            elif k == "SVec" and name in ("tbl", "tbx") and len(out) == 1:
                t = "{ %s }" % t            # the table of TBL/TBX is a register list even when it has one member
            out.append(t)
            continue
        if k == "SImmConst":
            if o[0] != "i":
                return None
            out.append("#0.0" if entry["row"]["ops"][len(out)] == "#0.0" else "#%d" % o[2])
            continue
        if k == "SSysOp":
            if o[0] != "i":
                return None
            v = o[2]
            if not (0 <= v < 16384):
                bad = True
            else:
                mn = "sys"          # AT/DC/IC/TLBI are aliases of SYS #op1, Cn, Cm, #op2{, Xt}; the generic form needs no operation names
                out.append("#%d, c%d, c%d, #%d" % (v >> 11, (v >> 7) & 15, (v >> 3) & 15, v & 7))
            continue
        if k == "SGpPair":
            if o[0] != "g" or i >= len(ops) or ops[i][0] != "g":
                return None
            o2 = ops[i]; i += 1
            t1, t2 = p_gp(o[1], o[2]), p_gp(o2[1], o2[2])
            if t1 is None or t2 is None:
                bad = True
            out.append(str(t1)); out.append(str(t2))
            continue
        if k in ("SGp", "SExtReg", "SGpDup"):
            if o[0] != "g":
                return None
            t = p_gp(o[1], o[2])
            if t is None:
                bad = True
            out.append(t)
            if k == "SExtReg" and i < len(ops):
                e = ops[i]; i += 1
                if e[0] != "i":
                    return None
                if e[1] not in SHIFTN:
                    bad = True
                else:
                    out.append("%s #%d" % (SHIFTN[e[1]], e[2]))
        elif k == "SFpImm":
            if o[0] != "i":
                return None
            if o[1] >= 256:       # a double immediate given by its bit pattern
                d = struct.unpack("<d", struct.pack("<Q", o[2] & ((1 << 64) - 1)))[0]
                out.append("#%s" % repr(d))
            else:
                out.append("#%d.0" % o[2])
        elif k in ("SImmU", "SImmS", "SLogImm", "SImmLt", "SMovImm", "SVShift", "SImmRsub", "SImmAff"):
            if o[0] != "i":
                return None
            out.append("#%d" % o[2])
        elif k == "SCond":
            if o[0] == "k":
                if not (0 <= o[1] <= 15):
                    bad = True
                else:
                    mn = name.replace("<cond>", COND[o[1]])
                continue
            if o[0] != "i":
                return None
            if not (0 <= o[2] <= 15):
                bad = True
            else:
                out.append(COND[o[2]])
        elif k == "SAddImm":
            if o[0] != "i":
                return None
            out.append("#%d" % o[2])
            if i < len(ops):
                e = ops[i]; i += 1
                if e[0] != "i":
                    return None
                if e[1] not in SHIFTN:
                    bad = True
                else:
                    out.append("%s #%d" % (SHIFTN[e[1]], e[2]))
        elif k == "SRel":
            if o[0] != "r":
                return None
            out.append("#%d" % o[1])
        elif k == "SMemLit":
            if o[0] != "l":
                return None
            out.append("#%d" % o[1])
        elif k in ("SMemBase", "SMemOff", "SMemPair", "SMemIdx"):
            if o[0] != "m":
                return None
            if (o[2] is None) == (k == "SMemIdx"):
                return None
            t = p_mem(o, pair_normal_form=(k == "SMemBase" or (k == "SMemPair" and s[7])))
            if t is None:
                bad = True
            out.append(t)
        else:
            return None
    if i != len(ops):
        return None
    if bad:
        return INVALID
    return mn + (" " + ", ".join(out) if out else "")


# ------------------------------------------------------------------ strata per operand syntax
GP_IDS = [0, 1, 15, 16, 29, 30, 31, 63, 32, 62]


def bits_pattern(w):
    v = 0xB6D5A3 & ((1 << w) - 1)
    return v if v else ((1 << w) - 1 if w else 0)


def logical_values(rng, x, n):
    import checks.c17 as c17
    m = 64 if x else 32
    vals = sorted(c17.all_logical(m))
    pick = [vals[0], vals[-1], 1, 1 << (m - 1), (1 << m) - 2, 0x5555555555555555 & ((1 << m) - 1), 0xFF, 0xFF00FF00FF00FF00 & ((1 << m) - 1)]
    pick += vals if n < 0 else rng.sample(vals, min(n, len(vals)))
    n = 600 if n < 0 else n
    out = []
    for v in pick:
        out.append(v)
    for v in rng.sample(vals, min(n // 2 + 1, len(vals))):
        out.append(v ^ (1 << rng.randrange(m)))
    out += [0, (1 << m) - 1, rng.getrandbits(m), rng.getrandbits(m)]
    if not x:
        out += [-1 << 8, -2, (1 << 32) | 0xFF, -(1 << 31), -(1 << 31) - 1, -(1 << 32), -(1 << 32) - 1, 1 << 32]
    else:
        out += [-2, -256]
    out = [v - (1 << 64) if v >= (1 << 63) else v for v in out]       # operands are signed 64-bit values
    return out, vals


def strata(s, pos, rng, tier, isx):
    """-> list of operand-tuple groups (each group = list of operand tuples consumed by this syntax); first group = base value"""
    k = s[0]
    if k == "SGp":
        x = s[1]
        base = [("g", x, pos + 1)]
        out = [base] + [[("g", x, i)] for i in GP_IDS] + [[("g", not x, pos + 1)], [("i", 0, 1)]]
        return out
    if k == "SImmU":
        w, sc = s[2], s[3]
        vs = [bits_pattern(w), 0, 1, (1 << w) - 1, 1 << w, (1 << w) + 1, -1, rng.randrange(1 << w), rng.randrange(1 << w)]
        if tier == "thorough":
            vs += list(range(1 << w)) if w <= 8 else [rng.randrange(1 << w) for _ in range(64)]
        out = [[("i", 0, v * sc)] for v in vs]
        if sc > 1:
            out += [[("i", 0, 1)], [("i", 0, sc + 1)], [("i", 0, sc - 1)]]
        return out
    if k in ("SVec", "SVecElem"):
        VEC_IDS = [0, 1, 15, 16, 30, 31, 32, 63]
        if k == "SVec":
            rt, et = s[1], s[2]
            base = ("v", rt, et, -1, pos + 1)
            out = [[base]] + [[("v", rt, et, -1, i)] for i in VEC_IDS]
            out += [[("v", (rt + 1) % 5, et, -1, pos + 1)], [("v", rt, (et % 4) + 1 if et else 3, -1, pos + 1)], [("v", 4, et if et else 3, 0, pos + 1)]]
            if (rt, et) in ((3, 1), (4, 1), (3, 2), (4, 2), (3, 3), (4, 3), (4, 4), (3, 4)):
                out.append([("v", 7 - rt, et, -1, pos + 1)])          # the other vector length
            out.append([("g", True, pos + 1)])
            return out
        et, lanes = s[1], s[6]
        out = [[("v", 4, et, min(1, lanes - 1), pos + 1)]]
        for ei in list(range(0, lanes)) + [lanes, lanes + 1, 15, 16]:
            out.append([("v", 4, et, ei, pos + 1)])
        for rid in VEC_IDS:
            out.append([("v", 4, et, 0, rid)])
        out += [[("v", 4, (et % 4) + 1, 0, pos + 1)], [("v", 4, et, -1, pos + 1)], [("v", 3, et, 0, pos + 1)]]
        return out
    if k == "SImmConst":
        return [[("i", 0, s[1])], [("i", 0, s[1] + 1)], [("i", 0, -1)]]
    if k == "SSysOp":
        crn = s[4]

        def mk(op1, cn, cm, op2):
            return (op1 << 11) | (cn << 7) | (cm << 3) | op2
        vs = [mk(3, crn, 5, 2), mk(0, crn, 0, 0), mk(7, crn, 15, 7), mk(4, crn, 8, 1), mk(0, crn, 8, 0), mk(3, (crn + 1) % 16, 5, 2), mk(3, crn ^ 8, 5, 2),
              16384 | mk(3, crn, 5, 2), 32768, -1, mk(6, crn, 3, 1), mk(3, crn, 7, 4), mk(0, crn, 6, 1), mk(4, crn, 7, 6)]
        return [[("i", 0, v)] for v in vs]
    if k == "SGpPair":
        x = s[1]
        b0 = 2 * pos + 2
        out = [[("g", x, b0), ("g", x, b0 + 1)]]
        for a_, b_ in ((0, 1), (28, 29), (30, 63), (30, 31), (1, 2), (3, 4), (b0, b0 + 2), (b0, b0), (32, 33), (62, 63), (31, 32), (b0 + 1, b0)):
            out.append([("g", x, a_), ("g", x, b_)])
        out += [[("g", not x, b0), ("g", not x, b0 + 1)], [("g", x, b0), ("g", not x, b0 + 1)], [("g", x, b0)]]
        return out
    if k == "SVShift":
        es = s[2]
        vs = [3, 0, 1, es - 1, es, es + 1, -1, 7, 8, 9, 15, 16, 17, 31, 32, 33, 63, 64, 65, 2 * es]
        return [[("i", 0, v)] for v in vs]
    if k == "SVecListElem":
        n, et, lanes = s[1], s[2], s[6]

        def lst(start, ei, nn=n, step=1, types=None, lane_of=None):
            return [("v", (types or {}).get(q, (4, et))[0], (types or {}).get(q, (4, et))[1], (lane_of or {}).get(q, ei), (start + q * step) % 32 if start < 32 else start + q) for q in range(nn)]
        out = [lst(pos + 1, min(1, lanes - 1))]
        for ei in list(range(lanes)) + [lanes, 15]:
            out.append(lst(pos + 1, ei))
        for st in (0, 15, 29, 30, 31, 32):
            out.append(lst(st, 0))
        out.append(lst(pos + 1, 0, step=2))
        out.append(lst(pos + 1, 0, step=0))
        out.append(lst(pos + 1, 0, types={n - 1: (3, et)}))
        out.append(lst(pos + 1, 0, types={1: (4, (et % 4) + 1)}))
        out.append(lst(pos + 1, 0, lane_of={n - 1: 1 if lanes > 1 else -1}))
        out.append(lst(pos + 1, 0, nn=n - 1))
        if n < 4:
            out.append(lst(pos + 1, 0, nn=n + 1))
        return out
    if k == "SVecList":
        n, rt, et = s[1], s[2], s[3]

        def lst(start, nn=n, types=None, step=1):
            return [("v", (types or {}).get(q, (rt, et))[0], (types or {}).get(q, (rt, et))[1], -1, (start + q * step) % 32 if start < 32 else start + q) for q in range(nn)]
        out = [lst(pos + 1)]
        for st in (0, 15, 28, 29, 30, 31, 32, 63):
            out.append(lst(st))
        if n > 1:
            out.append(lst(pos + 1, step=2))
            out.append(lst(pos + 1, step=0))
            out.append(lst(pos + 1, types={n - 1: (7 - rt, et)}))
            out.append(lst(pos + 1, types={1: (rt, (et % 4) + 1)}))
            out.append(lst(pos + 1, nn=n - 1))
        if n < 4:
            out.append(lst(pos + 1, nn=n + 1))
        out.append(lst(pos + 1, types={0: (7 - rt, et)}) if n == 1 else lst(pos + 1, types={q: (7 - rt, et) for q in range(n)}))
        out.append([("v", rt, et, 0, pos + 1)] + lst(pos + 2, nn=n - 1))
        return out
    if k in ("SMemPostReg", "SMemPostImm"):
        b0 = pos + 6
        out = []
        if k == "SMemPostReg":
            out.append([("m", b0, (True, 9), 0, 0, 0, 2)])
            for iid in (0, 30, 31, 63, 32):
                out.append([("m", b0, (True, iid), 0, 0, 0, 2)])
            out += [[("m", b0, (False, 9), 0, 0, 0, 2)], [("m", b0, (True, 9), 0, 0, 0, 0)], [("m", b0, (True, 9), 0, 0, 0, 1)],
                    [("m", b0, (True, 9), 0, 2, 0, 2)], [("m", b0, (True, 9), 8, 0, 0, 2)], [("m", b0, (True, 9), 0, 0, 8, 2)]]
            for bid in GP_IDS:
                out.append([("m", bid, (True, 9), 0, 0, 0, 2)])
        else:
            imm = s[2]
            out.append([("m", b0, None, 0, 0, imm, 2)])
            for off in (0, imm * 2, imm + 1, -imm, 8, 16, 32, 64):
                out.append([("m", b0, None, 0, 0, off, 2)])
            out += [[("m", b0, None, 0, 0, imm, 1)], [("m", b0, None, 0, 0, imm, 0)]]
            for bid in GP_IDS:
                out.append([("m", bid, None, 0, 0, imm, 2)])
        return out
    if k == "SMovImm":
        x = s[1]
        m = 64 if x else 32
        vals = [0x12345678 & ((1 << m) - 1)]
        hw = [0, 0xFFFF, None]
        n = 4 if x else 2
        import itertools
        for cls in itertools.product(hw, repeat=n):
            for _ in range(1 if tier == "quick" else 6):
                v = 0
                for i_, h in enumerate(cls):
                    v |= (h if h is not None else rng.randrange(1, 0xFFFF)) << (16 * i_)
                vals.append(v)
        lv, _ = logical_values(rng, x, 12 if tier == "quick" else 200)
        vals += lv
        vals += [-1, -2, -(1 << 31), (1 << 32) - 1, 1 << 32, -(1 << 32) - 1, (1 << 63) - 1, -(1 << 63), 0xFFFF0000, 0x10000, 0xFFFFFFFF0000FFFF]
        vals = [v - (1 << 64) if v >= (1 << 63) else v for v in vals]
        return [[("i", 0, v)] for v in vals]
    if k == "SGpDup":
        x = s[1]
        return [[("g", x, pos + 1)]] + [[("g", x, i)] for i in GP_IDS] + [[("g", not x, pos + 1)]]
    if k == "SFpImm":
        f64 = lambda d: struct.unpack("<Q", struct.pack("<d", d))[0]
        ds = [1.0, 2.0, 0.125, 31.0, -1.5, 1.0625, 0.1, 0.0, -0.0, 32.0, 0.0625, 1.03125, float("inf"), float("nan"), 1.9375, -31.0, 0.2421875,
              [0.125, 0.25, 0.5, 1.0, 2.0, 4.0, 8.0, 16.0][rng.randrange(8)] * (16 + rng.randrange(16)) / 16.0 * (1 - 2 * rng.randrange(2))]
        return [[("i", 256, f64(d))] for d in ds] + [[("i", 0, v)] for v in (1, 2, -1, 31, 32, 0, 3, 17, -17, 1 << 31, -(1 << 31) - 1, 1 << 40)]
    if k == "SImmAff":
        w, base, step = s[2], s[3], s[4]
        vs = [base + step * q for q in range(1 << w)] + [base - step, base + step * (1 << w), 0, base + 1, base + step // 2, -base, 360]
        return [[("i", 0, v)] for v in vs]
    if k == "SImmRsub":
        c, lo, hi = s[3], s[4], s[5]
        vs = [lo + bits_pattern(s[2]) % (hi - lo + 1), lo, hi, lo - 1, hi + 1, 0, -1, 31, 32, 33, 63, 64, 65, rng.randint(lo, hi)]
        return [[("i", 0, v)] for v in vs]
    if k == "SImmLt":
        lim = s[3]
        vs = [bits_pattern(s[2]) % lim, 0, 1, lim - 1, lim, lim + 1, -1, 31, 32, 63, 64, rng.randrange(lim)]
        return [[("i", 0, v)] for v in vs]
    if k == "SBitfield":
        kind, size = s[1], s[2]
        if kind == 2:
            return [[("i", 0, v)] for v in [5, 0, 1, size - 1, size, -1, 31, 32, 63, 64]]
        out = [[("i", 0, 3), ("i", 0, 7)]]
        for lsb in (0, 1, 7, size - 1, size, -1, 31, 32):
            for width in (1, 2, size - lsb, size - lsb + 1, 0, size, -1, 8):
                out.append([("i", 0, lsb), ("i", 0, width)])
        return out
    if k == "SMovW":
        out = []
        for v in (0xB6D5, 0, 1, 0xFFFF, 0x10000, -1):
            out.append([("i", 0, v)])
            for (p_, sh) in ((0, 0), (0, 16), (0, 32), (0, 48), (0, 64), (0, 8), (1, 16), (0, -16)):
                if v in (0xB6D5, 0, 0xFFFF):
                    out.append([("i", 0, v), ("i", p_, sh)])
        return out
    if k == "SSysReg":
        vs = [0x8000 | 0x5A10, 0x8000, 0xFFFF, 0x7FFF, 0x10000, 0, -1, 0xC000 | (3 << 11) | (4 << 7) | (2 << 3) | 0, 0xDA10, 0x9808]
        return [[("i", 0, v)] for v in vs]
    if k == "SImmS":
        w = s[2]
        h = 1 << (w - 1)
        vs = [bits_pattern(w - 1), 0, 1, -1, h - 1, h, -h, -h - 1, (1 << w) - 1, 1 << w, rng.randrange(-h, h), rng.randrange(-h, h)]
        return [[("i", 0, v)] for v in vs]
    if k == "SCond":
        if isinstance(s[2], bool) and pos == -1:
            return [[("k", c)] for c in [3] + list(range(0, 16))]
        return [[("i", 0, c)] for c in [3] + list(range(0, 18)) + [-1]]
    if k == "SShift":
        maxn = s[4]
        out = [[]]
        for p in (0, 1, 2, 3, 4, 6, 9):
            for v in (0, 1, 5, maxn - 1, maxn, 31, 32, 63, 64):
                out.append([("i", p, v)])
        return out
    if k == "SExtReg":
        x = s[1]
        out = [[("g", x, pos + 1)]]
        for rx in (True, False):
            for rid in (pos + 1, 30, 63, 31, 32):
                out.append([("g", rx, rid)])
                for p in (0, 6, 7, 8, 9, 10, 11, 12, 13, 1, 2, 3):
                    for v in ((0, 1, 4, 5) if rid == pos + 1 else (2,)):
                        out.append([("g", rx, rid), ("i", p, v)])
        return out
    if k == "SAddImm":
        out = []
        for v in (0x2A5, 0, 1, 0xFFF, 0x1000, 0x1001, 0xFFF000, 0x1000000, 0xABC000, -1, 0x7FF, 0xFFF001):
            out.append([("i", 0, v)])
            for (p, sh) in ((0, 0), (0, 12), (0, 1), (1, 12), (0, 24)):
                if v in (0x2A5, 0, 0xFFF, 0x1000, 0xABC000):
                    out.append([("i", 0, v), ("i", p, sh)])
        return out
    if k in ("SRel", "SMemLit"):
        w = s[2]
        scale = s[3] if k == "SRel" else 4
        mx = ((1 << (w - 1)) - 1) * scale
        mn = -(1 << (w - 1)) * scale
        ds = [scale * 5, 0, scale, -scale, mx, mx + scale, mn, mn - scale, mx - scale, mn + scale]
        if scale == 4096:      # ADRP reaches +-4 GiB; the harness buffer holds +-128 MiB: limits are not reachable, interior and alignment are
            mx, mn = (1 << 27) - 4096, -(1 << 27)
            ds = [scale * 5, 0, scale, -scale, mx, mn, 1, 4, 2048, 4095, 4097, -1, scale * 0x5A5, -scale * 0x3C3]
        if scale > 1:
            ds += [1, 2, -1, mx + 1, scale + 1]
        for _ in range(4 if tier == "quick" else 40):
            ds.append(rng.randrange(mn // scale, mx // scale + 1) * scale)
        t = "r" if k == "SRel" else "l"
        return [[(t, d)] for d in ds]
    if k in ("SMemBase", "SMemOff", "SMemPair", "SMemIdx"):
        out = []
        b0 = pos + 2

        def mem(base=b0, idx=None, sop=0, sh=0, off=0, mode=0):
            return [("m", base, idx, sop, sh, off, mode)]
        if k == "SMemBase":
            out.append(mem())
            offs, modes = [8, -8, 1], [0]
        elif k == "SMemIdx":
            amount = s[5]
            out.append(mem(idx=(True, 3)))
            for sop in (0, 8, 12, 13, 1, 6, 9):
                for sh in sorted({0, amount, amount + 1, 1, 4}):
                    for xi in (True, False):
                        out.append(mem(idx=(xi, 3), sop=sop, sh=sh))
            for iid in GP_IDS:
                out.append(mem(idx=(True, iid)))
                out.append(mem(idx=(False, iid), sop=8))
            out.append(mem(idx=(True, 3), off=8))
            out.append(mem(idx=(True, 3), mode=1))
            out.append(mem(idx=(True, 3), mode=2))
            offs, modes = [], []
        else:
            w, scale = (s[3], s[5]) if k == "SMemOff" else (s[3], s[4])
            sgn = s[4] if k == "SMemOff" else True
            mode0 = s[6] if k == "SMemOff" else 0
            mx = (((1 << (w - 1)) - 1) if sgn else ((1 << w) - 1)) * scale
            mn = (-(1 << (w - 1)) if sgn else 0) * scale
            out.append(mem(off=scale * 3, mode=mode0))
            offs = [0, scale, -scale, mx, mx + scale, mn, mn - scale, -257, -256, -255, -1, 1, 255, 256, 257, scale + 1, mx + 1, 4095, 4096, 32760, 32768]
            if scale > 1:      # multiples of a smaller access size (an offset that is aligned for the W form but not for the X form, ...)
                for sub in {scale // 2, scale // 4, 1} - {0}:
                    offs += [sub, scale + sub, scale * 3 + sub, 252 - 252 % scale + sub, 256 + sub, mx - scale + sub, mx + sub]
            for _ in range(3 if tier == "quick" else 30):
                offs.append(rng.randrange(mn // scale, mx // scale + 1) * scale)
            modes = [mode0] + [m for m in (0, 1, 2) if m != mode0] if k == "SMemOff" else [0, 1, 2]
        for md in modes:
            for off in offs:
                if k == "SMemBase" and md == 0 and off == 0:
                    continue
                out.append(mem(off=off, mode=md))
        if k == "SMemBase":
            out.append(mem(mode=1)); out.append(mem(mode=2))
        for bid in GP_IDS:
            if k == "SMemIdx":
                out.append(mem(base=bid, idx=(True, 3)))
            elif k == "SMemOff":
                out.append(mem(base=bid, off=s[5] * 3, mode=s[6]))
            elif k == "SMemPair":
                out.append(mem(base=bid, off=s[4] * 3))
            else:
                out.append(mem(base=bid))
        if k != "SMemIdx":
            out.append(mem(idx=(True, 3)))
        out.append([("l", 8)])
        return out
    if k == "SLogImm":
        vals, _ = logical_values(rng, s[1], 24 if tier == "quick" else -1)       # thorough: every bitmask immediate of the width
        return [[("i", 0, v)] for v in vals]
    raise ValueError(k)


class Gen:
    """Two phases. Phase 1: per supported row the base case, every stratum of every operand syntax with the others at base, and
    operand-count perturbations. Phase 2 (after phase 1 was judged): random combinations of the strata that phase 1 found to be
    accepted and right, so that a finding is always attributed to a single deviating operand (stable canonical keys)."""

    def __init__(self, b, rng, tier, names):
        self.b, self.rng, self.tier, self.names = b, rng, tier, names
        self.n = 0
        self.strat = {}
        # the MOV Rd, #imm pseudo instruction has no single DB row (the DB lists its three single-instruction aliases): synthetic entries
        self.entries = list(b["sup"])
        if "mov" in b["mn_id"]:
            for x in (False, True):
                self.entries.append({"row": {"name": "mov", "idx": -1 - int(x), "inst": "mov %s, #imm (pseudo instruction)" % ("Xd|SP" if x else "Wd|WSP"),
                                             "opstr": "MOVZ|MOVN|ORR|MOVZ+MOVK sequence", "cat": ["GP"], "ops": ["Xd" if x else "Wd", "#imm"]},
                                     "syn": [("SGp", x, 31, "Rd"), ("SMovImm", x)], "pseudo": True, "items": [], "fields": []})

    def mk(self, e, inst_id, groups, why, meta=None):
        ops = [o for g in groups for o in g]
        if len(ops) > 6:
            return None
        # CONSTRAINED UNPREDICTABLE combinations are encodable but llvm-mc refuses to assemble them: not generated
        gids = [o[2] for o in ops if o[0] == "g" and o[2] < 31]
        mems = [o for o in ops if o[0] == "m"]
        if mems and len(set(gids)) != len(gids):
            return None
        if any(m[6] != 0 and m[1] in gids for m in mems):
            return None
        cid = "c%d" % self.n
        self.n += 1
        r = e["row"]
        cmd = "E %s %d %d %d %s" % (cid, inst_id, self.b["mn_id"][r["name"]], len(ops), " ".join(tok(o) for o in ops))
        return {"id": cid, "entry": e, "ops": ops, "cmd": cmd.rstrip(), "why": why, "meta": meta}

    def phase1(self):
        cases = []
        for ei, e in enumerate(self.entries):
            r = e["row"]
            ids = self.names.get(asm_name(r["name"]))
            if not ids:
                e["no_inst_id"] = True
                continue
            inst_id = ids[-1] if ("ASIMD" in r["cat"] and len(ids) > 1) else ids[0]
            e["inst_id"] = inst_id
            isx = c02_rows.row_is_x(r)
            strat = []
            for pos, s in enumerate(e["syn"]):
                if s[0] == "SCond" and r["name"].endswith("<cond>"):
                    strat.append([[("k", c)] for c in [3] + list(range(1, 16))])      # cc 0 (AL) in the instruction id means "no condition"
                else:
                    strat.append(strata(s, pos, self.rng, self.tier, isx))
            self.strat[ei] = (inst_id, strat)
            seen = set()

            def add(groups, why, meta=None):
                c = self.mk(e, inst_id, groups, why, meta)
                if c is None or tuple(c["ops"]) in seen:
                    return
                seen.add(tuple(c["ops"]))
                cases.append(c)
            base = [st[0] for st in strat]
            add(base, "base", (ei, -1, 0))
            for j, st in enumerate(strat):
                for gi, g in enumerate(st[1:]):
                    add(base[:j] + [g] + base[j + 1:], "vary", (ei, j, gi + 1))
            # pairs: SP / ZR in a register position x every shift/extend modifier (the encoder switches between the shifted- and the
            # extended-register form on exactly this combination)
            for k, sk in enumerate(e["syn"]):
                if sk[0] in ("SExtReg", "SShift"):
                    for j, sj in enumerate(e["syn"][:k]):
                        if sj[0] == "SGp":
                            for rid in (31, 63):
                                for g in strat[k][1:]:
                                    add(base[:j] + [[("g", sj[1], rid)]] + base[j + 1:k] + [g] + base[k + 1:], "pair")
            if base:
                add(base[:-1], "drop-last")
                if sum(len(g) for g in base) < 4:       # _emit dispatches on the first four operands only
                    add(base + [[("i", 0, 0)]], "extra-imm")
        return cases

    def revalidation(self):
        """cases for the rows of corpus/C02/db_excluded.json: base + single variations, the model side evaluates that very row (command X)"""
        cases = []
        for e in self.b.get("exsup", []):
            r = e["row"]
            ids = self.names.get(asm_name(r["name"]))
            if not ids:
                continue
            inst_id = ids[-1] if ("ASIMD" in r["cat"] and len(ids) > 1) else ids[0]
            e["inst_id"] = inst_id
            isx = c02_rows.row_is_x(r)
            strat = [strata(s, pos, self.rng, "quick", isx) for pos, s in enumerate(e["syn"])]
            base = [st[0] for st in strat]
            groups = [base] + [base[:j] + [g] + base[j + 1:] for j, st in enumerate(strat) for g in st[1:6]]
            for g in groups:
                c = self.mk(e, inst_id, g, "revalidate")
                if c is not None:
                    c["mcmd"] = "X" + c["cmd"][1:].replace(" %d %d " % (inst_id, self.b["mn_id"][r["name"]]), " %d %d " % (r["idx"], self.b["mn_id"][r["name"]]), 1)
                    cases.append(c)
        return cases

    def phase2(self, good):
        """good: set of (entry index, syntax position, group index) whose single-variation case was accepted and right"""
        cases = []
        nrand = 8 if self.tier == "quick" else 120
        for ei, e in enumerate(self.entries):
            if ei not in self.strat or (ei, -1, 0) not in good:
                continue
            inst_id, strat = self.strat[ei]
            def same_row(j, g):
                # a register of the other width selects another row of the mnemonic: such strata are not combined (phase 1 covers them)
                sy = e["syn"][j]
                return not (sy[0] in ("SGp", "SGpDup") and any(o[0] == "g" and o[1] != sy[1] for o in g))
            pools = [[st[0]] + [g for gi, g in enumerate(st) if gi > 0 and (ei, j, gi) in good and same_row(j, g)] for j, st in enumerate(strat)]
            seen = set()
            for _ in range(nrand):
                c = self.mk(e, inst_id, [self.rng.choice(p) for p in pools], "random")
                if c is not None and tuple(c["ops"]) not in seen:
                    seen.add(tuple(c["ops"]))
                    cases.append(c)
        return cases


def asm_name(n):
    return n[:-len(".<cond>")] if n.endswith(".<cond>") else n


# ------------------------------------------------------------------ running things
def run_sharded(exe, lines, shards=16, timeout=1500):
    chunks = [lines[i::shards] for i in range(shards)]

    def one(chunk):
        if not chunk:
            return []
        rc, out, err = vlib.sh([exe], inp="\n".join(chunk) + "\n", timeout=timeout)
        res = out.split("\n")[:-1]
        if rc != 0 or len(res) != len(chunk):
            return ("ERR", rc, out[-300:] + err[-300:])
        return res
    with ThreadPoolExecutor(max_workers=shards) as ex:
        rs = list(ex.map(one, chunks))
    out = [None] * len(lines)
    for i, r in enumerate(rs):
        if isinstance(r, tuple):
            return r
        out[i::shards] = r
    return out


def run_llvm_mc(texts, shards=8):
    """texts: list of asm lines -> list of ('ok', [words]) | ('err', msg)"""
    chunks = [texts[i::shards] for i in range(shards)]

    def one(chunk):
        if not chunk:
            return []
        rc, out, err = vlib.sh(["llvm-mc", "-triple=aarch64", "-mattr=" + MATTR, "-show-encoding"], inp="\n".join(chunk) + "\n", timeout=1500)
        errs = {}
        for m in re.finditer(r"<stdin>:(\d+):\d+: error: ([^\n]*)", err):
            errs.setdefault(int(m.group(1)), m.group(2))
        encs = re.findall(r"encoding: \[([^\]]*)\]", out)
        res = []
        k = 0
        for ln in range(1, len(chunk) + 1):
            if ln in errs:
                res.append(("err", errs[ln]))
            else:
                if k >= len(encs):
                    return ("ERR", "llvm-mc output shorter than input: %s" % err[-300:])
                bs = [int(x, 16) for x in encs[k].split(",")]
                k += 1
                res.append(("ok", [bs[i] | (bs[i + 1] << 8) | (bs[i + 2] << 16) | (bs[i + 3] << 24) for i in range(0, len(bs), 4)]))
        if k != len(encs):
            return ("ERR", "llvm-mc produced %d encodings for %d accepted lines" % (len(encs), k))
        return res
    with ThreadPoolExecutor(max_workers=shards) as ex:
        rs = list(ex.map(one, chunks))
    out = [None] * len(texts)
    for i, r in enumerate(rs):
        if isinstance(r, tuple):
            return r
        out[i::shards] = r
    return out


def parse_impl(line):
    t = line.split()
    if len(t) < 2 or t[1] not in ("0", "1"):
        return {"bad": line}
    ok = t[1] == "1"
    return {"ok": ok, "err": int(t[2]), "words": [int(x) for x in t[4:]] if ok else []}


def parse_model(line):
    t = line.split()
    if len(t) < 2 or t[1] not in ("0", "1"):
        return {"bad": line}
    if t[1] == "0":
        return {"ok": False, "words": [], "row": None}
    return {"ok": True, "row": int(t[2]), "words": [int(x) for x in t[4:]]}


def encoding_names():
    src = open(os.path.join(vlib.REPO, "asmjit", "arm", "a64instdb_p.h")).read()
    m = re.search(r"enum EncodingId[^{]*\{(.*?)\};", src, re.S)
    return re.findall(r"kEncoding(\w+)", m.group(1)) if m else []


def slug(msg):
    return re.sub(r"[^a-z]+", "-", re.sub(r"\d+", "", msg.lower())).strip("-")[:60]


def operand_defect_key(case, enc_of):
    """canonical key of 'accepted although the operands have no encoding', from the STRUCTURE of the offending operand:
    (encoding class, operand position/kind)"""
    e = case["entry"]
    enc = enc_of.get(e.get("inst_id"), "?")
    for i, o in enumerate(case["ops"]):
        if o[0] == "g" and p_gp(o[1], o[2]) is None:
            return "C02/invalid-reg-id-accepted/%s/op%d" % (enc, i)
        if o[0] == "v" and not (0 <= o[4] <= 31):
            return "C02/invalid-reg-id-accepted/%s/op%d" % (enc, i)
        if o[0] == "m":
            if p_gp(True, o[1]) is None or o[1] == 63:
                return "C02/invalid-reg-id-accepted/%s/op%d-mem-base" % (enc, i)
            if o[2] is not None and (p_gp(o[2][0], o[2][1]) is None or o[2][1] == 31):
                return "C02/invalid-reg-id-accepted/%s/op%d-mem-index" % (enc, i)
            if o[2] is not None and any(sy[0] == "SMemPostReg" for sy in e["syn"]) and o[6] == 2 and o[5] == 0 and (not o[2][0] or o[3] != 0 or o[4] != 0):
                return "C02/post-index-register-width-or-shift-unchecked/%s" % enc
            if o[2] is not None and (o[6] != 0) and not any(sy[0] == "SMemPostReg" for sy in e["syn"]):
                return "C02/writeback-with-register-index-accepted/%s" % enc
            if o[2] is not None and o[3] in (0, 8, 12, 13) and o[2][0] != (o[3] in (0, 13)):
                return "C02/index-register-width-vs-extend-unchecked/%s" % enc
    # vector operands whose view / arrangement / lane differs from what the generating form has at that position
    i = 0
    for sy in e["syn"]:
        if i >= len(case["ops"]):
            break
        o = case["ops"][i]
        if sy[0] == "SShift":
            if o[0] == "i":
                i += 1
            continue
        if sy[0] == "SVec" and o[0] == "v" and (o[1] != sy[1] or o[2] != sy[2] or o[3] >= 0):
            return "C02/vector-operand-type-unchecked/%s/op%d" % (enc, i)
        if sy[0] == "SVecElem" and o[0] == "v":
            if o[1] != 4 or o[2] != sy[1] or o[3] < 0:
                return "C02/vector-operand-type-unchecked/%s/op%d" % (enc, i)
            if o[3] >= sy[6]:
                return "C02/lane-index-unchecked/%s/op%d" % (enc, i)
        if sy[0] == "SSysOp" and o[0] == "i" and 16384 <= o[2] < 32768:
            return "C02/sysop-id-above-14-bits-accepted/%s" % enc
        if sy[0] == "SGpPair" and i + 1 < len(case["ops"]) and o[0] == "g" and case["ops"][i + 1][0] == "g" and o[2] == 30 and case["ops"][i + 1][2] == 31:
            return "C02/pair-partner-of-r30-is-sp-instead-of-zr/%s" % enc
        if sy[0] == "SVecListElem":
            regs = case["ops"][i:i + sy[1]]
            if any(x[0] != "v" for x in regs) or len(regs) < sy[1]:
                return "C02/register-list-unchecked/%s" % enc
            if any(x[1] != 4 or x[2] != sy[2] or x[3] != regs[0][3] or x[3] < 0 for x in regs):
                return "C02/vector-operand-type-unchecked/%s/list" % enc
            if regs[0][3] >= sy[6]:
                return "C02/lane-index-unchecked/%s/op0" % enc
            if any((regs[0][4] + q) % 32 != regs[q][4] for q in range(len(regs))):
                return "C02/register-list-not-consecutive-accepted/%s" % enc
            i += sy[1]
            continue
        if sy[0] == "SVecList":
            regs = case["ops"][i:i + sy[1]]
            if any(x[0] != "v" for x in regs) or len(regs) < sy[1]:
                return "C02/register-list-unchecked/%s" % enc
            if any(x[1] != sy[2] or x[2] != sy[3] or x[3] >= 0 for x in regs):
                return "C02/vector-operand-type-unchecked/%s/list" % enc
            if any((regs[0][4] + q) % 32 != regs[q][4] for q in range(len(regs))):
                return "C02/register-list-not-consecutive-accepted/%s" % enc
            i += sy[1]
            continue
        if sy[0] in ("SVec", "SVecElem") and o[0] == "g":
            return "C02/vector-operand-type-unchecked/%s/op%d" % (enc, i)
        i += 2 if ((sy[0] in ("SBitfield",) and sy[1] != 2) or sy[0] == "SGpPair") else 1
    if any(s[0] == "SLogImm" for s in e["syn"]) and any(o[0] == "g" and not o[1] for o in case["ops"]) \
            and any(o[0] == "i" and not (-(1 << 32) <= o[2] < (1 << 32)) for o in case["ops"]):
        return "C02/logical-imm32-upper-bits-ignored/%s" % enc
    return None


class Judge:
    def __init__(self, ck, b, impl, model, names, enc_of):
        self.ck, self.b, self.impl, self.model, self.names, self.enc_of = ck, b, impl, model, names, enc_of
        self.by_name = {}
        for e in b["sup"]:
            self.by_name.setdefault(e["row"]["name"], []).append(e)
        self.entries_extra = []
        self.row_by_id = {e["row"]["idx"]: e["row"] for e in b["sup"]}
        # mnemonics of which the DB has forms the model does not support (incl. rows excluded as defective)
        self.partially_modelled = {r["name"] for r, _ in b["unsup"] if not (set(r["cat"]) & {"SVE", "SME"})}
        self.stats = {"impl_accepts": 0, "impl_refuses": 0, "model_accepts": 0, "agree": 0, "oracle_judged_accepts": 0, "oracle_unavailable": 0,
                      "impl_refuses_encodable": 0, "writeback_zero_normal_form": 0, "unprintable_refused": 0, "out_of_scope_shape": 0}
        self.by_why = {}
        self.rows_hit, self.rows_accept = set(), set()
        self.spurious, self.out_of_scope_accepted = {}, {}
        self.oracle_unknown_mn, self.oracle_unavail_rows = set(), set()
        self.nontrivial = set()
        self.samples = []
        self.good = set()
        self.ncases = 0
        self.crashed = False

    def evaluate(self, cases):
        ck = self.ck
        if not cases:
            return
        cmds = [c["cmd"] for c in cases]
        ri = run_sharded(self.impl, cmds)
        rm = run_sharded(self.model, cmds) if self.model else ("ERR", "no model")
        if isinstance(ri, tuple) or isinstance(rm, tuple):
            bad = ri if isinstance(ri, tuple) else rm
            ck.violation("C02/harness-crash", "harness or model driver failed: %s" % (bad,), {"detail": str(bad), "broken": "correspondence stream C02"}, no_input=True)
            self.crashed = True
            return
        texts, tix = [], []
        for i, c in enumerate(cases):
            c["asm"] = print_gnu_inst(self.by_name[c["entry"]["row"]["name"]], c["ops"])
            if c["asm"] is not None and c["asm"] is not INVALID:
                tix.append(i)
                texts.append(c["asm"])
        # mnemonics with an unscaled fall-back (LDR->LDUR, PRFM->PRFUM): llvm-mc converts some of them itself, not all; a second opinion on
        # the text with the fall-back mnemonic is asked and used when the first text is rejected
        alt_ix = [i for i in tix if cases[i]["entry"]["row"]["name"] in c02_rows.ALT_MNEMONIC]
        texts += [re.sub(r"^\S+", c02_rows.ALT_MNEMONIC[cases[i]["entry"]["row"]["name"]], cases[i]["asm"]) for i in alt_ix]
        ro = run_llvm_mc(texts) if texts else []
        if isinstance(ro, tuple):
            ck.violation("C02/oracle-crash", "llvm-mc run failed: %s" % (ro,), {"detail": str(ro), "broken": "oracle"}, no_input=True)
            self.crashed = True
            return
        for i, r in zip(tix, ro):
            cases[i]["oracle"] = r
        for i, r in zip(alt_ix, ro[len(tix):]):
            if cases[i]["oracle"][0] == "err" and r[0] == "ok":
                cases[i]["oracle"] = r
                cases[i]["asm"] = re.sub(r"^\S+", c02_rows.ALT_MNEMONIC[cases[i]["entry"]["row"]["name"]], cases[i]["asm"])
        # a row whose BASE case (accepted with equal words by implementation and specification) is rejected by llvm-mc is a form llvm-mc 14
        # does not know (newer extension): the oracle is unavailable for all its cases (counted, named in the evidence)
        for c, xi, xm in zip(cases, ri, rm):
            if c["why"] == "base" and c.get("oracle") is not None and c["oracle"][0] == "err":
                I, M = parse_impl(xi), parse_model(xm)
                if I.get("ok") and M.get("ok") and I["words"] == M["words"]:
                    self.oracle_unavail_rows.add(c["entry"]["row"]["idx"])
        for c, xi, xm in zip(cases, ri, rm):
            self.ncases += 1
            self.one(c, xi, xm)

    def revalidate(self, cases):
        """-> (rows that still disagree, rows examined). A recorded DB defect is confirmed when llvm-mc and the implementation agree on a
        word that the row does not give."""
        if not cases:
            return set(), set()
        ri = run_sharded(self.impl, [c["cmd"] for c in cases])
        rm = run_sharded(self.model, [c["mcmd"] for c in cases])
        if isinstance(ri, tuple) or isinstance(rm, tuple):
            self.ck.violation("C02/harness-crash", "revalidation run failed: %s" % ((ri if isinstance(ri, tuple) else rm),), {"broken": "revalidation stream"}, no_input=True)
            return set(), set()
        for c in cases:
            c["asm"] = print_gnu(c["entry"], c["ops"])
        tix = [i for i, c in enumerate(cases) if c["asm"] is not None and c["asm"] is not INVALID]
        ro = run_llvm_mc([cases[i]["asm"] for i in tix]) if tix else []
        if isinstance(ro, tuple):
            return set(), set()
        orc = dict(zip(tix, ro))
        still, seen = set(), set()
        for i, (c, xi, xm) in enumerate(zip(cases, ri, rm)):
            I, M = parse_impl(xi), parse_model(xm)
            key = c["entry"]["row"]["inst"] + " | " + c["entry"]["row"]["opstr"]
            seen.add(key)
            O = orc.get(i)
            if "bad" in I or "bad" in M or O is None or O[0] != "ok":
                continue
            if I["ok"] and O[1] == I["words"] and (not M["ok"] or M["words"] != I["words"]):
                still.add(key)
            elif I["ok"] and O[1] != I["words"]:
                # the row is outside the model (recorded DB defect), but the assembler and llvm-mc can still be compared directly
                enc = self.enc_of.get(c["entry"].get("inst_id"), "?")
                hexw = lambda ws: ["%08X" % w for w in ws]
                self.ck.violation("C02/wrong-encoding/%s/%s" % (enc, c["entry"]["row"]["name"]),
                                  "`%s`: a64::Assembler emitted %s, llvm-mc assembles it to %s (row excluded from the model as a database defect: compared with llvm-mc only)" % (
                                      c["asm"], hexw(I["words"]), hexw(O[1])), {"command": c["cmd"], "asm": c["asm"], "db_row": key})
        return still, seen

    def one(self, c, xi, xm):
        ck, stats, enc_of = self.ck, self.stats, self.enc_of
        I, M = parse_impl(xi), parse_model(xm)
        e = c["entry"]; r = e["row"]
        self.rows_hit.add(r["idx"])
        self.by_why[c["why"]] = self.by_why.get(c["why"], 0) + 1
        rep = {"command": c["cmd"], "asm": None if c["asm"] is INVALID else c["asm"], "impl": xi, "model": xm, "db_row": r["inst"] + " | " + r["opstr"]}
        if "bad" in I or "bad" in M:
            ck.violation("C02/protocol/%s" % (I.get("bad") or M.get("bad")).split()[-1], "harness/model answered %r / %r to %r" % (xi, xm, c["cmd"]),
                         dict(rep, broken="correspondence stream C02"), no_input=True)
            return
        O = c.get("oracle")
        if c["asm"] is None:
            # operand shape of no modelled form of this mnemonic (either the DB has more forms of the mnemonic than the model supports,
            # or AsmJit offers an alias the DB does not list): outside the scope of the model, counted
            stats["out_of_scope_shape"] += 1
            if I.get("ok"):
                self.out_of_scope_accepted[r["name"]] = self.out_of_scope_accepted.get(r["name"], 0) + 1
            return
        ounknown = (O is not None and O[0] == "err" and any(s in O[1] for s in ORACLE_UNKNOWN)) or r["idx"] in self.oracle_unavail_rows
        if ounknown:
            self.oracle_unknown_mn.add(r["name"])
        stats["impl_accepts" if I["ok"] else "impl_refuses"] += 1
        if M["ok"]:
            stats["model_accepts"] += 1
            self.rows_accept.add(M["row"])
        if I["ok"] and any(o[0] == "m" and o[2] is None and o[6] in (1, 2) and o[5] == 0 for o in c["ops"]) and any(s[0] == "SMemPair" and s[7] for s in e["syn"]):
            stats["writeback_zero_normal_form"] += 1
        enc = enc_of.get(e.get("inst_id"), "?")
        hexw = lambda ws: ["%08X" % w for w in ws]
        # --- independent judgement of the implementation's answer (always)
        verdict = None
        if e.get("pseudo") and c["asm"] is not None and len(c["ops"]) == 2 and c["ops"][0][0] == "g" and c["ops"][1][0] == "i":
            verdict = self.judge_mov_imm(c, I, O, enc)
            if I["ok"]:
                self.nontrivial.add((r["idx"], tuple(I["words"])))
                if verdict is None:
                    stats["oracle_judged_accepts"] += 1
        elif I["ok"]:
            self.nontrivial.add((r["idx"], tuple(I["words"])))
            if c["asm"] is INVALID:
                key = operand_defect_key(c, enc_of) or "C02/accepts-unencodable-operands/%s/%s" % (enc, r["name"])
                verdict = (key, "a64::Assembler accepted %s operands %s that have no architectural encoding and emitted %s" % (r["name"], [tok(o) for o in c["ops"]], hexw(I["words"])))
            elif ounknown:
                stats["oracle_unavailable"] += 1
                if not M["ok"] or M["words"] != I["words"]:
                    # llvm-mc 14 cannot judge this form; the ISA-database specification (independent of the C++ encoder) can
                    verdict = (operand_defect_key(c, enc_of) or "C02/isa-db-judged/%s/%s" % (enc, r["name"]),
                               "a64::Assembler accepted `%s` and emitted %s; the form `%s` of the ISA database %s (llvm-mc 14 cannot judge: %s)" % (
                                   c["asm"], hexw(I["words"]), r["inst"], "does not admit these operands" if not M["ok"] else "gives %s" % hexw(M["words"]), O[1] if O else "-"))
            elif O[0] == "err":
                key = operand_defect_key(c, enc_of) or "C02/accepts-what-llvm-mc-rejects/%s/%s/%s" % (enc, r["name"], slug(O[1]))
                verdict = (key, "a64::Assembler accepted `%s` and emitted %s; llvm-mc rejects it: %s" % (c["asm"], hexw(I["words"]), O[1]))
            else:
                stats["oracle_judged_accepts"] += 1
                if O[1] != I["words"]:
                    verdict = ("C02/wrong-encoding/%s/%s" % (enc, r["name"]), "`%s`: a64::Assembler emitted %s, llvm-mc assembles it to %s" % (c["asm"], hexw(I["words"]), hexw(O[1])))
        else:
            if c["asm"] is INVALID:
                stats["unprintable_refused"] += 1
            elif O is not None and O[0] == "ok":
                stats["impl_refuses_encodable"] += 1
                k = "%s: %s" % (r["name"], re.sub(r"\d+", "N", c["asm"]))
                self.spurious[k] = self.spurious.get(k, 0) + 1
        if verdict is not None:
            if c["why"] == "random" and verdict[0].startswith(("C02/accepts-what-llvm-mc-rejects/", "C02/accepts-unencodable-operands/", "C02/isa-db-judged/")):
                # every operand of a phase-2 case was accepted and right on its own in phase 1: the defect is in the COMBINATION; the
                # canonical key is the encoding class (the particular combination found depends on the seed)
                verdict = ("C02/operand-combination-accepted/%s" % enc, verdict[1])
            if os.environ.get("C02_SHOW") and os.environ["C02_SHOW"] in verdict[0]:
                print("C02_SHOW:", verdict[0], "|", verdict[1], "|", c["cmd"], flush=True)     # debugging aid: the CURRENT input behind a (known) key
            ck.violation(verdict[0], verdict[1] + " [specification: %s]" % xm, rep)
        # --- correspondence implementation vs proven specification
        same = (I["ok"] == M["ok"]) and (not I["ok"] or I["words"] == M["words"])
        if same:
            stats["agree"] += 1
            if I["ok"] and verdict is None and c.get("meta") is not None:
                self.good.add(c["meta"])
        elif verdict is None:
            if not I["ok"] and M["ok"]:
                # the implementation refuses something the specification can encode: never a wrong encoding; counted, not a violation —
                # unless the independent assembler shows that the SPECIFICATION row is wrong
                if O is not None and O[0] == "ok" and O[1] != M["words"]:
                    ck.violation("C02/db-row-disagrees/%s | %s" % (r["inst"], r["opstr"]), "specification row `%s` gives %s for `%s`, llvm-mc gives %s (AsmJit refuses it)" % (
                        r["inst"], hexw(M["words"]), c["asm"], hexw(O[1])), dict(rep, broken="DB row / specification"), no_input=True)
            elif not M["ok"] and r["name"] in self.partially_modelled and O is not None and O[0] == "ok" and O[1] == I["words"]:
                # accepted by implementation and llvm-mc with the same word, not admitted by any MODELLED form of the mnemonic, and the DB has
                # further forms of this mnemonic that the model does not support: outside the scope of the model (counted)
                stats["out_of_scope_shape"] += 1
            else:
                # the implementation accepted, the independent assembler agrees with it, the specification differs: the DB row (or the
                # model of its operand syntax) is wrong -- no failing input of the property itself
                br = self.row_by_id.get(M.get("row"), r) if M["ok"] else r        # the row the specification used
                ck.violation("C02/db-row-disagrees/%s | %s" % (br["inst"], br["opstr"]),
                             "a64::Assembler and the specification derived from the ISA database disagree on `%s`: impl %s, spec %s, llvm-mc %s" % (c["asm"], xi, xm, O),
                             dict(rep, db_row=br["inst"] + " | " + br["opstr"], broken="correspondence of A64Sem/IsaA64Db with /repo (DB row or model of its operand syntax)"), no_input=True)
        if len(self.samples) < 8 and c["why"] == "base" and I["ok"] and (self.ncases % 97 == 1 or len(self.samples) < 2):
            self.samples.append({"asm": c["asm"], "impl": hexw(I["words"]), "spec_row": M.get("row"), "llvm_mc": hexw(O[1]) if O and O[0] == "ok" else None})


def exec_mov_words(words, x):
    """architectural execution of MOVZ/MOVN/MOVK/ORR-immediate words on one destination register -> (rd field, value) or None"""
    import checks.c17 as c17
    if len(words) == 1 and (words[0] >> 23) & 0x3F == 0x24 and (words[0] >> 29) & 3 == 1 and (words[0] >> 5) & 31 == 31:
        w = words[0]
        sf = w >> 31
        if sf != (1 if x else 0):
            return None
        v = c17.decode_bit_masks((w >> 22) & 1, (w >> 10) & 63, (w >> 16) & 63, 64 if sf else 32)
        return None if v is None else ("orr", w & 31, v)
    outs = set()
    for init in (0, (1 << 64) - 1, 0x123456789ABCDEF0):
        v = c17.run_movwide(words, init)
        if v is None:
            return None
        outs.add(v)
    if len(outs) != 1 or len({w & 31 for w in words}) != 1:
        return None
    return ("movw", words[0] & 31, outs.pop())


def judge_mov_imm(self, c, I, O, enc):
    """MOV Rd, #imm: the words must load the value (by execution), into the right register; SP only through ORR; a single word must be
    what llvm-mc assembles for the alias when llvm-mc accepts it"""
    x, rid = c["ops"][0][1], c["ops"][0][2]
    v = c["ops"][1][2]
    m = 64 if x else 32
    if not I["ok"]:
        return None
    hexw = ["%08X" % w for w in I["words"]]
    if c["asm"] is INVALID:
        return (operand_defect_key(c, self.enc_of) or "C02/accepts-unencodable-operands/%s/mov" % enc, "a64::Assembler accepted mov with register id %d and emitted %s" % (rid, hexw))
    if not x and not (-(1 << 32) <= v < (1 << 32)):
        return ("C02/mov-imm32-upper-bits-ignored/%s" % enc, "a64::Assembler accepted `%s` (the value does not fit 32 bits) and emitted %s" % (c["asm"], hexw))
    val = v & ((1 << m) - 1)
    ex = exec_mov_words(I["words"], x)
    if ex is None:
        return ("C02/wrong-encoding/%s/mov" % enc, "`%s`: a64::Assembler emitted %s, which is not a MOVZ/MOVN(+MOVK) sequence or an ORR-immediate on one register" % (c["asm"], hexw))
    kind, rdf, got = ex
    want_rd = rid & 31
    if got != val or rdf != want_rd or (rid == 31 and kind != "orr") or (rid == 63 and kind == "orr"):
        return ("C02/wrong-encoding/%s/mov" % enc, "`%s`: a64::Assembler emitted %s, which loads %#x into register field %d (%s) instead of %#x into %d" % (
            c["asm"], hexw, got, rdf, kind, val, want_rd))
    # (a single word need not be the alias llvm-mc prefers: MOVN #0xFFFF and MOVZ #0xFFFF, lsl #16 both load 0xFFFF0000 into a W register)
    return None


Judge.judge_mov_imm = judge_mov_imm


def regen_own(ck, files, order, timeout=900):
    """Translator tie restricted to C02's own generated files (vlib.coq_regen recompiles EVERY file of coq/gen, which takes minutes since the
    other properties' tables live there too): if every text equals the committed coq/gen/<name> -> None; else the texts are written to a
    scratch directory and compiled there in `order` with -Q <dir> VerifGen (only these files are visible as VerifGen.*, which is all that
    Properties_C02*.v and Extract_A64.v import). Returns (gen_dir, failed_files, log)."""
    import shutil
    gen = os.path.join(vlib.COQ, "gen")
    if all(os.path.exists(os.path.join(gen, n)) and open(os.path.join(gen, n)).read() == t for n, t in files.items()):
        return None
    wgen = os.path.join(ck.work, "gen")
    shutil.rmtree(wgen, ignore_errors=True)
    os.makedirs(wgen)
    for n, t in files.items():
        open(os.path.join(wgen, n), "w").write(t)
    args = ["-Q", os.path.join(vlib.COQ, "theories"), "Verif", "-Q", wgen, "VerifGen", "-w", "-all"]
    failed, log = [], ""
    for n in order:
        rc, out, err = vlib.sh(["coqc"] + args + [os.path.join(wgen, n)], cwd=wgen, timeout=timeout)
        if rc != 0:
            failed.append(n)
            log += (out + err)[-3000:]
    return wgen, failed, log


def run(ck):
    rng = random.Random(ck.seed)
    # ---------------- S1 translator
    b = c02_rows.build()
    ck.log("ISA DB rows: %d, supported by the model: %d, unsupported: %d, overrides applied: %d" % (len(b["rows"]), len(b["sup"]), len(b["unsup"]), len(b["applied"])))
    tb = c02_tables.build(ck, b)
    ck.log("EncodingData opcode constants: %d dumped, %d compared with their database rows (%s not covered, %d without supported rows)" % (
        tb["dumped"], tb["entries"], sum(tb["classes_not_covered"].values()), tb["without_supported_rows"]))
    regen = regen_own(ck, {"IsaA64Db.v": b["coq"], "A64Tables.v": tb["coq"], "IsaA64Disjoint.v": b["coq_disjoint"]}, ["IsaA64Db.v", "A64Tables.v", "IsaA64Disjoint.v"])
    gen_dir, regen_failed, rlog = None, [], ""
    if regen is not None:
        gen_dir, regen_failed, rlog = regen
        ck.log("ISA database differs from the committed snapshot: regenerated IsaA64Db.v, failed files: %s" % regen_failed)
    # ---------------- S2 theorems
    obl = ck.coq_properties(gen_dir=gen_dir)
    obl += ck.coq_properties(module="Properties_C02_tables", gen_dir=gen_dir)
    obl += ck.coq_properties(module="Properties_C02_disjoint", gen_dir=gen_dir)
    ck.log("theorems: %d, failed: %d" % (len(obl), len([o for o in obl if not o["ok"]])))
    # ---------------- S3 executables
    impl = ck.build_harness("c02", ["c02_harness.cpp"])
    model = None
    if "IsaA64Db.v" not in regen_failed:
        model = ck.ocaml_model("Extract_A64.v", ["zconv.ml", "c02_driver.ml"], name="c02", gen_dir=gen_dir)
    rc, out, err = vlib.sh([impl, "--names"], timeout=60)
    encn = encoding_names()
    names, enc_of = {}, {}
    for ln in out.splitlines():
        t = ln.split()
        names.setdefault(t[1], []).append(int(t[0]))
        enc_of[int(t[0])] = encn[int(t[2])] if int(t[2]) < len(encn) else "enc%s" % t[2]

    if ck.replay:
        rp = json.load(open(ck.replay))["replay"]
        cmd = rp.get("command")
        print("input :", cmd, "|", rp.get("asm"), "|", rp.get("db_row"))
        if cmd:
            print(" impl :", vlib.sh([impl], inp=cmd + "\n")[1].strip())
            if model:
                print(" spec :", vlib.sh([model], inp=cmd + "\n")[1].strip())
        if rp.get("asm"):
            print(" llvm-mc:", run_llvm_mc([rp["asm"]], shards=1))
        return 0

    gen = Gen(b, rng, ck.tier, names)
    J = Judge(ck, b, impl, model, names, enc_of)
    for e in gen.entries[len(b["sup"]):]:
        J.by_name.setdefault(e["row"]["name"], []).append(e)
    p1 = gen.phase1()
    ck.log("phase 1: %d cases over %d rows" % (len(p1), len(b["sup"])))
    J.evaluate(p1)
    p2 = [] if J.crashed else gen.phase2(J.good)
    ck.log("phase 2: %d random combinations of accepted strata" % len(p2))
    J.evaluate(p2)
    stats = J.stats
    # applied DB overrides are defects of the database: reported (known findings)
    for o in b["applied"]:
        ck.violation(o["key"], o["why"], {"db_row": o["inst"] + " | " + o["op"], "corrected": o})
    still, seen = J.revalidate(gen.revalidation()) if not J.crashed else (set(), set())
    stale = []
    for o in b["excluded"]:
        k = o["inst"] + " | " + o["op"]
        if k in seen and k not in still:
            stale.append(k)
            ck.violation("C02/stale-db-exclusion/" + k, "row `%s` is listed in corpus/C02/db_excluded.json but no longer disagrees with a64::Assembler and llvm-mc on the "
                         "re-validation cases: remove it from the list so that the model covers it" % k, {"db_row": k, "broken": "corpus/C02/db_excluded.json (stale entry)"}, no_input=True)
        else:
            ck.violation(o["key"], o["why"], {"db_row": k, "excluded": True})
    ck.log("re-validated %d excluded DB rows: %d still disagree, %d stale, %d not examinable" % (len(b["excluded"]), len(still), len(stale), len(b["excluded"]) - len(seen)))
    # rows of DIFFERENT mnemonics that no fixed bit separates must be reviewed aliases (corpus/C02/overlap_mnemonic_pairs.txt)
    pth = os.path.join(vlib.VERIF, "corpus", "C02", "overlap_mnemonic_pairs.txt")
    known_pairs = {ln.strip() for ln in open(pth) if ln.strip() and not ln.startswith("#")} if os.path.exists(pth) else None
    if known_pairs is not None:
        inst_of = {e["row"]["idx"]: e["row"]["inst"] for e in b["sup"]}
        for p in b["overlap"]:
            k = "%s/%s" % tuple(sorted((p[3], p[4])))
            if p[2] != 0 and k not in known_pairs:
                fx = {e["row"]["idx"]: c02_rows.row_fixed(e) for e in b["sup"] if e["row"]["idx"] in (p[0], p[1])}
                wit = fx[p[0]][0] | fx[p[1]][0]        # a word carrying the fixed bits of both rows (all fields zero)
                ck.violation("C02/unrecorded-row-overlap/" + k, "database rows `%s` and `%s` (different mnemonics) admit the same words: no fixed bit separates them and the "
                             "pair is not a reviewed alias of corpus/C02/overlap_mnemonic_pairs.txt; witness word %08X matches the fixed bits of both "
                             "(`echo 0x%02x 0x%02x 0x%02x 0x%02x | llvm-mc --disassemble -triple=aarch64` names the architectural instruction)" % (
                                 inst_of[p[0]], inst_of[p[1]], wit, wit & 255, (wit >> 8) & 255, (wit >> 16) & 255, wit >> 24),
                             {"db_rows": [inst_of[p[0]], inst_of[p[1]]], "witness_word": "%08X" % wit, "broken": "db/isa_aarch64.json or the alias list"}, no_input=True)
    for o in ck.proof_failures():
        ck.violation("C02/proof/" + o["name"], "theorem %s no longer checks (%s)" % (o["name"], getattr(ck, "coq_log", "")[-800:]),
                     {"broken": "theorem " + o["name"], "file": "coq/theories/Properties/Properties_C02*.v"}, no_input=True)
    for f in regen_failed:
        if f == "A64Tables.v":
            bad = c02_tables.disagreeing(tb, b)
            ck.violation("C02/translator/A64Tables.v", "the opcode constants of the EncodingData tables no longer agree with the fixed bits of the database rows "
                         "(reflection lemma enc_table_agrees fails): %s" % "; ".join(bad[:8]), {"broken": "enc_table_agrees in coq/gen/A64Tables.v (C02_tables_agree_db_partial)", "entries": bad[:40]}, no_input=True)
        else:
            ck.violation("C02/translator/" + f, "regenerated %s does not compile (a DB row is not well formed): %s" % (f, rlog[-800:]),
                         {"broken": "reflection lemma rows_wf in coq/gen/" + f}, no_input=True)
    unsup = {}
    for r, reason in b["unsup"]:
        kk = re.sub(r"(operand syntax|immediate transformation|field) .*", r"\1", reason)
        unsup[kk] = unsup.get(kk, 0) + 1
    gp_rows = [r for r in b["rows"] if "GP" in r["cat"]]
    simd_rows = [r for r in b["rows"] if "ASIMD" in r["cat"]]
    cov = {
        "evaluations": J.ncases, "distinct_nontrivial": len(J.nontrivial),
        "rule": "one case = one a64::Assembler::_emit call; phase 1 per supported DB row: base operands, every stratum of every operand syntax with the "
                "others at base (register ids {0,1,15,16,29,30,31,63,32,62}, wrong register width, immediates 0/1/max/max+1/-1, condition codes 0..17, "
                "every shift/extend kind x boundary amounts, offsets at both limits, one step outside, misaligned, branch distances at +-limit), operand-count "
                "perturbations; phase 2: random combinations of the strata phase 1 found accepted and right; non-trivial = distinct (row, emitted words) "
                "pairs the implementation accepted",
        "example_cases": J.samples, "stats": stats, "cases_by_kind": J.by_why,
        "proved_vs_compared": {
            "proved_for_all_operands": "the theorems listed under `theorems` (Coq, closed): about the Gallina specification built from the database rows - all rows, all operands",
            "regenerated_every_run": "database rows -> IsaA64Db.v, row-pair disjointness -> IsaA64Disjoint.v, EncodingData constants and source literals -> A64Tables.v (reflection lemmas re-checked when they differ from the committed snapshot)",
            "compared_on_generated_cases_only": "a64::Assembler words / refusals vs the extracted specification vs llvm-mc: %d cases of this run (deterministic strata per operand syntax at the proofs' case-split boundaries, pair strata, seeded random combinations); not a proof about the C++ code" % J.ncases},
        "db_rows_total": len(b["rows"]), "db_rows_supported": len(b["sup"]), "db_rows_exercised": len(J.rows_hit), "db_rows_with_accepted_case": len(J.rows_accept),
        "gp_rows_total": len(gp_rows), "gp_rows_supported": len([e for e in b["sup"] if "GP" in e["row"]["cat"]]),
        "simd_rows_total": len(simd_rows), "simd_rows_supported": len([e for e in b["sup"] if "ASIMD" in e["row"]["cat"]]),
        "unsupported": unsup, "unsupported_gp_rows": sorted({r["inst"] for r, _ in b["unsup"] if "GP" in r["cat"]}),
        "oracle_unknown_mnemonics": sorted(J.oracle_unknown_mn), "oracle_unavailable_rows": len(J.oracle_unavail_rows),
        "impl_refuses_encodable_by_form": dict(sorted(J.spurious.items(), key=lambda x: -x[1])[:60]),
        "out_of_scope_shapes_accepted_by_impl": J.out_of_scope_accepted,
        "encoding_tables": {"table_words_dumped": tb["dumped"], "entries_compared_with_db_rows": tb["entries"], "instructions_covered": tb["instructions_covered"], "literal_opcode_entries": tb["literal_entries"],
                            "instructions_total": 774, "classes_not_covered": tb["classes_not_covered"],
                            "without_supported_rows": tb["without_supported_rows"]},
        "completeness": {"rows_with_simple_template (C02_tmpl_complete_simple)": int(re.search(r"simple_rows_count : Z := (\d+)", b["coq"]).group(1)),
                         "rows_with_image_characterised (C02_image_characterised)": int(re.search(r"bij_rows_count : Z := (\d+)", b["coq"]).group(1)),
                         "rows_total": len(b["sup"])},
        "rows_disjoint": {"row_pairs": len(b["sup"]) * (len(b["sup"]) - 1) // 2, "pairs_not_separated_by_fixed_bits": len(b["overlap"]),
                          "same_mnemonic": len([p for p in b["overlap"] if p[2] == 0]), "db_aliasOf": len([p for p in b["overlap"] if p[2] == 1]),
                          "other_mnemonic_pairs": sorted({"%s/%s" % tuple(sorted((p[3], p[4]))) for p in b["overlap"] if p[2] == 2})},
        "db_overrides_applied": [o["key"] for o in b["applied"]], "db_rows_excluded_as_defective": len(b["excluded"]),
        "db_exclusions_revalidated": {"still_disagree": len(still), "stale": len(stale), "not_examinable": len(b["excluded"]) - len(seen)},
        "traces_validated_against_impl": J.ncases, "model_vs_impl_disagreements": J.ncases - stats["agree"] - stats["out_of_scope_shape"],
    }
    min_rows = 0
    p = os.path.join(vlib.VERIF, "corpus", "C02", "min_supported_rows.txt")
    if os.path.exists(p):
        min_rows = int(open(p).read().split()[0])
    if len(b["sup"]) < min_rows:
        print("HARNESS-ERROR: supported DB rows %d fell below the number recorded at claim time (%d)" % (len(b["sup"]), min_rows))
        ck.finish("proof", cov)
        return 2
    return ck.finish(
        "proof", cov,
        assumptions=["theorems are about the Gallina specification (A64Tmpl/A64Sem over the generated DB rows); the specification is tied to the "
                     "C++ encoder by the differential run of this check on the generated cases (not for all operands)",
                     "the ISA database is read through the repository's own db/index.js; operand-syntax parsing is tools/c02_rows.py; rows recorded as "
                     "defective in corpus/C02/db_overrides.json are replaced by their corrected text (each reported as a known finding)",
                     "operand semantics (register numbering, SP/ZR rules, immediate ranges, scaling) were written by hand from the ARM ARM and are "
                     "cross-checked against llvm-mc 14 on every case it knows",
                     "write-back addressing with a zero offset on LDP/STP-class instructions and on no-offset forms is treated as its normal form (plain word)"],
        checker_cmd="coqc (Coq 8.16.1) -Q coq/theories Verif -Q coq/gen VerifGen coq/theories/Properties/Properties_C02.v [full .vo build of its dependencies; coq/gen/IsaA64Db.v regenerated from /repo/db]",
        trusted_base=["Coq 8.16.1 kernel incl. vm_compute (no native_compute)", "no axioms: every theorem 'Closed under the global context'",
                      "extraction (ExtrOcamlBasic only) + OCaml 4.13.1 + zarith glue in ml/zconv.ml",
                      "tools/c02_tr_isa.js + /repo/db/*.js, tools/c02_rows.py (translator), harness/c02_harness.cpp, tools/checks/c02.py (generator, GNU printer, differ)",
                      "llvm-mc 14 as the independent assembler"])

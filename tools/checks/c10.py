"""C10 — Sections are laid out without overlap and the flattened image is exact.

S2 theorems  : coq/theories/Properties/Properties_C10.v (re-checked by coqc on every run) about the Gallina model
               coq/theories/Sections/SectionModel.v (new_section / flatten / code_size / copy_* / address-table shrink)
S3 tie       : harness/c10_harness.cpp drives the REAL CodeHolder of /repo's working tree; the extracted model
               (coq/extract/Extract_Sections.v + ml/c10_driver.ml) consumes the SAME scenario stream; answers are diffed
S4 search    : an independent python monitor (this file, `judge`) checks the property itself on every answer of the
               implementation: alignment, order, disjointness, code_size = layout end, exact image with guard bands,
               refusal of small destinations, estimate >= final size.  It never looks at the model's answers.
"""
import os
import shutil
import random
import json
import vlib
from concurrent.futures import ThreadPoolExecutor

W64 = 1 << 64
SIZE_MAX = W64 - 1
INT_MIN, INT_MAX = -(1 << 31), (1 << 31) - 1
CALL_LEN = 6          # x86-64 `call abs`: REX placeholder + E8 + rel32 (relocation kind kX64AddressEntry)
TEXT_NAME = b".text"


def pattern(seed, k):
    return (seed * 131 + k * 29 + (k >> 8) * 7) % 255 + 1


def hexname(b):
    return b.hex() if b else "-"


# ---------------------------------------------------------------------------------------------- generator
ALIGN_POW = [1, 2, 4, 8, 16, 32, 64, 128, 256, 512, 1024, 4096, 16384, 65536]
ALIGN_BIG = [1 << 20, 1 << 24, 1 << 31]
ALIGN_BAD = [3, 5, 6, 12, 100, 65535, 65537, (1 << 32) - 1, (1 << 31) + 1]
ORDERS = [INT_MIN, INT_MIN, -1000, -5, -2, -1, 0, 0, 0, 0, 1, 1, 2, 5, 1000, INT_MAX, INT_MAX]


def gen_name(rng, pool):
    r = rng.random()
    if r < 0.15 and pool:
        return rng.choice(pool)                      # duplicate name
    if r < 0.20:
        return b""
    if r < 0.27:
        n = rng.choice([36, 37, 40, 64])              # too long
        return bytes(rng.randrange(1, 256) for _ in range(n))
    if r < 0.33:
        n = rng.randrange(2, 12)                      # embedded NUL
        b = bytearray(rng.randrange(1, 256) for _ in range(n))
        b[rng.randrange(0, n)] = 0
        return bytes(b)
    if r < 0.45:
        return bytes(rng.randrange(1, 256) for _ in range(rng.choice([34, 35, 35])))
    if r < 0.55 and pool:
        p = rng.choice(pool)                          # prefix / extension of an existing name
        return p[:max(0, len(p) - 1)] if rng.random() < 0.5 else (p + b"x")[:35]
    n = rng.randrange(1, 12)
    return bytes(rng.choice(b".abcdetxrodatabss_0123") for _ in range(n))


def gen_align(rng, allow_bad=True, big=0.03):
    r = rng.random()
    if allow_bad and r < 0.05:
        return rng.choice(ALIGN_BAD)
    if r < 0.05 + big:
        return rng.choice(ALIGN_BIG)
    if r < 0.15:
        return 0
    if r < 0.22:
        return rng.choice([4096, 16384, 65536])
    return rng.choice(ALIGN_POW[:8])


def gen_sizes(rng, big_ok=True):
    """(bsize, vsize) of one section: empty / code / virtual-only / both / vsize below bsize"""
    r = rng.random()
    if r < 0.30:
        return 0, 0
    if r < 0.55:
        return rng.choice([1, 2, 3, 5, 7, 8, 15, 16, 17, 63, 64, 65, rng.randrange(1, 300)]), 0
    if r < 0.70:
        return 0, rng.choice([1, 7, 8, 64, rng.randrange(1, 5000)])
    if r < 0.85:
        b = rng.randrange(1, 200)
        return b, b + rng.randrange(1, 300)
    b = rng.randrange(2, 200)
    return b, rng.randrange(1, b + 1)


def layout_end(secs):
    """ideal (unbounded) end of the layout of secs = [(align, b, v)] in order; used only to pick destination sizes"""
    off = 0
    for al, b, v in secs:
        rs = max(b, v)
        if rs:
            a = max(al, 1)
            off = (off + a - 1) // a * a + rs
    return off


def gen_layout(rng, tier, counters):
    ops = []
    if rng.random() < 0.12:
        ops.append("D %d" % rng.choice([50, 200, 400]))
        counters["dirty_arena"] += 1
    r = rng.random()
    if r < 0.08:
        nsec = rng.randrange(8, 64) if (tier == "thorough" or r < 0.02) else rng.randrange(8, 20)
    else:
        nsec = rng.choice([0, 1, 1, 2, 2, 3, 3, 4, 5, 6, 7])
    secs = {0: dict(id=0, order=INT_MIN, align=0, b=0, v=0, name=TEXT_NAME)}
    pool = []
    big_layout = rng.random() < 0.05     # images up to 4 MiB: the model copies on run-length chunks (ChunkModel.v), cost independent of the size
    for _ in range(nsec):
        nm = gen_name(rng, pool)
        al = gen_align(rng, big=0.0 if not big_layout else 0.05)
        if big_layout and rng.random() < 0.5:
            al = rng.choice([4096, 65536, 65536, 1 << 18, 1 << 20])
        if not big_layout and al > 4096 and rng.random() < 0.7:
            al = rng.choice(ALIGN_POW[:8])
        order = rng.choice(ORDERS) if rng.random() < 0.85 else rng.randrange(INT_MIN, INT_MAX + 1)
        if rng.random() < 0.3:
            ops.append("Ns %s %d %d" % (hexname(nm), al, order))      # name_size = SIZE_MAX: strlen
            nm = nm.split(b"\0")[0]
            counters["name_strlen"] += 1
        else:
            ops.append("N %s %d %d" % (hexname(nm), al, order))
        counters["name_len_%s" % ("35" if len(nm) == 35 else "36" if len(nm) == 36 else "gt36" if len(nm) > 36 else "other")] += 1
        ok = (al == 0 or (al & (al - 1)) == 0) and len(nm) <= 35
        if ok:
            sid = len(secs)
            secs[sid] = dict(id=sid, order=order, align=al or 1, b=0, v=0, name=nm)
            pool.append(nm)
            counters["align_class_%s" % ("1" if al <= 1 else "le64" if al <= 64 else "le64k" if al <= 65536 else "big")] += 1
        else:
            counters["new_section_rejected"] += 1
    for sid in secs:
        b, v = gen_sizes(rng)
        if b or v:
            secs[sid]["b"], secs[sid]["v"] = b, v
            ops.append("Z %d %d %d %d" % (sid, b, v, rng.randrange(1, 100000)))
        kind = "empty" if not (b or v) else "code" if v <= b and b else "virtual_only" if not b else "code_plus_virtual"
        counters["section_" + kind] += 1
    for _ in range(rng.choice([0, 0, 1, 2])):
        ops.append("G %d %d %d" % (rng.choice(sorted(secs)), rng.choice([0, 1, 2, 4, 8, 3, 0x4000, 0x8000, 6]), rng.choice([0, 1, 2, 4, 8, 3, 5, 0x4000, 0xC000])))
        counters["section_flag_ops"] += 1
    ops += ["I", "L"]
    for nm in rng.sample(pool, min(len(pool), 3)) + [TEXT_NAME, b".nope", gen_name(rng, pool)]:
        ops.append("%s %s" % ("Bs" if rng.random() < 0.3 else "B", hexname(nm)))
    if rng.random() < 0.1:
        ops.append("P %d %d" % (rng.choice([0, 16, 100]), rng.randrange(4)))     # before flatten: offsets unassigned
        counters["copy_unflattened"] += 1
    ops += ["C", "F", "L", "C"]
    order = sorted(secs.values(), key=lambda s: (s["order"], s["id"]))
    need = layout_end([(s["align"], s["b"], s["v"]) for s in order])
    # smallest destination that can hold every buffer
    off = 0
    fit = 0
    for s in order:
        rs = max(s["b"], s["v"])
        if rs:
            a = max(s["align"], 1)
            off = (off + a - 1) // a * a
        if s["b"]:
            fit = max(fit, off + s["b"])
        off += rs
    if need <= (1 << 22):
        sizes = [need] * 4 + [need + 1, need + 4096, fit, rng.randrange(0, need + 2)]
        if need:
            sizes += [need - 1, 0]
        if fit:
            sizes += [fit - 1]
        if need > 200000:
            sizes = [need, need + 1, max(fit - 1, 0), max(need - 1, 0)]     # the python monitor still handles whole images
            counters["big_image_%s" % ("le1M" if need <= (1 << 20) else "le4M")] += 1
        elif need > 20000:
            counters["medium_image"] += 1
        flags_cycle = [0, 1, 2, 3]
        rng.shuffle(flags_cycle)
        for i, n in enumerate(sizes):
            fl = flags_cycle[i % 4]
            ops.append("P %d %d" % (max(n, 0), fl))
            counters["copy_flags_%d" % fl] += 1
            counters["copy_dst_%s" % ("lt_fit" if n < fit else "lt_need" if n < need else "eq_need" if n == need else "gt_need")] += 1
        for sid in rng.sample(sorted(secs), min(2, len(secs))) + [len(secs) + 3]:
            b = secs.get(sid, {"b": 0})["b"]
            ops.append("Q %d %d %d" % (sid, rng.choice([b, b, b + 1, b + 9, max(b - 1, 0), 0]), rng.randrange(4)))
    if rng.random() < 0.6:
        ops += ["F", "L", "C"]
        counters["second_flatten"] += 1
    if rng.random() < 0.25 and len(secs) > 1:
        # grow a section after flattening and lay out again
        sid = rng.choice(sorted(secs))
        b, v = gen_sizes(rng)
        secs[sid]["b"], secs[sid]["v"] = b, v
        need = layout_end([(x["align"], x["b"], x["v"]) for x in order])
        ops += ["Z %d %d %d %d" % (sid, b, v, rng.randrange(1, 100000)), "C", "F", "L", "C", "P %d 3" % min(layout_end(
            [(s["align"], s["b"], s["v"]) for s in order]) + 70000, 1 << 22)]
        counters["resize_after_flatten"] += 1
    if need <= (1 << 22) and rng.random() < 0.35:
        ops.append("J")                  # the real consumer: JitRuntime::_add (flatten + copy into executable memory)
        counters["jit_add"] += 1
    return " ".join(ops)


def gen_overflow(rng, counters):
    ops = []
    nsec = rng.randrange(1, 6)
    for _ in range(nsec):
        ops.append("N %s %d %d" % (hexname(gen_name(rng, [])[:35].replace(b"\0", b"z")), rng.choice(ALIGN_POW + ALIGN_BIG + [1, 1]), rng.choice(ORDERS)))
    for sid in range(nsec + 1):
        r = rng.random()
        if r < 0.35:
            v = rng.choice([W64 - 1, W64 - 2, W64 - 10, W64 - 64, W64 - 65, W64 - 4096, (1 << 63), (1 << 63) - 1, (1 << 63) + 5,
                            W64 - rng.randrange(1, 1 << 20), rng.getrandbits(64)])
            b = rng.choice([0, 0, 5, 100])
        elif r < 0.5:
            b = rng.choice([(1 << 63), W64 - 100, (1 << 62) + 3, rng.getrandbits(64)])     # fabricated _size without data
            v = rng.choice([0, 1, W64 - 1])
        elif r < 0.75:
            b, v = gen_sizes(rng)
        else:
            b, v = 0, 0
        if b or v:
            ops.append("Z %d %d %d 1" % (sid, b, v))
    ops += ["L", "C", "F", "L", "C"]
    counters["overflow_scenarios"] += 1
    return " ".join(ops)


def gen_addrtab(rng, counters):
    ops = []
    secs = [dict(id=0, order=INT_MIN, align=0, b=0, v=0)]
    npre = rng.choice([0, 0, 1, 2])
    for i in range(npre):
        al, order = rng.choice(ALIGN_POW[:8]), rng.choice([-5, 0, 0, 3])
        ops.append("N %s %d %d" % (hexname(b".pre%d" % i), al, order))
        b, v = gen_sizes(rng)
        secs.append(dict(id=i + 1, order=order, align=al, b=b, v=v))
        if b or v:
            ops.append("Z %d %d %d %d" % (i + 1, b, v, rng.randrange(1, 1000)))
    jit = rng.random() < 0.3          # the real JitRuntime::_add: the base is not ours, so every target is out of rel32 reach
    base = rng.choice([0x10000000, 0x7F0000000000, 0x400000])
    if jit:
        far = [(1 << 33) + rng.randrange(0, 1 << 38) for _ in range(rng.choice([1, 2, 3, 5]))]
        near = []
    else:
        far = [base + (1 << 40) + rng.randrange(0, 1 << 30) for _ in range(rng.choice([0, 0, 1, 2, 3, 5]))]
        near = [base + rng.randrange(0, 1 << 20) for _ in range(rng.choice([0, 1, 2, 4]))]
    seq = far + near
    seq += [rng.choice(seq) for _ in range(rng.randrange(0, 3))] if seq else []
    rng.shuffle(seq)
    nabs = 0
    extra = 0

    def embed():
        nonlocal nabs, extra
        if rng.random() < 0.5:
            ops.append("E %d" % rng.randrange(0, npre + 1))      # embed_label: absolute address of a label at the end of a section
            nabs += 1
        else:
            size = rng.choice([4, 8])
            ops.append("ED %d %d %d" % (rng.randrange(0, npre + 1), rng.randrange(0, npre + 1), size))    # embed_label_delta
            extra += size
            counters["embed_label_delta_sites"] += 1
    nrel = 0
    rel_far = False
    for a in seq:
        ops.append("K %d %d" % (a, CALL_LEN))
        if rng.random() < 0.3:
            embed()
        if not jit and rng.random() < 0.25:
            far_jcc = rng.random() < 0.08
            ops.append("KR %d" % (base + ((1 << 40) if far_jcc else rng.randrange(-(1 << 20), 1 << 20))))      # jz <abs>: AbsToRel
            rel_far = rel_far or far_jcc
            nrel += 1
            counters["abs_to_rel_sites"] += 1
    if rng.random() < 0.3:
        embed()
    secs[0]["b"] = CALL_LEN * len(seq) + 8 * nabs + extra + 6 * nrel
    counters["embed_label_sites"] += nabs
    tab_last = True
    if seq:
        secs.append(dict(id=len(secs), order=INT_MAX, align=8, b=0, v=8 * len(set(seq))))
    if rng.random() < 0.35:
        order = rng.choice([INT_MAX, 0, 5, INT_MAX])
        al = rng.choice(ALIGN_POW[:8])
        ops.append("N %s %d %d" % (hexname(b".post"), al, order))
        b, v = gen_sizes(rng)
        secs.append(dict(id=len(secs), order=order, align=al, b=b, v=v))
        if b or v:
            ops.append("Z %d %d %d %d" % (len(secs) - 1, b, v, rng.randrange(1, 1000)))
        if order == INT_MAX and seq:
            tab_last = False
    used = len(set(far))
    counters["addrtab_scenarios"] += 1
    counters["addrtab_%s" % ("none" if not seq else "last" if tab_last else "not_last")] += 1
    counters["addrtab_used_%s" % ("0" if used == 0 else "all" if used == len(set(seq)) else "some")] += 1
    if jit:
        ops += ["L", "C", "J"] if rng.random() < 0.5 else ["L", "C", "F", "L", "J"]
        counters["jit_add_with_relocations"] += 1
        return " ".join(ops)
    need = layout_end([(x["align"], x["b"], x["v"]) for x in sorted(secs, key=lambda x: (x["order"], x["id"]))])
    final = need - (8 * (len(set(seq)) - used) if (seq and tab_last) else 0)
    ops += ["L", "C", "F", "L", "C"]
    if seq and rng.random() < 0.3:
        ops.append("P %d %d" % (need, rng.randrange(4)))        # the image before relocation
    if rel_far:
        ops += ["X %d %d" % (base, used)]       # refused (kRelocOffsetOutOfRange); the holder is half patched afterwards: nothing more is compared
        counters["relocation_out_of_range"] += 1
        return " ".join(ops)
    ops += ["X %d %d" % (base, used), "L", "C"]
    for n in [final, need, max(final - 1, 0), final + 9, rng.randrange(0, need + 2)]:
        ops.append("P %d %d" % (n, rng.randrange(4)))           # the relocated image, all flag combinations over the runs
        counters["copy_after_relocation"] += 1
    return " ".join(ops)


def gen_boundary(rng, counters):
    """Scenarios placed ON the case-split boundaries of the proofs: predecessor end congruent 0 / 1 / a-1 modulo the alignment (padding
    0, a-1, 1), real size 0 vs 1, virtual size = / one below / one above the buffer size, layout end exactly 2^64-1 / 2^64 (last legal and
    first overflowing), alignment wrap exactly at 2^64, and destination sizes at every section's buffer end and virtual end +-1."""
    kind = rng.randrange(3)
    ops = []
    if kind == 0:       # alignment / size boundaries + copy boundaries
        a = rng.choice([2, 8, 16, 64, 4096])
        tb = rng.choice([a - 1, a, a + 1, 2 * a, 1, 2 * a - 1])
        secs = [(0, tb, rng.choice([0, tb, tb + 1, max(tb - 1, 0)]))]
        ops.append("Z 0 %d %d %d" % (tb, secs[0][2], rng.randrange(1, 1000)))
        n = rng.choice([1, 2, 3])
        for i in range(n):
            al = rng.choice([a, a, 1, 2 * a])
            b = rng.choice([0, 0, 1, al - 1, al, al + 1])
            v = rng.choice([0, b, b + 1, max(b - 1, 0), b + al])
            ops.append("N %s %d 0" % (hexname(b"b%d" % i), al))
            if b or v:
                ops.append("Z %d %d %d %d" % (i + 1, b, v, rng.randrange(1, 1000)))
            secs.append((al, b, v))
        ops += ["L", "C", "F", "L", "C"]
        off = 0
        dsts = set()
        for al, b, v in secs:
            rs = max(b, v)
            if rs:
                al1 = max(al, 1)
                off = (off + al1 - 1) // al1 * al1
            for d in (off + b - 1, off + b, off + b + 1, off + v - 1, off + v, off + v + 1, off, off - 1):
                if d >= 0:
                    dsts.add(d)
            off += rs
        for d in sorted(dsts):
            ops.append("P %d %d" % (d, rng.choice([1, 3, 3, 0, 2])))
        ops += ["F", "L", "C", "J"]
        counters["boundary_align_copy"] += 1
    elif kind == 1:     # the layout ends exactly at 2^64-1 (legal) / 2^64 (overflow), with and without padding
        al = rng.choice([1, 8, 64])
        k = rng.choice([0, 1, 2])
        last = rng.choice([1, al, 5])
        pad_to = W64 - last - (1 if k == 0 else 0) + (1 if k == 2 else 0)      # where the last section must start
        v0 = pad_to // al * al if rng.random() < 0.5 else pad_to - rng.randrange(0, al)
        ops.append("Z 0 0 %d 1" % min(max(v0, 1), W64 - 1))
        ops.append("N 62 %d 0" % al)
        ops.append("Z 1 0 %d 1" % last)
        ops += ["L", "C", "F", "L", "C"]
        counters["boundary_end_2_64"] += 1
    else:               # align_up itself wraps: predecessor ends within one alignment unit of 2^64
        al = rng.choice([2, 16, 4096, 1 << 20, 1 << 31])
        e = W64 - rng.choice([0, 1, al - 1, al, al + 1]) - 1
        ops.append("Z 0 0 %d 1" % min(max(e, 1), W64 - 1))
        ops.append("N 62 %d 0" % al)
        ops.append("Z 1 0 %d 1" % rng.choice([1, 1, al]))
        ops += ["L", "C", "F", "L", "C"]
        counters["boundary_align_wrap"] += 1
    return " ".join(ops)


def gen_stream(rng, tier, counters):
    n = 2500 if tier == "quick" else 60000
    out = []
    for i in range(n):
        r = rng.random()
        if r < 0.08:
            out.append(gen_boundary(rng, counters))
        elif r < 0.80:
            out.append(gen_layout(rng, tier, counters))
        elif r < 0.90:
            out.append(gen_overflow(rng, counters))
        else:
            out.append(gen_addrtab(rng, counters))
    return out


# ---------------------------------------------------------------------------------------------- independent oracle
def unrle(s):
    if s == "-":
        return b""
    out = bytearray()
    for run in s.split(","):
        v, n = run.split("*")
        out += bytes([int(v)]) * int(n)
    return bytes(out)


def le(v, n):
    return bytes((v >> (8 * k)) & 0xFF for k in range(n))


def relocated_bytes(calls, base, text_off, tab_off, sec_off=None):
    """relocation sites of .text after relocation, from the instruction set manual / the meaning of an embedded label address
    (independent of AsmJit and of the Coq model).  ("call", pos, target): E8 rel32 (with the 40h REX placeholder in front) when the
    target is within +-2 GiB of the next instruction placed at `base`, otherwise FF /2 [rip+rel32] through an 8-byte slot of the
    address table (one slot per distinct target, in order of first use); base None = every target is out of reach wherever the
    image is placed.  ("abs", pos, section, label offset): the 8-byte absolute address base + offset of the section + label offset.
    Returns (text bytes, table bytes)."""
    text = bytearray()
    slots = []
    for c in calls:
        if c[0] == "abs":
            text += le(((base or 0) + sec_off[c[2]] + c[3]) & (W64 - 1), 8)       # base None: the canonical image (base subtracted again)
            continue
        if c[0] == "rel":
            d = c[2] - ((base or 0) + text_off + c[1] + 6)      # jz rel32: target - address of the next instruction
            text += b"\x0F\x84" + le(d & 0xFFFFFFFF, 4)
            continue
        if c[0] == "expr":
            _, pos, t1, o1, t2, o2, size = c
            text += le(((sec_off[t1] + o1) - (sec_off[t2] + o2)) & ((1 << (8 * size)) - 1), size)
            continue
        _, pos, target = c
        nxt = text_off + pos + 6
        d = None if base is None else target - (base + nxt)
        if d is not None and -(1 << 31) <= d < (1 << 31):
            text += b"\x40\xE8" + le(d & 0xFFFFFFFF, 4)
        else:
            if target not in slots:
                slots.append(target)
            rel = tab_off + 8 * slots.index(target) - nxt
            text += b"\xFF\x15" + le(rel & 0xFFFFFFFF, 4)
    return bytes(text), b"".join(le(t, 8) for t in slots)


def text_placeholder(calls):
    return b"".join(b"\x40\xE8\0\0\0\0" if c[0] == "call" else b"\x0F\x84\0\0\0\0" if c[0] == "rel" else bytes(8) if c[0] == "abs" else bytes(c[6]) for c in calls)


def section_bytes(s):
    return s["data"] if s.get("data") is not None else bytes(pattern(s["seed"], k) for k in range(s["b"]))


def ideal_walk(order):
    """unbounded-integer layout of sections (dicts with align,b,v) in by-order sequence.
    returns (overflow?, end, [offset per section])"""
    off = 0
    ovf = False
    offs = []
    for s in order:
        rs = max(s["b"], s["v"])
        if rs:
            a = max(s["align"], 1)
            off = (off + a - 1) // a * a
            if off >= W64:
                ovf = True
        offs.append(off)
        off += rs
        if off >= W64:
            ovf = True
    return ovf, off, offs


def judge(line, ans):
    """Judge ONE scenario (command line, implementation's answer line) against the property. Returns a list of
    (key, description).  Uses only the commands and the implementation's own answers."""
    toks = line.split()
    answers = ans.split(" ") if ans else []
    out = []
    ai = 0

    def nxt():
        nonlocal ai
        a = answers[ai] if ai < len(answers) else "<missing>"
        ai += 1
        return a

    secs = {0: dict(id=0, order=INT_MIN, align=0, b=0, v=0, seed=0, name=TEXT_NAME, off=0)}
    last_flat_end = None      # end of the layout reported by the last successful flatten (no size change since)
    last_flat = None          # {id: (off, v, b)} after the last successful flatten
    sizes_known = True
    flattened_clean = False   # offsets assigned by flatten and no size change since
    est = None                # code_size before relocation
    red = None
    i = 0
    pending_f = None
    secs_order = [0]
    addrs = set()
    tab = None
    tab_expect = None
    calls = []
    while i < len(toks):
        op = toks[i]
        if op == "D":
            i += 2; nxt()
            secs = {0: dict(id=0, order=INT_MIN, align=0, b=0, v=0, seed=0, name=TEXT_NAME, off=0)}
            addrs = set(); tab = None; calls = []
        elif op in ("N", "Ns"):
            name = bytes.fromhex(toks[i + 1]) if toks[i + 1] != "-" else b""
            if op == "Ns":
                name = name.split(b"\0")[0]      # strlen
            al, order = int(toks[i + 2]), int(toks[i + 3]); i += 4
            a = nxt()
            exp = "EINVAL" if not (al == 0 or (al & (al - 1)) == 0) else "ENAME" if len(name) > 35 else "ok:%d" % len(secs)
            if a != "N:" + exp:
                out.append(("C10/new-section/validation", "new_section(name %d bytes, align %d, order %d) answered %s, expected %s" % (len(name), al, order, a, exp)))
                return out          # ids in the rest of the scenario no longer mean what the generator intended
            if a.startswith("N:ok:"):
                sid = int(a[5:])
                secs[sid] = dict(id=sid, order=order, align=al or 1, b=0, v=0, seed=0, name=name, off=SIZE_MAX)
                flattened_clean = False
        elif op == "Z":
            sid, b, v, seed = map(int, toks[i + 1:i + 5]); i += 5
            if sid in secs:
                secs[sid].update(b=b, v=v, seed=seed)
            else:
                nxt()               # the harness answers Z:bad for an unknown id
            last_flat_end = None
            flattened_clean = False
        elif op == "K":
            i += 3
            a = nxt()
            if not a.startswith("K:ok:"):
                out.append(("C10/harness/emit-call", "call emission failed: %s" % a))
                return out
            addr = int(toks[i - 2])
            calls.append(("call", secs[0]["b"], addr))
            secs[0]["b"] = int(a[5:])
            secs[0]["seed"] = None
            secs[0]["data"] = text_placeholder(calls)
            if addr not in addrs:   # every distinct absolute target reserves one 8-byte slot in `.addrtab` (created on demand)
                addrs.add(addr)
                if tab is None:
                    tab = len(secs)
                    secs[tab] = dict(id=tab, order=INT_MAX, align=8, b=0, v=0, seed=None, name=b".addrtab", off=SIZE_MAX)
                secs[tab]["v"] += 8
            last_flat_end = None
            flattened_clean = False
        elif op == "G":
            sid, add, clr = int(toks[i + 1]), int(toks[i + 2]), int(toks[i + 3]); i += 4
            a = nxt()
            if sid not in secs:
                continue
            f0 = secs[sid].get("flags", 0x4003 if sid == 0 else 0)
            exp = ((f0 | add) & ~clr) & 0xFFFF
            secs[sid]["flags"] = exp
            p = a.split(":")
            if (int(p[1]), int(p[2])) != (exp, 0 if clr else 0):
                wrong_or = int(p[1]) == ((f0 | add) | (~clr & 0xFFFF)) & 0xFFFF
                out.append(("C10/section-flags/clear-sets-bits" if wrong_or else "C10/section-flags/wrong",
                            "section %d: flags %#x, add_flags(%#x), clear_flags(%#x) -> %#x (has_flag %s), expected %#x" % (sid, f0, add, clr, int(p[1]), p[2], exp)))
                secs[sid]["flags"] = int(p[1])
        elif op == "E":
            target = int(toks[i + 1]); i += 2
            a = nxt()
            p = a.split(":")
            if p[1] != "ok":
                if target in secs:
                    out.append(("C10/harness/embed-label", "embed_label failed: %s" % a))
                    return out
                continue
            if int(p[3]) != secs[target]["b"]:
                out.append(("C10/harness/embed-label", "label bound at %s, the section holds %d bytes" % (p[3], secs[target]["b"])))
            calls.append(("abs", secs[0]["b"], target, int(p[3])))
            secs[0]["b"] = int(p[2])
            secs[0]["seed"] = None
            secs[0]["data"] = text_placeholder(calls)
            last_flat_end = None
            flattened_clean = False
        elif op == "KR":
            addr = int(toks[i + 1]); i += 2
            a = nxt()
            if not a.startswith("KR:ok:"):
                out.append(("C10/harness/emit-jcc", "jz <abs> emission failed: %s" % a))
                return out
            calls.append(("rel", secs[0]["b"], addr))
            secs[0]["b"] = int(a[6:])
            secs[0]["seed"] = None
            secs[0]["data"] = text_placeholder(calls)
            last_flat_end = None
            flattened_clean = False
        elif op == "ED":
            t1, t2, size = int(toks[i + 1]), int(toks[i + 2]), int(toks[i + 3]); i += 4
            a = nxt()
            p = a.split(":")
            if p[1] != "ok":
                if t1 in secs and t2 in secs:
                    out.append(("C10/harness/embed-label-delta", "embed_label_delta failed: %s" % a))
                    return out
                continue
            if (int(p[3]), int(p[4])) != (secs[t1]["b"], secs[t2]["b"]):
                out.append(("C10/harness/embed-label-delta", "labels bound at %s/%s, the sections hold %d/%d bytes" % (p[3], p[4], secs[t1]["b"], secs[t2]["b"])))
            # (labels of one section are subtracted immediately: a constant, here 0)
            calls.append(("expr", secs[0]["b"], t1, int(p[3]), t2, int(p[4]), size) if t1 != t2 else ("expr", secs[0]["b"], 0, 0, 0, 0, size))
            secs[0]["b"] = int(p[2])
            secs[0]["seed"] = None
            secs[0]["data"] = text_placeholder(calls)
            last_flat_end = None
            flattened_clean = False
        elif op == "I":
            i += 1
            a = nxt()
            if a != "I:" + ",".join(str(k) for k in range(len(secs))) and sizes_known:
                out.append(("C10/section-table/ids", "sections() holds ids %s, expected 0..%d" % (a, len(secs) - 1)))
        elif op in ("B", "Bs"):
            key = bytes.fromhex(toks[i + 1]) if toks[i + 1] != "-" else b""
            if op == "Bs":
                key = key.split(b"\0")[0]
            i += 2
            a = nxt()
            if not sizes_known:
                continue
            # C semantics of the lookup (names may hold NUL bytes): the 36-cell zero-padded field must start with the key
            # and hold a NUL right behind it; sections are tried in id order
            exp = "-"
            if len(key) <= 35:
                for sid in sorted(secs):
                    field = secs[sid]["name"] + bytes(36 - len(secs[sid]["name"]))
                    if field[:len(key)] == key and field[len(key)] == 0:
                        exp = str(sid); break
            if a != "B:" + exp:
                out.append(("C10/section-by-name/wrong-section", "section_by_name(%r) answered %s, expected %s (names: %s)" % (key, a, exp,
                            [secs[k]["name"] for k in sorted(secs)][:6])))
        elif op == "L":
            i += 1
            a = nxt()
            rows = [tuple(int(x) for x in r.split(",")) for r in a[2:].split(";")] if len(a) > 2 else []
            ids = [r[0] for r in rows]
            if sorted(ids) != list(range(len(rows))):
                out.append(("C10/section-table/ids", "sections_by_order() holds ids %s" % ids))
                return out
            keys = [(r[1], r[0]) for r in rows]
            if keys != sorted(keys):
                out.append(("C10/order/not-sorted", "sections_by_order() is not sorted by (order, id): %s" % keys))
            for r in rows:
                sid = r[0]
                if sid not in secs:
                    if sizes_known:
                        out.append(("C10/section-table/ids", "unknown section id %d in dump" % sid))
                        return out
                    secs[sid] = dict(id=sid, order=r[1], align=r[2], b=r[5], v=r[4], seed=None, name=b".addrtab", off=r[3])
                s = secs[sid]
                if (s["order"], s["align"]) != (r[1], r[2]):
                    out.append(("C10/section-table/attributes", "section %d has order/alignment %s, created with %s" % (sid, (r[1], r[2]), (s["order"], s["align"]))))
            order = [secs[r[0]] for r in rows]
            if pending_f is not None:
                # this dump follows a flatten(): judge the layout
                ferr = pending_f
                pending_f = None
                ovf, end, offs = ideal_walk(order)      # from the sizes BEFORE flatten
                if ovf:
                    if ferr == "ok":
                        out.append(("C10/flatten/overflow-accepted", "flatten() succeeded although the layout needs %d bytes (>= 2^64)" % end))
                else:
                    if ferr != "ok":
                        out.append(("C10/flatten/spurious-error", "flatten() answered %s for a layout of %d bytes" % (ferr, end)))
                    else:
                        prev_end = 0
                        prev_ne = None
                        newend = 0
                        for s, r in zip(order, rows):
                            off, nv, nb = r[3], r[4], r[5]
                            rs = max(s["b"], s["v"])
                            if nb != s["b"]:
                                out.append(("C10/flatten/buffer-size-changed", "section %d buffer size %d -> %d" % (s["id"], s["b"], nb)))
                            if off < prev_end:
                                out.append(("C10/flatten/overlap", "section %d at %d starts before the end %d of its predecessors (order %s)" % (s["id"], off, prev_end, [x["id"] for x in order])))
                            if rs:
                                a = max(s["align"], 1)
                                if off % a:
                                    out.append(("C10/flatten/misaligned", "section %d (alignment %d, %d bytes) placed at %d" % (s["id"], a, rs, off)))
                                if off - prev_end >= a:
                                    out.append(("C10/flatten/excess-padding", "section %d (alignment %d) at %d, predecessors end at %d" % (s["id"], a, off, prev_end)))
                                if max(nv, nb) < rs:
                                    out.append(("C10/flatten/size-shrunk", "section %d real size %d -> %d" % (s["id"], rs, max(nv, nb))))
                                if prev_ne is not None and prev_ne[0] + prev_ne[1] > off:
                                    out.append(("C10/flatten/overlap", "extended section %d [%d,+%d) overlaps section %d at %d" % (prev_ne[2], prev_ne[0], prev_ne[1], s["id"], off)))
                                prev_end = off + rs
                                prev_ne = (off, max(nv, nb), s["id"])
                            newend = max(newend, off + max(nv, nb))
                            if last_flat is not None and flattened_clean and rs and last_flat.get(s["id"]) != (off, nv, nb):
                                out.append(("C10/flatten/not-idempotent", "second flatten() moved/resized non-empty section %d: (offset, vsize, bsize) %s -> %s" % (
                                    s["id"], last_flat.get(s["id"]), (off, nv, nb))))
                        # an empty section must sit where the next non-empty section starts (or at the end): the only place where
                        # another flatten() leaves it, so that labels bound in it have ONE position
                        nxo = end
                        run_off = {}            # where the forward loop alone leaves an empty section: the unextended end of its predecessors
                        o = 0
                        for s, r in zip(order, rows):
                            if max(s["b"], s["v"]):
                                o = r[3] + max(s["b"], s["v"])
                            else:
                                run_off[s["id"]] = o
                        for s, r in reversed(list(zip(order, rows))):
                            if max(s["b"], s["v"]):
                                nxo = r[3]
                                continue
                            moved = last_flat is not None and flattened_clean and last_flat.get(s["id"]) != (r[3], r[4], r[5])
                            if r[3] != nxo:
                                # the recorded shape of the residual defect: the section sits at its predecessors' unextended end
                                key = "C10/flatten/empty-section-not-final" if r[3] == run_off[s["id"]] else "C10/flatten/empty-section-misplaced"
                                out.append((key, "empty section %d placed at %d, the next non-empty section / the end is at %d "
                                            "(a second flatten() moves it and every label bound in it)" % (s["id"], r[3], nxo)))
                            elif moved:
                                out.append(("C10/flatten/empty-section-not-final", "second flatten() moved EMPTY section %d: %s -> %s" % (
                                    s["id"], last_flat.get(s["id"]), (r[3], r[4], r[5]))))
                        if newend != end:
                            out.append(("C10/flatten/end-moved", "layout ends at %d after extension, sections need %d" % (newend, end)))
                        last_flat_end = end
                        last_flat = {r[0]: (r[3], r[4], r[5]) for r in rows}
                        flattened_clean = True
            if tab_expect is not None and tab is not None:
                r = next(r for r in rows if r[0] == tab)
                if (r[5], r[4]) != tab_expect:
                    out.append(("C10/addrtab/sizes-after-relocation", "address table (buffer, virtual) sizes %s after relocation, expected %s" % ((r[5], r[4]), tab_expect)))
                for r0 in rows:
                    if r0[0] != tab and (r0[3], r0[4], r0[5]) != (secs[r0[0]]["off"], secs[r0[0]]["v"], secs[r0[0]]["b"]):
                        out.append(("C10/addrtab/other-section-changed", "relocate_to_base changed section %d: %s -> %s" % (r0[0], (secs[r0[0]]["off"], secs[r0[0]]["v"], secs[r0[0]]["b"]), r0[3:6])))
                tab_expect = None
            # adopt the implementation's own report as the current state
            for r in rows:
                s = secs[r[0]]
                s["off"], s["v"], s["b"] = r[3], r[4], r[5]
            secs_order = [r[0] for r in rows]
            sizes_known = True
        elif op == "F":
            i += 1
            a = nxt()
            pending_f = a[2:]
            if pending_f != "ok":
                pass
        elif op == "C":
            i += 1
            a = nxt()
            got = int(a[2:])
            if est is not None and red is not None:
                # after relocation: never larger than the estimate, and exactly estimate - reduction
                if got > est:
                    out.append(("C10/estimate/grew", "code_size() %d after relocation exceeds the estimate %d" % (got, est)))
                elif got != est - red:
                    out.append(("C10/estimate/reduction-mismatch", "estimate %d - reduction %d != code_size() %d after relocation" % (est, red, got)))
                est = red = None
                continue
            if not sizes_known:
                continue
            order = sorted(secs.values(), key=lambda s: (s["order"], s["id"]))
            ovf, end, _ = ideal_walk(order)
            if last_flat_end is not None and not ovf:
                if got != last_flat_end:
                    out.append(("C10/code-size/not-layout-end", "code_size() = %d but the layout assigned by flatten() ends at %d" % (got, last_flat_end)))
            elif ovf:
                if got != SIZE_MAX:
                    out.append(("C10/code-size/overflow-not-reported", "code_size() = %d for sections that need %d bytes (>= 2^64)" % (got, end)))
            elif got != end:
                out.append(("C10/code-size/wrong", "code_size() = %d, sections need %d" % (got, end)))
            est = got
        elif op == "X":
            i += 3
            a = nxt()
            p = a.split(":")
            base_x = int(toks[i - 2])
            unreachable = [c for c in calls if c[0] == "rel" and not -(1 << 31) <= c[2] - (base_x + secs[0]["off"] + c[1] + 6) < (1 << 31)]
            if unreachable:
                # a conditional jump has no address-table fallback: the relocation must be refused, not wrapped
                if p[1] != "ERANGE":
                    out.append(("C10/reloc/out-of-range-accepted", "relocate_to_base answered %s although jz at %d cannot reach %#x from base %#x" % (p[1], unreachable[0][1], unreachable[0][2], base_x)))
                return out
            if p[1] != "ok":
                out.append(("C10/harness/relocate", "relocate_to_base failed: %s" % a))
                return out
            red = int(p[2])
            used_slots = int(toks[i - 1])
            if tab is not None:
                # C04's repair: the used slots are the table's buffer wherever it sits; only a LAST table gives the reservation back
                order_now = sorted(secs.values(), key=lambda s: (s["order"], s["id"]))
                is_last = order_now[-1]["id"] == tab
                exp_red = secs[tab]["v"] - 8 * used_slots if is_last else 0
                if red != exp_red:
                    out.append(("C10/addrtab/reduction-wrong", "relocate_to_base reported a reduction of %d, expected %d (%d of %d slots used, table %s)" % (
                        red, exp_red, used_slots, secs[tab]["v"] // 8, "last" if is_last else "not last")))
                tab_expect = (8 * used_slots, 8 * used_slots if is_last else secs[tab]["v"])
                tb, ab = relocated_bytes(calls, int(toks[i - 2]), secs[0]["off"], secs[tab]["off"], {k: v["off"] for k, v in secs.items()})
                if len(ab) != 8 * used_slots:
                    out.append(("C10/harness/generator", "generator announced %d used slots, the sites need %d" % (used_slots, len(ab) // 8)))
                secs[0]["data"], secs[tab]["data"] = tb, ab
            elif calls:
                tb, _ = relocated_bytes(calls, int(toks[i - 2]), secs[0]["off"], 0, {k: v["off"] for k, v in secs.items()})
                secs[0]["data"] = tb
            sizes_known = False
            last_flat_end = None
        elif op == "P":
            n, fl = int(toks[i + 1]), int(toks[i + 2]); i += 3
            a = nxt()
            p = a.split(":")
            if p[1] == "unsafe":
                continue
            if p[3] != "g1":
                out.append(("C10/copy/out-of-bounds-write", "copy_flattened_data(dst_size=%d, flags=%d) wrote outside the destination" % (n, fl)))
            if not sizes_known:
                continue
            order = [secs[k] for k in secs_order] if set(secs_order) == set(secs) else sorted(secs.values(), key=lambda s: (s["order"], s["id"]))
            small = any(s["off"] > n or n - s["off"] < s["b"] for s in order)
            if small:
                if p[1] == "ok":
                    out.append(("C10/copy/small-destination-accepted", "copy_flattened_data accepted dst_size=%d although a section does not fit" % n))
                continue
            if p[1] != "ok":
                out.append(("C10/copy/spurious-refusal", "copy_flattened_data refused dst_size=%d (%s) although every section fits" % (n, p[1])))
                continue
            if not flattened_clean:
                continue
            img = unrle(p[2])
            exp = bytearray(b"\xCD" * n)
            e = 0
            for s in order:
                e = max(e, s["off"] + max(s["b"], min(n - s["off"], s["v"]) if fl & 1 else 0))
            if fl & 2:
                exp[e:n] = bytes(n - e) if n > e else b""
            for s in order:
                if fl & 1 and s["v"] > s["b"]:
                    hi = min(n, s["off"] + s["v"])
                    exp[s["off"] + s["b"]:hi] = bytes(hi - s["off"] - s["b"])
            for s in order:
                if s["b"]:
                    exp[s["off"]:s["off"] + s["b"]] = section_bytes(s)
            if img != bytes(exp):
                k = next(j for j in range(n) if img[j] != exp[j])
                out.append(("C10/copy/image-wrong", "copy_flattened_data(dst_size=%d, flags=%d): cell %d holds %d, expected %d" % (n, fl, k, img[k], exp[k])))
        elif op == "J":
            i += 1
            a = nxt()
            p = a.split(":")
            if p[1] == "unsafe" or not sizes_known:
                continue
            order = sorted(secs.values(), key=lambda s: (s["order"], s["id"]))
            if flattened_clean:
                offs = [s["off"] for s in order]
                ovf, end = False, max([s["off"] + max(s["b"], s["v"]) for s in order])
            else:
                ovf, end, offs = ideal_walk(order)
                nxo = end                       # an empty section sits where the next non-empty one starts (or at the end)
                for k in range(len(order) - 1, -1, -1):
                    if max(order[k]["b"], order[k]["v"]):
                        nxo = offs[k]
                    else:
                        offs[k] = nxo
            if p[1] == "near":
                continue
            if calls:
                # every call target is out of rel32 reach of the allocated memory: FF /2 through the table, whatever the base;
                # absolute words are compared with the base subtracted again (the harness does that along the relocation list)
                off_of = {s["id"]: o for s, o in zip(order, offs)}
                tb, ab = relocated_bytes(calls, None, off_of[0], off_of.get(tab, 0), off_of)
                secs[0]["data"] = tb
                if tab is not None:
                    secs[tab]["data"], secs[tab]["b"] = ab, len(ab)
            if ovf:
                if p[1] != "ETOOLARGE":
                    out.append(("C10/jit/overflow-accepted", "JitRuntime::_add answered %s for an overflowing layout" % p[1]))
            elif end == 0:
                if p[1] != "ENOCODE":
                    out.append(("C10/jit/empty-accepted", "JitRuntime::_add answered %s for an empty holder" % p[1]))
            elif p[1] != "ok":
                out.append(("C10/jit/spurious-error", "JitRuntime::_add answered %s for a layout of %d bytes" % (p[1], end)))
            else:
                if int(p[2]) != end:
                    out.append(("C10/jit/size-wrong", "JitRuntime::_add installed %s bytes, the layout ends at %d" % (p[2], end)))
                else:
                    img = unrle(p[3])
                    exp = bytearray(end)         # everything that is not a section byte must be zero
                    for s, off in zip(order, offs):
                        if s["b"]:
                            exp[off:off + s["b"]] = section_bytes(s)
                    if img != bytes(exp):
                        k = next(j for j in range(end) if img[j] != exp[j])
                        out.append(("C10/jit/image-wrong", "JitRuntime::_add: installed byte %d is %d, expected %d (size %d)" % (k, img[k], exp[k], end)))
            return out          # J is the last operation of a scenario
        elif op == "Q":
            sid, n, fl = int(toks[i + 1]), int(toks[i + 2]), int(toks[i + 3]); i += 4
            a = nxt()
            p = a.split(":")
            if p[1] == "unsafe":
                continue
            if p[3] != "g1":
                out.append(("C10/copy-section/out-of-bounds-write", "copy_section_data(%d, dst_size=%d) wrote outside the destination" % (sid, n)))
            if not sizes_known:
                continue
            if sid not in secs:
                if p[1] != "ESECTION":
                    out.append(("C10/copy-section/invalid-id", "copy_section_data(id %d) answered %s" % (sid, p[1])))
                continue
            s = secs[sid]
            if n < s["b"]:
                if p[1] == "ok":
                    out.append(("C10/copy-section/small-destination-accepted", "copy_section_data accepted %d < %d" % (n, s["b"])))
                continue
            exp = bytes(pattern(s["seed"], k) for k in range(s["b"])) + (bytes(n - s["b"]) if fl & 1 else b"\xCD" * (n - s["b"]))
            if p[1] != "ok" or unrle(p[2]) != exp:
                out.append(("C10/copy-section/image-wrong", "copy_section_data(%d, dst_size=%d, flags=%d) -> %s" % (sid, n, fl, a[:80])))
        else:
            out.append(("C10/harness/protocol", "unknown op %r" % op))
            return out
    return out


# ---------------------------------------------------------------------------------------------- shrinking a failing scenario
ARITY = {"D": 1, "N": 3, "Ns": 3, "Z": 4, "B": 1, "Bs": 1, "F": 0, "L": 0, "I": 0, "C": 0, "P": 2, "Q": 3, "K": 2, "KR": 1, "E": 1,
         "ED": 3, "G": 3, "X": 2, "J": 0, "T": 0}


def split_ops(line):
    toks = line.split()
    ops, i = [], 0
    while i < len(toks):
        n = ARITY.get(toks[i])
        if n is None:
            return None
        ops.append(toks[i:i + 1 + n])
        i += 1 + n
    return ops


def shrink(line, still_fails, budget=120):
    """Greedy one-operation-at-a-time reduction of a scenario while `still_fails(scenario)` holds (delta debugging with
    granularity 1, from the end: later operations rarely matter for an earlier failure).  Section ids stay meaningful because a
    removed N is only accepted when the failure survives.  Returns the reduced scenario."""
    ops = split_ops(line)
    if ops is None:
        return line
    k = len(ops) - 1
    while k >= 0 and budget > 0:
        cand = ops[:k] + ops[k + 1:]
        budget -= 1
        if cand and still_fails(" ".join(" ".join(o) for o in cand)):
            ops = cand
        k -= 1
    return " ".join(" ".join(o) for o in ops)


# ---------------------------------------------------------------------------------------------- translator (constants)
GEN_NAME = "C10Consts.v"
GEN_KEYS = ["max_name", "name_cells", "no_offset", "f_executable", "f_readonly", "f_zeroinit", "f_comment", "f_builtin", "f_implicit",
            "copy_pad_section", "copy_pad_target", "text_id", "text_flags", "text_align", "text_order", "text_offset", "text_name",
            "new_section_align_of_0", "new_section_offset", "call_bytes", "addrtab_align", "addrtab_vsize_per_slot", "addrtab_order",
            "addrtab_name", "embed_label_size"]


def gen_consts_text(answer):
    """coq/gen/C10Consts.v from the harness' `T` answer (the constants of /repo's headers and of a freshly initialised holder)."""
    kv = dict(x.split("=", 1) for x in answer.strip().split(";")[1:])
    missing = [k for k in GEN_KEYS if k not in kv]
    if missing:
        raise RuntimeError("constants dump lacks %s" % missing)
    out = ["(* GENERATED by tools/checks/c10.py (harness op T) from /repo's working tree: constants of asmjit/core/globals.h, codeholder.h and of a",
           "   freshly initialised x86-64 CodeHolder that the C10 model (coq/theories/Sections) hard-codes.  Data only; compared with the model in",
           "   Properties_C10.C10_constants_match.  Regenerated and re-checked on every run. *)",
           "From Coq Require Import ZArith List.", "Import ListNotations.", "Local Open Scope Z_scope.", ""]
    for k in GEN_KEYS:
        v = kv[k]
        if k in ("text_name", "call_bytes", "addrtab_name"):
            bs = [] if v == "-" else [int(v[i:i + 2], 16) for i in range(0, len(v), 2)]
            out.append("Definition g_%s : list Z := [%s]." % (k, "; ".join(map(str, bs))))
        else:
            out.append("Definition g_%s : Z := %s." % (k, ("(%s)" % v) if v.startswith("-") else v))
    return "\n".join(out) + "\n"


# ---------------------------------------------------------------------------------------------- running
def run_sharded(exe, lines, shards=16, args=(), timeout=1500):
    chunks = [lines[i::shards] for i in range(shards)]

    def one(chunk):
        if not chunk:
            return []
        # the extracted list functions are not tail recursive: big images need a big stack
        rc, out, err = vlib.sh("ulimit -s unlimited 2>/dev/null || ulimit -s 1000000; exec '%s' %s" % (exe, " ".join(args)), inp="\n".join(chunk) + "\n", timeout=timeout)
        res = out.split("\n")[:-1]
        if rc != 0 or len(res) != len(chunk):
            return ("ERR", rc, (out[-300:] + err[-500:]), chunk[len(res)] if len(res) < len(chunk) else "")
        return res
    with ThreadPoolExecutor(max_workers=shards) as ex:
        rs = list(ex.map(one, chunks))
    out = [None] * len(lines)
    for i, r in enumerate(rs):
        if isinstance(r, tuple):
            return r
        out[i::shards] = r
    return out


def first_diff(x, y):
    xs, ys = x.split(" "), y.split(" ")
    for k, (a, b) in enumerate(zip(xs, ys)):
        if a != b:
            return k, a, b
    return min(len(xs), len(ys)), "<end>", "<end>"


def run(ck):
    rng = random.Random(ck.seed)
    impl = ck.build_harness("c10", ["c10_harness.cpp"])
    # translator tie: the constants the model hard-codes are re-extracted from /repo and the theorem comparing them is re-checked
    gen_text = gen_consts_text(vlib.sh([impl], inp="T\n", timeout=60)[1])
    committed = os.path.join(vlib.COQ, "gen", GEN_NAME)
    gen_dir = None
    gen_changed = (not os.path.exists(committed)) or open(committed).read() != gen_text
    if gen_changed:
        # slow path, own regen: only C10's generated file is recompiled (in a scratch directory bound to VerifGen)
        gen_dir = os.path.join(ck.work, "gen")
        shutil.rmtree(gen_dir, ignore_errors=True)
        os.makedirs(gen_dir)
        open(os.path.join(gen_dir, GEN_NAME), "w").write(gen_text)
        rc, out, err = vlib.sh(["coqc", "-Q", gen_dir, "VerifGen", "-w", "-all", os.path.join(gen_dir, GEN_NAME)], cwd=gen_dir, timeout=600)
        ck.log("constants of this tree differ from the committed snapshot coq/gen/%s: regenerated (coqc rc %d)" % (GEN_NAME, rc))
    obl = ck.coq_properties(gen_dir=gen_dir)
    ck.log("theorems: %d, failed: %d" % (len(obl), len([o for o in obl if not o["ok"]])))
    model = ck.ocaml_model("Extract_Sections.v", ["zconv.ml", "c10_driver.ml"], name="c10")

    if ck.replay:
        rp = json.load(open(ck.replay))
        for c in rp["replay"].get("scenarios") or [rp["replay"]["scenario"]]:
            xi = vlib.sh([impl], inp=c + "\n")[1].strip()
            print("scenario:", c); print(" impl  :", xi); print(" model :", vlib.sh([model], inp=c + "\n")[1].strip())
            print(" model of the unrepaired tree:", vlib.sh([model, "--pinned"], inp=c + "\n")[1].strip())
            j = judge(c, xi)
            print(" oracle:", "property holds" if not j else j)
        return 0

    from collections import Counter
    counters = Counter()
    lines = []
    corpus = os.path.join(vlib.VERIF, "corpus", "C10.txt")
    if os.path.exists(corpus):
        lines += [l.strip() for l in open(corpus) if l.strip() and not l.startswith("#")]
    ncorpus = len(lines)
    lines += gen_stream(rng, ck.tier, counters)
    ck.log("stream: %d scenarios (%d from corpus), %d operations" % (len(lines), ncorpus, sum(len([t for t in l.split() if t.isalpha() and len(t) == 1]) for l in lines)))
    # the extracted model needs ~15 ms CPU per scenario; the timeout only guards against a hang (a loaded machine is not a verdict)
    tmo = 1500 if ck.tier == "quick" else 10000
    # detector for the residual flatten defect (empty section not placed finally): a tree without fixes/C10-flatten-empty-section-offset
    # is REPORTED by the monitor (violation / known finding) and compared with the model of that tree (`--mid`), so that every other
    # answer is still checked
    probe = vlib.sh([impl], inp="N 2e7331 8 0 N 2e7332 8 0 Z 0 66 0 5 Z 2 8 0 9 F L\n", timeout=60)[1]
    margs = ["--mid"] if ";1,0,8,66,0,0;" in probe else []
    if margs:
        ck.log("this tree places empty sections provisionally (no backward step in flatten): comparing with the model variant --mid")
    # detector for DESIGN 7.8 (Section::clear_flags ORs the complement): reported by the monitor, compared with that tree's model
    if "G:65535:" in vlib.sh([impl], inp="G 0 0 2\n", timeout=60)[1]:
        margs.append("--flags-pinned")
        ck.log("this tree's Section::clear_flags sets bits (no fixes/C10-section-clear-flags): comparing with the model variant --flags-pinned")
    ri = run_sharded(impl, lines, timeout=tmo)
    rm = run_sharded(model, lines, timeout=tmo, args=margs) if not isinstance(ri, tuple) else []
    if isinstance(ri, tuple):
        # the real CodeHolder died (signal / abort) while executing a scenario: that scenario is the failing input
        sc = ri[3]
        rc1, out1, err1 = vlib.sh([impl], inp=sc + "\n", timeout=120) if sc else (0, "", "")
        if sc and rc1 != 0:
            # classify the crash: the same single scenario under AddressSanitizer names the overflowing access
            detail = ""
            try:
                import re as _re
                san1 = ck.build_harness("c10", ["c10_harness.cpp"], variant="asan")
                _rc, _o, _e = vlib.sh([san1], inp=sc + "\n", timeout=300)
                m1 = _re.search(r"AddressSanitizer: ([a-z-]+)[^\n]*", _e)
                fr = _re.search(r"#\d+ 0x[0-9a-f]+ in (asmjit::[^\n]*?(?:codeholder|jitruntime)\.cpp:\d+)", _e)
                if m1:
                    detail = " [AddressSanitizer: %s%s]" % (m1.group(1), (" in " + fr.group(1)) if fr else "")
            except Exception as ex:
                detail = " [no sanitizer classification: %s]" % ex
            ck.violation("C10/implementation-crash", "the implementation crashed (rc %s) on a single scenario: memory-unsafe behaviour of the section functions; "
                         "last answers: %s%s" % (rc1, out1[-200:], detail), {"scenario": sc, "rc": rc1, "sanitizer": detail})
        else:
            ck.violation("C10/harness-crash", "harness (real CodeHolder) crashed or lost answers (rc %s) near scenario %r: %s" % (ri[1], sc[:300], ri[2][-300:]),
                         {"scenario": sc, "detail": str(ri[:3]), "broken": "correspondence stream C10 (process died)"}, no_input=True)
        ri = rm = []
    elif isinstance(rm, tuple):
        ck.violation("C10/model-driver-crash", "model driver crashed or lost answers (rc %s) at scenario %r: %s" % (rm[1], rm[3][:300], rm[2][-300:]),
                     {"scenario": rm[3], "detail": str(rm[:3]), "broken": "correspondence stream C10 (model driver died)"}, no_input=True)
        ri = rm = []
    disagreements = 0
    shrinks_left = 6          # failing scenarios are reduced operation by operation (first occurrence of a key only)
    nontrivial = set()
    ops_total = 0
    judged = 0
    pinned_like = 0
    for sc, x, y in zip(lines, ri, rm):
        ops_total += len(x.split(" "))
        try:
            js = judge(sc, x)
        except Exception as ex:     # an answer line the monitor cannot read is itself a finding about the implementation/harness
            js = [("C10/harness/unreadable-answer", "monitor could not interpret the implementation's answers (%s: %s)" % (type(ex).__name__, ex))]
        judged += 1
        for key, what in js:
            rp = {"scenario": sc, "impl": x, "model": y}
            if shrinks_left > 0 and ck.match_finding(key) is None and not any(v["key"] == key for v in ck.violations):
                shrinks_left -= 1

                def fails(c, key=key):
                    try:
                        return any(k2 == key for k2, _ in judge(c, vlib.sh([impl], inp=c + "\n", timeout=60)[1].strip()))
                    except Exception:
                        return False
                small = shrink(sc, fails)
                if small != sc:
                    rp["scenario_as_generated"] = sc
                    rp["scenario"] = small
                    rp["impl"] = vlib.sh([impl], inp=small + "\n", timeout=60)[1].strip()
                    rp["model"] = vlib.sh([model] + margs, inp=small + "\n", timeout=60)[1].strip()
                    what += " [reduced from %d to %d operations]" % (len(split_ops(sc) or []), len(split_ops(small) or []))
            ck.violation(key, what, rp)
        if " F:ok " in x + " " and x.count(",") > 10:
            nontrivial.add(sc)
        if x != y:
            disagreements += 1
            if all(ck.match_finding(k) is not None for k, _ in js):      # nothing NEW explains the difference
                if shrinks_left > 0 and not any(v["key"].startswith("C10/correspondence") for v in ck.violations):
                    shrinks_left -= 1

                    def differs(c):
                        return vlib.sh([impl], inp=c + "\n", timeout=60)[1].strip() != vlib.sh([model] + margs, inp=c + "\n", timeout=60)[1].strip()
                    small = shrink(sc, differs)
                    if small != sc:
                        sc_gen, sc = sc, small
                        x = vlib.sh([impl], inp=sc + "\n", timeout=60)[1].strip()
                        y = vlib.sh([model] + margs, inp=sc + "\n", timeout=60)[1].strip()
                k, a, b = first_diff(x, y)
                yp = vlib.sh([model, "--pinned"], inp=sc + "\n", timeout=120)[1].strip()
                hint = ""
                if yp == x:
                    pinned_like += 1
                    hint = " [the answers equal the model of the UNREPAIRED tree: fixes/C10-*.patch not applied?]"
                ck.violation("C10/correspondence" + ("/matches-unrepaired-model" if hint else ""), "implementation and proven model disagree at answer #%d (impl %s, model %s)%s; the independent "
                             "monitor found no violated property instance in this scenario" % (k, a[:120], b[:120], hint),
                             {"scenario": sc, "impl": x, "model": y, "broken": "correspondence of SectionModel.v (coq/theories/Sections) with /repo asmjit/core/codeholder.cpp"},
                             no_input=True)
    # ---- S5: the same scenarios under AddressSanitizer + UndefinedBehaviorSanitizer (memory safety of the copy paths is part of
    # "never writes outside"; UB in them is reported even when the answers are right)
    import re
    nsan = ncorpus + (400 if ck.tier == "quick" else 6000)
    sl = lines[:nsan]
    san_reports = 0
    if ri:
        san = ck.build_harness("c10", ["c10_harness.cpp"], variant="asan")
        rs = run_sharded(san, sl, shards=8, timeout=tmo)
        if isinstance(rs, tuple):
            san_reports = 1
            txt = rs[2]
            m = re.search(r"(\S+?):(\d+):\d+: runtime error: ([^\n]*)", txt)
            if m and "null pointer passed as argument" in m.group(3):
                key = "C10/ubsan/memcpy-null-source"
            elif m:
                key = "C10/ubsan/%s/%s" % (os.path.basename(m.group(1)), re.sub(r"[^a-z0-9]+", "-", m.group(3).lower())[:60])
            else:
                m2 = re.search(r"AddressSanitizer: ([a-z-]+)", txt)
                key = "C10/asan/%s" % (m2.group(1) if m2 else "abort")
            ck.violation(key, "sanitizer report while executing scenario %r: %s" % (rs[3][:200], (m.group(0) if m else txt[-300:])[:300]),
                         {"scenario": rs[3], "report": txt[-1500:]})
        else:
            for sc, x, z in zip(sl, ri, rs):
                if x != z:
                    ck.violation("C10/sanitizer/answers-differ", "plain and sanitizer builds answer differently (uninitialised or out-of-bounds read?): %s vs %s" % (x[:150], z[:150]),
                                 {"scenario": sc, "impl": x, "impl_sanitizer_build": z})
                    break
    fails = ck.proof_failures()
    if fails:
        # coqc stops at the first theorem that no longer checks: name that one (the rest of the file was not reached)
        import re as _re
        src = open(os.path.join(vlib.COQ, "theories", "Properties", "Properties_C10.v")).read().split("\n")
        starts = [(i + 1, m.group(1)) for i, l in enumerate(src) for m in [_re.match(r"\s*Theorem\s+([A-Za-z0-9_']+)", l)] if m]
        fl = getattr(ck, "coq_fail_line", None)
        broken = [n for (ln, n), nxt in zip(starts, starts[1:] + [(10 ** 9, "")]) if fl is not None and ln <= fl < nxt[0]]
        for name in (broken or [o["name"] for o in fails][:1]):
            ck.violation("C10/proof/" + name, "theorem %s no longer checks%s (%s)" % (
                name, " against the constants regenerated from this tree" if name == "C10_constants_match" else "", getattr(ck, "coq_log", "")[-600:]),
                {"broken": "theorem " + name, "file": "coq/theories/Properties/Properties_C10.v", "line": fl,
                 "not_reached": len(fails) - 1}, no_input=True)
    z = list(zip(lines, ri, rm))
    samples = [{"scenario": c[:400], "impl": x[:400], "model": y[:400]} for c, x, y in z[:2] + z[len(z) // 2: len(z) // 2 + 2]]
    return ck.finish(
        "proof",
        {"evaluations": ops_total, "distinct_nontrivial": len(nontrivial),
         "rule": "(what was COMPARED, not proved) one scenario = fresh CodeHolder + generated operations (new_section / fabricated sizes / lookups / flatten / code_size / "
                 "copy_flattened_data with guard bands / copy_section_data / call emission + relocate_to_base); evaluations = answered operations; "
                 "a scenario is non-trivial when flatten succeeded on it and its dumps list more than two sections (distinct scenario lines counted)",
         "samples": samples,
         "proved_for_all_inputs": [
             "section table sorted by (order,id), ids 0..n-1, lower-bound insertion, validation order and the 35-byte name limit, C-string entry points (any reachable holder)",
             "flatten: alignment, padding < alignment, order/disjointness of ANY two sections, padding ownership, placement of empty sections, code_size = end = estimate, "
             "overflow <-> kTooLarge/SIZE_MAX, idempotence, untouched fields (any wf holder, any number of sections, 64-bit wrap explicit)",
             "copy_flattened_data / copy_section_data: refusal iff a buffer does not fit, no write at or beyond dst_size on any path, exact image for all 4 flag combinations, totality with kPadSectionBuffer",
             "JitRuntime::_add: its own by-id copy loop = copy_flattened_data(kPadSectionBuffer) cell by cell; final size = estimate - reduction; installed bytes = relocated bytes (call / embed_label / "
             "embed_label_delta / jz-abs sites through C04's relocate); totality of the relocated image",
             "address-table tail of relocate_to_base (last / not last / absent), run-length copy functions = flat ones, size_t = 32 bits variant, Section flags"],
         "compared_on_this_run": "every answer of the real CodeHolder / JitRuntime on the generated scenarios below with the extracted model (token by token), and judged by the "
                                 "independent monitor; constants of /repo's headers with the model through coq/gen/C10Consts.v; corpus + a prefix of the stream again under ASan+UBSan",
         "scenarios": len(lines), "corpus_scenarios": ncorpus, "scenarios_judged_by_oracle": judged,
         "traces_validated_against_impl": len(lines), "model_vs_impl_disagreements": disagreements,
         "translator": {"file": "coq/gen/" + GEN_NAME, "constants": len(GEN_KEYS), "path": "regenerated (differs from snapshot)" if gen_changed else "fast (identical to committed snapshot)"},
         "model_variant": (" ".join(margs) if margs else "final"), "sanitizer_scenarios": len(sl), "sanitizer_reports": san_reports,
         "input_distribution": dict(counters)},
        assumptions=["the C++ harness calls the real CodeHolder::{new_section, section_by_name, flatten, code_size, copy_flattened_data, copy_section_data, "
                     "relocate_to_base} of /repo's working tree; section contents are fabricated through the public CodeBuffer::_size / Section::_virtual_size "
                     "(and through a real x86-64 assembler for the address-table scenarios)",
                     "theorems are about the Gallina model (64-bit size_t); the model is tied to the code by the differential run of this check",
                     "the model describes the tree AFTER fixes/C10-section-name-zero, C10-flatten-empty-prev, C10-code-size-align-overflow"],
        checker_cmd="coqc (Coq 8.16.1) -Q coq/theories Verif coq/theories/Properties/Properties_C10.v  [full .vo build of its dependencies]",
        trusted_base=["Coq 8.16.1 kernel incl. vm_compute (no native_compute)", "no axioms: every theorem 'Closed under the global context'",
                      "extraction (ExtrOcamlBasic only) + OCaml 4.13.1 + zarith glue in ml/zconv.ml", "ml/c10_driver.ml (scenario interpreter around the extracted functions)",
                      "harness/c10_harness.cpp, tools/checks/c10.py (generator, differ, python monitor)"])

"""C03 — Every label reference resolves to the position where the label was bound.

S2 theorems : coq/theories/Properties/Properties_C03.v (model coq/theories/Labels/LabelsModel.v; re-checked by coqc on every run)
S3 tie      : harness/c03_harness.cpp drives the REAL x86-64 / x86-32 / AArch64 assemblers and CodeHolder of /repo's working tree with
              generated label programs; this module turns the harness trace (every instruction as its emitted bytes with a hole) into
              model operations, the extracted model (coq/extract/Extract_Labels.v + ml/c03_driver.ml) must predict every error code,
              section size, unresolved count, patched byte, label position and relocation entry.
S4 search   : an independent python monitor (field decoders and range rules written from the ISA manuals; its own label/size
              bookkeeping) judges EVERY program: each reference field = target - site + addend, unresolvable references are counted
              and left untouched, errors are justified.
"""
import json
import os
import random
from concurrent.futures import ThreadPoolExecutor

import vlib

M64 = (1 << 64) - 1


def sext(v, n):
    v &= (1 << n) - 1
    return v - (1 << n) if v >> (n - 1) else v


# ------------------------------------------------------------------ ISA knowledge (independent of AsmJit and of the Coq model)
# kind -> (value size, field mask, unit shift (discard), bits, field lsb or None for adr)
KINDS = {
    "rel8": (1, 0xFF, 0, 8, 0), "rel32": (4, 0xFFFFFFFF, 0, 32, 0),
    "imm26": (4, 0x03FFFFFF, 2, 26, 0), "imm19": (4, 0x7FFFF << 5, 2, 19, 5), "imm14": (4, 0x3FFF << 5, 2, 14, 5),
    "adr": (4, (3 << 29) | (0x7FFFF << 5), 0, 21, None), "adrp": (4, (3 << 29) | (0x7FFFF << 5), 12, 21, None),
}
# what CodeHolder::new_fixup must have been given: (OffsetType, value_size, bits, shift, discard)
KIND_FORMAT = {"rel8": (0, 1, 8, 0, 0), "rel32": (0, 4, 32, 0, 0), "imm26": (0, 4, 26, 0, 2), "imm19": (0, 4, 19, 5, 2),
               "imm14": (0, 4, 14, 5, 2), "adr": (2, 4, 21, 5, 0), "adrp": (3, 4, 21, 5, 12)}
A64_KIND = {"b": "imm26", "bl": "imm26", "bcond": "imm19", "cbz": "imm19", "cbnz": "imm19", "tbz": "imm14", "tbnz": "imm14",
            "adr": "adr", "adrp": "adrp", "ldr": "imm19", "ldrsw": "imm19", "ldrv": "imm19", "prfm": "imm19"}
A64_DB_NAME = {"b": "b", "bl": "bl", "bcond": "b.<cond>", "cbz": "cbz", "cbnz": "cbnz", "tbz": "tbz", "tbnz": "tbnz", "adr": "adr", "adrp": "adrp",
               "ldr": "ldr", "ldrsw": "ldrsw", "ldrv": "ldr", "prfm": "prfm"}
_A64_DB = []


def a64_db_names():
    """mnemonic number -> name and row id -> form text of the generated database snapshot the theorems are proven against
    (coq/gen/IsaA64Db.v: header comment `mnemonics: 0=abs 1=adc ...`, per row `(* form | template *) {| r_id := N;`)"""
    if not _A64_DB:
        import re
        txt = open(os.path.join(vlib.COQ, "gen", "IsaA64Db.v")).read()
        head = txt[txt.index("mnemonics:"):txt.index("*)")].split("fields:")[0]
        mn = {}
        for n, name in re.findall(r"(\d+)=(\S+)", head):
            mn.setdefault(int(n), name)
        form = {int(i): f.strip() for f, i in re.findall(r"^\s*\(\* (.*?) \| .*? \*\) \{\| r_id := (\d+);", txt, re.M)}
        _A64_DB.append((mn, form))
    return _A64_DB[0]


A64_LABEL_ARG = {"b": 2, "bl": 2, "bcond": 3, "cbz": 4, "cbnz": 4, "tbz": 4, "tbnz": 4, "adr": 3, "adrp": 3, "ldr": 4, "ldrsw": 3, "ldrv": 4, "prfm": 3}
A64_ADDEND_ARG = {"ldr": 5, "ldrsw": 4, "ldrv": 5, "prfm": 4}
X86_BRANCH = ("jmp", "jcc", "call", "jecxz", "loop")
X86_LABEL_ARG = {"jmp": 2, "jcc": 3, "call": 2, "jecxz": 2, "loop": 2, "lea": 3, "movload": 3, "movmi": 2, "addmi8": 2}


def decode_field(kind, w):
    vs, mask, dl, bits, lsb = KINDS[kind]
    if lsb is None:
        return sext((((w >> 5) & 0x7FFFF) << 2) | ((w >> 29) & 3), 21) << dl
    return sext(w >> lsb, bits) << dl


def encodable(kind, d):
    vs, mask, dl, bits, lsb = KINDS[kind]
    if d & ((1 << dl) - 1):
        return False
    return -(1 << (bits - 1)) <= (d >> dl) < (1 << (bits - 1))


def x86_branch_bytes(arch, t):
    """(prefix bytes, short opcode bytes or None, long opcode bytes or None) from the Intel SDM."""
    ins = t[1]
    if ins == "jmp":
        return [], [0xEB], [0xE9]
    if ins == "jcc":
        cc = int(t[2]) & 15
        return [], [0x70 + cc], [0x0F, 0x80 + cc]
    if ins == "call":
        return [], None, [0xE8]
    if ins == "jecxz":
        return ([0x67] if arch == "x64" else []), [0xE3], None
    if ins == "loop":
        return [], [0xE2], None
    raise ValueError(ins)


def mem_imm_size(t):
    ins = t[1]
    if ins == "movmi":
        return {1: 1, 2: 2, 4: 4, 8: 4}[int(t[4])]
    if ins == "addmi8":
        return 1
    return 0


def hexs(bs):
    return bytes(bs).hex() if bs else "-"


# ------------------------------------------------------------------ section images
class Image:
    """section image parsed from a SEC part: list of (offset, bytes or None(gap), length)"""

    def __init__(self, segs, size):
        self.parts = []
        off = 0
        if segs != "-":
            for s in segs.split(","):
                if s[0] == "Z":
                    n = int(s[1:])
                    self.parts.append((off, None, n)); off += n
                else:
                    b = bytes.fromhex(s)
                    self.parts.append((off, b, len(b))); off += len(b)
        self.size = size
        self.total = off

    def read(self, off, n):
        import bisect
        if not hasattr(self, "starts"):
            self.starts = [p[0] for p in self.parts]
        out = bytearray()
        i = max(0, bisect.bisect_right(self.starts, off) - 1)
        while i < len(self.parts):
            (o, b, ln) = self.parts[i]
            if o >= off + n:
                break
            if o + ln > off:
                lo = max(off, o); hi = min(off + n, o + ln)
                out += (b[lo - o:hi - o] if b is not None else bytes(hi - lo))
            i += 1
        return bytes(out) if len(out) == n else None


def canon_segs(segs):
    if segs == "-":
        return []
    out = []
    for s in segs.split(","):
        if s[0] == "Z":
            n = int(s[1:])
            if n == 0:
                continue
            if out and out[-1][0] == "Z":
                out[-1] = ("Z", out[-1][1] + n)
            else:
                out.append(("Z", n))
        else:
            if out and out[-1][0] == "H":
                out[-1] = ("H", out[-1][1] + s)
            else:
                out.append(("H", s))
    return out


def parse_dump(line, with_offset):
    """-> dict(unres, secs={id:(size, segs)}, offs={id:off}, labs={id:'u'|'s:o'}, rels=[tuple])"""
    parts = line.split(" | ")
    head = parts[0].split()
    d = {"unres": int(head[1]), "secs": {}, "offs": {}, "labs": {}, "rels": [], "raw_segs": {}}
    for p in parts[1:]:
        f = p.split()
        if f[0] == "SEC":
            if with_offset:
                d["offs"][int(f[1])] = int(f[2]); size = int(f[3]); segs = f[4]
            else:
                size = int(f[2]); segs = f[3]
            d["secs"][int(f[1])] = (size, canon_segs(segs))
            d["raw_segs"][int(f[1])] = (segs, size)
        elif f[0] == "LAB":
            d["labs"][int(f[1])] = f[2]
        elif f[0] == "REL":
            d["rels"].append(tuple(f[1:]))
    return d


# ------------------------------------------------------------------ generator
class Gen:
    """Generates label programs as harness input lines. Aimed at the case splits of the proofs: bound before / after / never,
    same / other section, every displacement kind, distances around every range limit, many pending references per label."""

    def __init__(self, rng, tier):
        self.rng = rng
        self.tier = tier

    # -- x86 / x64
    def x_ref(self, arch, l, near=True, allow_mem=True):
        r = self.rng
        c = r.random()
        if c < 0.22:
            return "R jmp %d %d" % (l, r.choice([0, 0, 0, 1, 2]))
        if c < 0.44:
            return "R jcc %d %d %d" % (r.randrange(16), l, r.choice([0, 0, 0, 1, 2]))
        if c < 0.54:
            return "R call %d" % l
        if c < 0.59 and near:
            return "R jecxz %d" % l
        if c < 0.64 and near:
            return "R loop %d" % l
        if not allow_mem:
            return "R jmp %d 0" % l
        disp = r.choice([0, 0, 4, 8, -8, 16, 1, -1, 127, -128, 4096, -4096, r.randrange(-100000, 100000)])
        if c < 0.74:
            return "R lea %d %d %d" % (r.randrange(16 if arch == "x64" else 8), l, disp)
        if c < 0.82:
            return "R movload %d %d %d" % (r.randrange(16 if arch == "x64" else 8), l, disp)
        if c < 0.94:
            size = r.choice([1, 2, 4, 8] if arch == "x64" else [1, 2, 4])
            imm = {1: r.randrange(-128, 128), 2: r.randrange(-32768, 32768), 4: r.randrange(-2 ** 31, 2 ** 31), 8: r.randrange(-2 ** 31, 2 ** 31)}[size]
            return "R movmi %d %d %d %d" % (l, disp, size, imm)
        return "R addmi8 %d %d %d" % (l, disp, r.randrange(-128, 128))

    def a_ref(self, l, kinds=None):
        r = self.rng
        ins = r.choice(kinds or ["b", "bl", "bcond", "cbz", "cbnz", "tbz", "tbnz", "adr", "ldr", "ldrsw", "ldrv", "adrp", "prfm"])
        add = r.choice([0, 0, 0, 4, 8, -4, -8, 16, 1024, -1024, 2, 1])
        if ins in ("b", "bl"):
            return "R %s %d" % (ins, l)
        if ins == "bcond":
            return "R bcond %d %d" % (r.randrange(14), l)
        if ins in ("cbz", "cbnz"):
            return "R %s %d %d %d" % (ins, r.randrange(2), r.randrange(31), l)
        if ins in ("tbz", "tbnz"):
            return "R %s %d %d %d" % (ins, r.randrange(31), r.randrange(64), l)
        if ins in ("adr", "adrp"):
            return "R %s %d %d" % (ins, r.randrange(31), l)
        if ins == "ldr":
            return "R ldr %d %d %d %d" % (r.randrange(2), r.randrange(31), l, add)
        if ins == "ldrsw":
            return "R ldrsw %d %d %d" % (r.randrange(31), l, add)
        if ins == "prfm":
            return "R prfm %d %d %d" % (r.randrange(32), l, add)
        return "R ldrv %d %d %d %d" % (r.choice([4, 8, 16]), r.randrange(32), l, add)

    def ref(self, arch, l, **kw):
        return self.a_ref(l) if arch == "a64" else self.x_ref(arch, l, **kw)

    def filler(self, n, arch):
        """lines that append exactly n bytes"""
        out = []
        r = self.rng
        while n > 0:
            if n > 600:
                out.append("G %d" % (n - 300)); n = 300
            else:
                k = n if r.random() < 0.5 else r.randrange(1, n + 1)
                out.append("D %d %d" % (k, r.getrandbits(24))); n -= k
        return out

    # -- template 1: one kind, distance around its limit, forward or backward, same section
    def limit_program(self, arch):
        r = self.rng
        L = ["P " + arch, "L", "L"]
        if arch == "a64":
            ins, lim, unit = r.choice([("tbz", 1 << 15, 4), ("tbnz", 1 << 15, 4), ("bcond", 1 << 20, 4), ("cbz", 1 << 20, 4), ("ldr", 1 << 20, 4),
                                       ("adr", 1 << 20, 1), ("ldrv", 1 << 20, 4), ("ldrsw", 1 << 20, 4), ("cbnz", 1 << 20, 4), ("prfm", 1 << 20, 4)] +
                                      ([("b", 1 << 27, 4), ("bl", 1 << 27, 4)] if r.random() < (0.12 if self.tier == "quick" else 0.3) else []))
            line = self.a_ref(0, [ins])
            delta = r.choice([-8, -4, -4, 0, 0, 4, 4, 8]) if unit == 4 else r.choice([-2, -1, 0, 0, 1, 2])
            if r.random() < 0.1:
                delta += r.choice([1, 2, 3])   # misaligned target
            if r.random() < 0.5:    # backward: label, filler, instruction: disp = -(n) ; limit is -lim
                n = lim + delta
                L += ["B 0"] + self.filler(n, arch) + [line]
            else:                   # forward: instruction at p, label at p + n ; limit is lim - unit
                n = lim - unit + delta
                L += [line] + self.filler(n - 4, arch) + ["B 0"]
        else:
            form = r.choice(["short", "short", "short", "long"])
            if form == "short":
                line = r.choice(["R jmp 0 %d" % r.choice([0, 1]), "R jcc %d 0 %d" % (r.randrange(16), r.choice([0, 1])), "R jecxz 0", "R loop 0"])
                back = r.random() < 0.5
                # rel8 limits: -128 / +127 measured from the end of the 2-byte (3 with 67h) instruction
                ilen = 3 if (line.startswith("R jecxz") and arch == "x64") else 2
                if back:
                    n = 128 - ilen + r.choice([-3, -2, -1, 0, 0, 1, 1, 2, 3])
                    L += ["B 0"] + self.filler(max(n, 0), arch) + [line]
                else:
                    n = 127 + r.choice([-3, -2, -1, 0, 0, 1, 1, 2, 3])
                    L += [line] + self.filler(n, arch) + ["B 0"]
            else:
                line = self.x_ref(arch, 0, near=False)
                n = r.choice([0, 1, 120, 127, 128, 129, 200, 32767, 32768, 65536])
                if r.random() < 0.5:
                    L += ["B 0"] + self.filler(n, arch) + [line]
                else:
                    L += [line] + self.filler(n, arch) + ["B 0"]
        if r.random() < 0.3:
            L.append(self.ref(arch, 0))
        L += ["F", "E"]
        return L

    # -- template 2: cross-section distance around the rel32 / imm26 / imm19 limit via a fabricated virtual size
    def xsection_limit_program(self, arch):
        r = self.rng
        L = ["P " + arch, "L", "L", "NS 1"]
        if arch == "a64":
            ins, lim = r.choice([("b", 1 << 27), ("bl", 1 << 27), ("bcond", 1 << 20), ("adr", 1 << 20), ("ldr", 1 << 20), ("tbz", 1 << 15), ("adrp", 1 << 32)])
            line = self.a_ref(0, [ins])
            unit = 4096 if ins == "adrp" else 4
            pre = r.randrange(0, 5) * 4
            delta = r.choice([-2, -1, -1, 0, 0, 1, 2]) * unit
            bound_first = r.random() < 0.5
            fwd = r.random() < 0.6
            if fwd:   # reference in .text at `pre`, label at start (+16) of section 1 placed at V
                tgt_in = 16
                v = pre + (lim - unit + delta) - tgt_in
                body = self.filler(pre, arch) + [line]
                other = ["S 1"] + self.filler(tgt_in, arch) + ["B 0", "S 0"]
                L += (other + body if bound_first else body + other) + ["V 0 %d" % v]
            else:     # label in .text at pre, reference in section 1 at 16
                v = pre + (lim + delta) - 16
                body = self.filler(pre, arch) + ["B 0"]
                other = ["S 1"] + self.filler(16, arch) + [line, "S 0"]
                L += (body + other if bound_first else other + body) + ["V 0 %d" % max(v, 0)]
        else:
            line = r.choice(["R jmp 0 %d" % r.choice([0, 2]), "R call 0", "R jcc %d 0 0" % r.randrange(16), "R lea 3 0 %d" % r.choice([0, 8, -8]),
                             "R movmi 0 %d 4 77" % r.choice([0, 4])] if arch == "x64" else ["R jmp 0 0", "R call 0", "R jcc %d 0 2" % r.randrange(16)])
            pre = r.randrange(0, 40)
            delta = r.choice([-12, -8, -5, -4, -3, -2, -1, 0, 0, 1, 2, 3, 4, 5, 8, 12])
            bound_first = r.random() < 0.5
            fwd = r.random() < 0.6
            lim = 1 << 31
            if fwd:
                v = pre + lim + delta
                body = self.filler(pre, arch) + [line]
                other = ["S 1"] + self.filler(8, arch) + ["B 0", "S 0"]
                L += (other + body if bound_first else body + other) + ["V 0 %d" % v]
            else:
                v = pre + lim + delta
                body = self.filler(pre, arch) + ["B 0"]
                other = ["S 1"] + self.filler(8, arch) + [line, "S 0"]
                L += (body + other if bound_first else other + body) + ["V 0 %d" % v]
        L += ["F"] + (["F"] if r.random() < 0.3 else []) + ["E"]
        return L

    # -- template 3: random interleaving
    def random_program(self, arch):
        r = self.rng
        nsec = r.choice([1, 1, 2, 2, 3])
        nlab = r.randrange(1, 9)
        L = ["P " + arch] + ["L"] * nlab + ["NS %d" % r.choice([1, 4, 8, 16, 64]) for _ in range(nsec - 1)]
        bound = set()
        nops = r.randrange(5, 120 if self.tier == "quick" else 400)
        burst_label = r.randrange(nlab)
        for _ in range(nops):
            c = r.random()
            if c < 0.42:
                l = burst_label if r.random() < 0.5 else r.randrange(nlab)
                L.append(self.ref(arch, l))
            elif c < 0.52:
                l = r.randrange(nlab)
                if l in bound and r.random() < 0.85:
                    continue
                L.append("B %d" % l); bound.add(l)
            elif c < 0.66:
                n = r.choice([1, 2, 3, 4, 4, 8, 12, 16, 30, 100, 127, 128, 129, 250]) if arch != "a64" else r.choice([4, 4, 8, 12, 16, 64, 1, 2, 3, 256])
                L.append("D %d %d" % (n, r.getrandbits(24)))
            elif c < 0.70:
                L.append("G %d" % r.choice([0, 1, 100, 1000, 5000, 40000, 70000]))
            elif c < 0.76 and nsec > 1:
                L.append("S %d" % r.randrange(nsec))
            elif c < 0.82:
                L.append("A %d %d" % (r.randrange(3), r.choice([1, 2, 4, 8, 16, 32, 64])))
            elif c < 0.88:
                L.append("EL %d %d" % (r.randrange(nlab), r.choice([4, 8, 8, 0] if arch != "x86" else [4, 4, 0])))
            elif c < 0.96:
                L.append("ED %d %d %d" % (r.randrange(nlab), r.randrange(nlab), r.choice([1, 2, 4, 8])))
            elif c < 0.975:
                L.append(self.ref(arch, nlab + r.randrange(3)))      # invalid label (x86-32 [label] path included: fixed by 5010c49)
            elif c < 0.985:
                L.append("EL %d %d" % (r.randrange(nlab), r.choice([3, 5, 16])))   # invalid size
            else:
                L.append("B %d" % (nlab + 1))
        tail = r.random()
        if tail < 0.7:    # bind everything that is still unbound
            for l in range(nlab):
                if l not in bound:
                    if nsec > 1 and r.random() < 0.5:
                        L.append("S %d" % r.randrange(nsec))
                    if arch == "a64" and r.random() < 0.8:
                        L.append("A 1 4")
                    L.append("B %d" % l)
        if tail < 0.92:
            twice = r.random() < 0.2
            # laying out twice: a second flatten() moves an EMPTY section (and the labels bound in it) to the aligned end of its extended
            # predecessor, references resolved by the first layout would be stale - that is C10's subject, keep sections non-empty there
            L += self.no_empty_section(nsec)     # laying out twice with empty sections is fine again: flatten() is idempotent (28f9637)
            L.append("F")
            if twice:
                L.append("F")
        L.append("E")
        return L

    def no_empty_section(self, nsec, force=False):
        """half of the programs give every section some bytes before laying out, the other half may leave sections empty
        (DESIGN 7.26 made flatten() non-idempotent for empty aligned sections; fixed in /repo by 695208d)"""
        out = []
        if not force and self.rng.random() < 0.5:
            return out        # sections may stay empty: flatten() no longer extends empty sections (C10 fix 695208d), layout is idempotent
        for k in range(nsec):
            out += ["S %d" % k, "D 4 %d" % self.rng.getrandbits(24)]
        return out

    # -- template 4: many pending references on one label, across sections
    def burst_program(self, arch, n=None, switch=0.3, bind_sec=None, long_only=False):
        r = self.rng
        n = n or r.choice([2, 5, 17, 64])
        L = ["P " + arch, "L", "NS 16", "NS 4"]
        for i in range(n):
            if r.random() < switch:
                L.append("S %d" % r.randrange(3))
            if long_only:     # forms that reach any distance inside the program, so the bind is accepted and walks the whole chain
                L.append(r.choice(["R b 0", "R bl 0"]) if arch == "a64" else
                         r.choice(["R jmp 0 2", "R call 0", "R jcc %d 0 2" % r.randrange(16)] + (["R lea 3 0 8", "R movmi 0 0 4 77"] if arch == "x64" else [])))
            else:
                L.append(self.ref(arch, 0, near=False))
            if r.random() < 0.4:
                L += self.filler(r.choice([4, 8, 16, 132]), arch)
        L.append("S %d" % (r.randrange(3) if bind_sec is None else bind_sec))
        if arch == "a64":
            L.append("A 1 4")
        L += ["B 0"]
        for i in range(r.randrange(0, 4)):
            L.append("S %d" % r.randrange(3))
            L.append(self.ref(arch, 0, near=False))
        L += self.no_empty_section(3) + ["F", "E"]
        return L

    # -- template 5: layout+resolve while labels are still unbound, then bind them (in the LAST section, so no offset moves) and resolve again
    def resolve_early_program(self, arch):
        r = self.rng
        nlab = r.randrange(2, 6)
        L = ["P " + arch] + ["L"] * nlab + ["NS %d" % r.choice([1, 4, 16])]
        early = set(r.sample(range(nlab), r.randrange(0, nlab)))
        for _ in range(r.randrange(3, 25)):
            c = r.random()
            if c < 0.55:
                L.append(self.ref(arch, r.randrange(nlab), near=False))
            elif c < 0.7:
                L.append("S %d" % r.randrange(2))
            elif c < 0.85:
                L.append("D %d %d" % (r.choice([4, 8, 16, 100]) if arch == "a64" else r.choice([1, 3, 8, 100, 130]), r.getrandbits(24)))
            elif early:
                if arch == "a64":
                    L.append("A 1 4")
                L.append("B %d" % early.pop())
        L += ["S 0", "D 4 1", "S 1", "D 4 2", "F"]
        if r.random() < 0.3:
            L.append("F")
        # phase 2: only the last section grows
        L.append("S 1")
        for l in range(nlab):
            if r.random() < 0.8:
                if arch == "a64":
                    L.append("A 1 4")
                L.append("B %d" % l)      # already bound ones answer already_bound
            if r.random() < 0.5:
                L.append(self.ref(arch, r.randrange(nlab), near=False))
            if r.random() < 0.4:
                L.append("D %d %d" % (r.choice([4, 8, 64]), r.getrandbits(24)))
        L += ["F", "E"]
        return L

    def programs(self):
        r = self.rng
        q = self.tier == "quick"
        out = []
        for arch, w in (("x64", 1.0), ("a64", 1.0), ("x86", 0.4)):
            for _ in range(int((260 if q else 6000) * w)):
                out.append(self.limit_program(arch))
            for _ in range(int((200 if q else 4000) * w)):
                out.append(self.xsection_limit_program(arch))
            for _ in range(int((500 if q else 12000) * w)):
                out.append(self.random_program(arch))
            for _ in range(int((60 if q else 1000) * w)):
                out.append(self.burst_program(arch))
            for _ in range(int((120 if q else 2500) * w)):
                out.append(self.resolve_early_program(arch))
            # more than 1000 pending references on one label (fixup pool / chain length) and buffers grown across several 8 KiB..64 KiB steps
            for _ in range(1 if q else 8):
                big = self.burst_program(arch, n=r.choice([1100, 1300] if q else [1100, 1500, 2500]), switch=(0.0 if q else r.choice([0.0, 0.0, 0.002, 0.3])),
                                         bind_sec=(0 if q else None), long_only=True)
                k = r.randrange(3, len(big) - 3)
                # growth across the 8 KiB.. steps: some explicit bytes and a larger zero run (explicit bytes are a single chunk the sparse model
                # must measure on every traversal, so keep them moderate)
                big[k:k] = ["D %d %d" % (r.choice([3000, 9000]), r.getrandbits(24)), "G %d" % r.choice([20000, 70000, 300000])]
                out.append(big)
        r.shuffle(out)
        return out


# ------------------------------------------------------------------ translation harness trace -> model operations, with the monitor's own bookkeeping
class Ref:
    __slots__ = ("sec", "site", "kind", "label", "rel", "w0", "line", "idx", "ibeg", "ilen", "cls", "imm")


def _ref_init(self):
    self.ibeg = self.ilen = self.cls = self.imm = None


Ref.__init__ = _ref_init


class Tracker:
    """Independent bookkeeping of one program (sizes from the emitted bytes, label positions, references)."""

    def __init__(self, arch):
        self.arch = arch
        self.cur = 0
        self.sizes = [0]
        self.labels = []          # None | (sec, off)
        self.refs = []
        self.absrefs = []         # (sec, region offset, lead, size, label, addend)
        self.deltas = []          # (sec, off, size, l, b, immediate?, value bytes)
        self.nflat = 0
        self.refused_binds = 0
        self.x86_q = []           # (MEAN query for C01's decoder through Reloc.X86Meaning.site_target, address the label was bound at, instruction)
        self.a64_q = []           # (query for the structural a64 decoder of the model, address the monitor's own decoder gets, instruction)
        self.offs = None
        self.problems = []        # (key, what)

    def label_ok(self, l):
        return 0 <= l < len(self.labels)


FLAT_GAP_LIMIT = 1 << 13
DELTA_OP = {"op": "DELTA"}     # "DELTAC" when the tree has the range check of fixes/C03-label-delta-range.patch (decided by a probe per run)
PROBE_DELTA = ["P x64", "L", "L", "B 0", "G 300", "B 1", "ED 1 0 1", "E"]


def probe_delta_checked(impl):
    rc, out, err = run_lines(impl, PROBE_DELTA, timeout=60)
    return rc == 0 and len(out) == len(PROBE_DELTA) and out[6].split()[1] == "invalid_disp"


def translate(prog, hout):
    """prog: input lines, hout: harness output lines (same length). Returns (model_lines, expected_answers, tracker).
    expected_answers[i] is what the model must print for model_lines[i] (None = do not compare)."""
    arch = prog[0].split()[1]
    tk = Tracker(arch)
    # the flat byte-buffer model (sparse buffers; proven equivalent) always runs alongside
    ml, exp = ["PF"], ["P"]

    def push(line, h, unres=True):
        # h = harness fields: tag err cursec cursize unres emitted fx
        ml.append(line)
        exp.append("%s %s %s %s" % (h[1], h[2], h[3], h[4]))

    for inp, out in zip(prog[1:], hout[1:]):
        t = inp.split()
        h = out.split()
        tag = t[0]
        if h[0] == "BAD" or h[0] != tag:
            tk.problems.append(("C03/harness-protocol", "harness answered %r to %r" % (out, inp)))
            break
        if tag == "F":
            # F e1 e2 unres offs
            if h[1] != "ok":
                tk.problems.append(("C03/flatten-error", "flatten() returned %s" % h[1]))
            offs = h[4]
            ml.append("RESOLVE " + offs)
            exp.append("%s %d %d %s" % (h[2], tk.cur, tk.sizes[tk.cur], h[3]))
            tk.offs = [int(x) for x in offs.split(",")]
            tk.nflat += 1
            continue
        if tag == "E":
            ml.append("DUMP"); exp.append(None)
            continue
        err, emitted = h[1], h[5]
        before = tk.sizes[tk.cur]
        nbytes = 0
        data = b""
        if emitted.startswith("Z"):
            nbytes = int(emitted[1:])
        elif emitted.startswith("#"):
            if int(emitted[1:]) != len(tk.sizes):
                tk.problems.append(("C03/section-id", "%s created section id %s, expected %d" % (inp, emitted[1:], len(tk.sizes))))
        elif emitted != "-":
            data = bytes.fromhex(emitted); nbytes = len(data)
        if tag == "L":
            tk.labels.append(None); push("NL", h)
        elif tag == "NS":
            tk.sizes.append(0); push("NS", h)
        elif tag == "S":
            k = int(t[1])
            if 0 <= k < len(tk.sizes):
                tk.cur = k
            push("S %d" % k, h)
        elif tag == "B":
            l = int(t[1])
            if tk.label_ok(l) and tk.labels[l] is None:
                # bind_label pre-checks the fixups it would patch (same section): one unencodable displacement refuses the bind and the
                # label stays unbound (fix 6b578fc). Decided here with the monitor's own range rules.
                bad = [rf for rf in tk.refs if rf.label == l and rf.sec == tk.cur and not encodable(rf.kind, before - rf.site + rf.rel)]
                if bad:
                    tk.refused_binds += 1
                    if err != "invalid_disp":
                        tk.problems.append(("C03/bind-accepted-unencodable", "%s at %d:%d returned %s although %s cannot reach it (displacement %d)"
                                            % (inp, tk.cur, before, err, bad[0].line, before - bad[0].site + bad[0].rel)))
                else:
                    tk.labels[l] = (tk.cur, before)
                    if err != "ok":
                        tk.problems.append(("C03/spurious-error", "%s at %d:%d returned %s although every pending reference of the label is encodable"
                                            % (inp, tk.cur, before, err)))
            push("BIND %d" % l, h)
        elif tag == "A" and err != "ok":
            # refused alignment: only right for code alignment at an offset that is not a multiple of 4 (AArch64) or a bad alignment value
            n = int(t[2])
            if nbytes or not ((arch == "a64" and int(t[1]) == 0 and before % 4 != 0) or n & (n - 1) or n > 64):
                tk.problems.append(("C03/align", "%s at size %d returned %s" % (inp, before, err)))
        elif tag in ("D", "A"):
            push("RAW " + (emitted if emitted != "-" else "-"), h)
            if tag == "A" and err == "ok":
                n = int(t[2])
                if n and ((before + nbytes) % n != 0 or nbytes >= n):
                    tk.problems.append(("C03/align", "%s at size %d appended %d bytes" % (inp, before, nbytes)))
        elif tag == "G":
            push(("GAP %d" % nbytes) if nbytes else "RAW -", h)
        elif tag == "V":
            push("RAW -", h)
        elif tag == "EL":
            l, size = int(t[1]), int(t[2])
            if size == 0:
                size = 4 if arch == "x86" else 8
            push("ABS %d %d 0 - -" % (l, size), h)
            if err == "ok":
                tk.absrefs.append((tk.cur, before, 0, size, l, 0))
        elif tag == "ED":
            l, b, size = int(t[1]), int(t[2]), int(t[3])
            if size == 0:
                size = 4 if arch == "x86" else 8
            push("%s %d %d %d" % (DELTA_OP["op"], l, b, size), h)
            if err == "invalid_disp":
                # only right (range-checked tree) for two labels bound in one section whose difference does not fit `size` signed bytes
                ok = (tk.label_ok(l) and tk.label_ok(b) and tk.labels[l] is not None and tk.labels[b] is not None and tk.labels[l][0] == tk.labels[b][0]
                      and size < 8 and not -(1 << (8 * size - 1)) <= tk.labels[l][1] - tk.labels[b][1] < (1 << (8 * size - 1)))
                if not ok:
                    tk.problems.append(("C03/spurious-error", "%s returned invalid_disp" % inp))
            if err == "ok":
                imm = (tk.label_ok(l) and tk.label_ok(b) and tk.labels[l] is not None and tk.labels[b] is not None
                       and tk.labels[l][0] == tk.labels[b][0])
                tk.deltas.append((tk.cur, before, size, l, b, imm, data, (tk.labels[l][1] - tk.labels[b][1]) if imm else None))
        elif tag == "R":
            translate_ref(tk, t, h, data, before, ml, exp, inp)
        else:
            tk.problems.append(("C03/harness-protocol", "unknown line %r" % inp))
            break
        tk.sizes[tk.cur] = before + nbytes if tag != "S" else tk.sizes[tk.cur]
    return ml, exp, tk


def translate_ref(tk, t, h, data, before, ml, exp, inp):
    arch = tk.arch
    ins = t[1]
    err = h[1]
    answer = "%s %s %s %s" % (h[1], h[2], h[3], h[4])
    fx = h[6]

    def check_fx(kind, site, rel, linked=False):
        if fx == "-":
            return
        f = fx.split(",")
        if fx == "?" or len(f) != 10:
            tk.problems.append(("C03/fixup-format", "%s: no fixup found although the unresolved count grew" % inp)); return
        want = KIND_FORMAT[kind] if kind in KIND_FORMAT else None
        got = tuple(int(x) for x in f[:5])
        if want and (got != want or int(f[5]) != 0 or int(f[6]) != want[1] or int(f[7]) != site or int(f[8]) != rel):
            tk.problems.append(("C03/fixup-format", "%s: new_fixup got format/offset/rel %s, the ISA rule for %s is %s at site %d rel %d" % (inp, fx, kind, want, site, rel)))

    if arch == "a64":
        kind = A64_KIND[ins]
        l = int(t[A64_LABEL_ARG[ins]])
        rel = int(t[A64_ADDEND_ARG[ins]]) if ins in A64_ADDEND_ARG else 0
        mask = KINDS[kind][1]
        if err == "ok" and len(data) == 4:
            w = int.from_bytes(data, "little")
            w0 = w & ~mask
            ml.append("REF %s %d %d - %d -" % (kind, rel, l, w0)); exp.append(answer)
            rf = Ref(); rf.sec = tk.cur; rf.site = before; rf.kind = kind; rf.label = l; rf.rel = rel; rf.w0 = w0; rf.line = inp; rf.idx = len(tk.refs)
            tk.refs.append(rf)
            check_fx(kind, before, rel)
        else:
            if err == "ok":
                tk.problems.append(("C03/a64-length", "%s emitted %d bytes" % (inp, len(data))))
            ml.append("REF %s %d %d - 0 -" % (kind, rel, l)); exp.append(answer)
            judge_ref_error(tk, inp, err, l, kind, before, rel)
        return

    l = int(t[X86_LABEL_ARG[ins]])
    if ins in X86_BRANCH:
        prefix, op8, op32 = x86_branch_bytes(arch, t)
        opt = int(t[-1]) if ins in ("jmp", "jcc") else 0
        ip = before + len(prefix)
        lab = tk.labels[l] if tk.label_ok(l) else None
        same = lab is not None and lab[0] == tk.cur
        size8 = 2
        size32 = (len(op32) + 4) if op32 else 5
        if err == "ok":
            if op8 is not None and data[:len(prefix) + 1] == bytes(prefix + op8) and len(data) == len(prefix) + 2:
                form = "short"
            elif op32 is not None and data[:len(op32)] == bytes(op32) and len(data) == len(op32) + 4 and not prefix:
                form = "long"
            else:
                tk.problems.append(("C03/x86-branch-bytes", "%s emitted %s which is neither the rel8 nor the rel32 encoding" % (inp, data.hex())))
                form = "short" if len(data) <= 3 else "long"
        else:
            form = "none"
        if tk.label_ok(l):
            if same:
                ml.append("FORM %d %d %d %d %d %d %d %d" % (op8 is not None, op32 is not None, opt == 1, opt == 2, size8, size32, ip, lab[1]))
            else:
                ml.append("FORMU %d %d %d" % (op8 is not None, op32 is not None, opt == 1))
            exp.append(form)
        if form == "short" or (form == "none" and (op32 is None or opt == 1)):
            kind, fs = "rel8", 1
        else:
            kind, fs = "rel32", 4
        if err == "ok":
            pre = data[:-fs]
        else:
            pre = bytes(prefix + (op8 if kind == "rel8" else (op32 or [0])))
        site = before + len(pre)
        ml.append("REF %s %d %d %s 0 -" % (kind, -fs, l, hexs(pre))); exp.append(answer)
        if err == "ok":
            rf = Ref(); rf.sec = tk.cur; rf.site = site; rf.kind = kind; rf.label = l; rf.rel = -fs; rf.w0 = 0; rf.line = inp; rf.idx = len(tk.refs)
            rf.ibeg = before; rf.ilen = len(data); rf.cls = "branch8" if kind == "rel8" else "branch"; rf.imm = fs
            tk.refs.append(rf)
            check_fx(kind, site, -fs)
        else:
            judge_ref_error(tk, inp, err, l, kind, site, -fs, forced=(op32 is None or opt == 1))
        return

    # memory operand [label + disp] (+ trailing immediate)
    disp = int(t[X86_LABEL_ARG[ins] + 1])
    imm = mem_imm_size(t)
    if err == "ok":
        if len(data) < 4 + imm + 2:
            tk.problems.append(("C03/x86-mem-bytes", "%s emitted only %s" % (inp, data.hex())))
            ml.append("RAW " + hexs(data)); exp.append(answer)
            return
        hole = len(data) - 4 - imm
        pre, post = data[:hole], data[hole + 4:]
    else:
        pre, post = b"", bytes(imm)
        hole = 0
    site = before + hole
    if arch == "x64":
        rel = disp - 4 - imm
        lab = tk.labels[l] if tk.label_ok(l) else None
        if err == "ok" and lab is not None and lab[0] == tk.cur:
            # bound in this section: the field is computed inline (int32 arithmetic) by EmitModSib; tie that computation too
            ml.append("RIPF %d %d %d %d" % (disp, imm, lab[1], site))
            exp.append(str(sext(int.from_bytes(data[hole:hole + 4], "little"), 32)))
        ml.append("REF rel32 %d %d %s 0 %s" % (rel, l, hexs(pre), hexs(post))); exp.append(answer)
        if err == "ok":
            rf = Ref(); rf.sec = tk.cur; rf.site = site; rf.kind = "rel32"; rf.label = l; rf.rel = rel; rf.w0 = 0; rf.line = inp; rf.idx = len(tk.refs)
            rf.ibeg = before; rf.ilen = len(data); rf.cls = "mem"; rf.imm = imm
            tk.refs.append(rf)
            check_fx("rel32", site, rel)
        else:
            judge_ref_error(tk, inp, err, l, "rel32", site, rel)
    else:
        ml.append("ABS %d 4 %d %s %s" % (l, disp, hexs(pre), hexs(post))); exp.append(answer)
        if err == "ok":
            tk.absrefs.append((tk.cur, before, hole, 4, l, disp))
        elif not (err == "invalid_label" and not tk.label_ok(l)):
            tk.problems.append(("C03/spurious-error", "%s returned %s" % (inp, err)))


def judge_ref_error(tk, inp, err, l, kind, site, rel, forced=True):
    """An instruction was refused: that is only right for an invalid label or a target bound in the same section that the
    available form(s) cannot reach."""
    if not tk.label_ok(l):
        if err != "invalid_label":
            tk.problems.append(("C03/invalid-label-not-reported", "%s returned %s" % (inp, err)))
        return
    lab = tk.labels[l]
    if err == "invalid_disp" and lab is not None and lab[0] == tk.cur and not encodable(kind, lab[1] - site + rel) and forced:
        return
    tk.problems.append(("C03/spurious-error", "%s returned %s although label %d is %s" % (inp, err, l, "unbound" if lab is None else "at %s" % (lab,))))


# ------------------------------------------------------------------ the independent monitor on the final state
def monitor(prog, hout, tk, stats):
    """Judges the implementation's final state of one program. Returns list of (key, what)."""
    probs = list(tk.problems)
    if not hout or not hout[-1].startswith("E "):
        return probs
    d = parse_dump(hout[-1], True)
    images = {k: Image(v[0], v[1]) for k, v in d["raw_segs"].items()}
    # label positions
    for l, st in enumerate(tk.labels):
        got = d["labs"].get(l)
        want = "u" if st is None else "%d:%d" % st
        if got != want:
            probs.append(("C03/label-position", "label %d is reported as %s, it was bound at %s" % (l, got, want)))
    # section sizes
    for k, sz in enumerate(tk.sizes):
        if d["secs"].get(k, (None,))[0] != sz:
            probs.append(("C03/section-size", "section %d has %s bytes, emitted bytes add up to %d" % (k, d["secs"].get(k, (None,))[0], sz)))
    flat = tk.nflat > 0
    offs = d["offs"] if flat else {k: 0 for k in range(len(tk.sizes))}
    expected_unresolved = 0
    for rf in tk.refs:
        vs, mask = KINDS[rf.kind][0], KINDS[rf.kind][1]
        raw = images[rf.sec].read(rf.site, vs) if rf.sec in images else None
        if raw is None:
            probs.append(("C03/site-out-of-image", "%s: site %d+%d outside section %d" % (rf.line, rf.site, vs, rf.sec)))
            continue
        w = int.from_bytes(raw, "little")
        lab = tk.labels[rf.label]
        stats["refs"] += 1
        stats["kind:" + rf.kind] = stats.get("kind:" + rf.kind, 0) + 1
        pending_ok = False
        if lab is None:
            pending_ok = True; why = "label never bound"; stats["never_bound"] += 1
        else:
            same = lab[0] == rf.sec
            if not same:
                stats["cross_section"] += 1
            dsp = (offs.get(lab[0], 0) + lab[1]) - (offs.get(rf.sec, 0) + rf.site) + rf.rel
            bits, dl = KINDS[rf.kind][3], KINDS[rf.kind][2]
            lim = (1 << (bits - 1)) << dl
            if abs(abs(dsp) - lim) <= 16 << dl or abs(dsp - (lim - (1 << dl))) <= 16 << dl:
                stats["near_limit"] += 1
            if not same and not flat:
                pending_ok = True; why = "cross-section reference, sections never laid out"
            elif not encodable(rf.kind, dsp):
                pending_ok = True; why = "displacement %d not encodable as %s" % (dsp, rf.kind); stats["unencodable"] += 1
            else:
                stats["fwd" if lab[1] > rf.site or not same else "bwd"] += 1
                got = decode_field(rf.kind, w)
                if tk.arch != "a64" and rf.cls is not None:
                    # theorems C03_x86_branch_reference_meaning / C03_x86_rip_reference_meaning: the instruction, decoded by C01's proven
                    # decoder, designates the address where the label was bound (+ the operand's own displacement)
                    ins_raw = images[rf.sec].read(rf.ibeg, rf.ilen)
                    if ins_raw is not None and rf.cls in ("branch", "branch8"):
                        # C03_x86_label_branch32/8 + C03_x86_branch_forms: is the emitted prefix one of the proven opcode forms?
                        pre = bytes(ins_raw[:rf.site - rf.ibeg])
                        if rf.cls == "branch":
                            proven = pre in (b"\xe9", b"\xe8") or (len(pre) == 2 and pre[0] == 0x0F and 0x80 <= pre[1] <= 0x8F)
                        else:
                            proven = (len(pre) == 1 and (pre[0] == 0xEB or 0x70 <= pre[0] <= 0x7F or 0xE0 <= pre[0] <= 0xE3)) or pre == b"\x67\xe3"
                        key = "x86_branch_form_proven" if proven else "x86_branch_form_other"
                        stats[key] = stats.get(key, 0) + 1
                    if ins_raw is not None and rf.cls == "mem":
                        # C03_x86_label_rip + C03_x86_rip_forms (REX.W 8D/8B/89 /r, mod 00 rm 101, no trailing immediate)
                        pre = bytes(ins_raw[:rf.site - rf.ibeg])
                        proven = (rf.imm == 0 and len(pre) == 3 and pre[0] in (0x48, 0x4C) and pre[1] in (0x8D, 0x8B, 0x89) and pre[2] & 0xC7 == 0x05) or \
                                 (rf.imm, pre) in ((1, b"\xc6\x05"), (2, b"\x66\xc7\x05"), (4, b"\xc7\x05"), (4, b"\x48\xc7\x05"), (1, b"\x83\x05"))  # C03_x86_rip_imm_forms
                        key = "x86_rip_form_proven" if proven else "x86_rip_form_other"
                        stats[key] = stats.get(key, 0) + 1
                    if ins_raw is not None:
                        abits = 64 if tk.arch == "x64" else 32
                        tgt = offs.get(lab[0], 0) + lab[1] + (rf.rel + 4 + rf.imm if rf.cls == "mem" else 0)
                        tk.x86_q.append(("MEAN %d %s %d %d %d %s" % (abits, rf.cls, 1 if rf.cls == "mem" else 0, rf.imm,
                                                                     offs.get(rf.sec, 0) + rf.ibeg, ins_raw.hex()),
                                         tgt & ((1 << abits) - 1) if rf.cls != "mem" else tgt & M64, rf.line))
                if tk.arch == "a64":
                    pc = offs.get(rf.sec, 0) + rf.site
                    tk.a64_q.append(("A64 %d %d" % (pc, w), ((pc & ~0xFFF) + got if rf.kind == "adrp" else pc + got) & M64, rf.line))
                if got != dsp or (w & ~mask) != rf.w0:
                    probs.append(("C03/wrong-field/%s/%s" % (tk.arch, rf.kind),
                                  "%s (section %d, site %d): word %#x denotes displacement %d, label %d is at %d:%d, the reference needs %d%s"
                                  % (rf.line, rf.sec, rf.site, w, got, rf.label, lab[0], lab[1], dsp,
                                     "" if (w & ~mask) == rf.w0 else " (and bits outside the field changed: %#x -> %#x)" % (rf.w0, w & ~mask))))
                else:
                    stats["exact"] += 1
        if pending_ok:
            expected_unresolved += 1
            if w != rf.w0:
                probs.append(("C03/truncated/%s/%s" % (tk.arch, rf.kind),
                              "%s (section %d, site %d): %s, but the word was patched to %#x (was %#x)" % (rf.line, rf.sec, rf.site, why, w, rf.w0)))
    # absolute references (embed_label, x86-32 [label]): relocation entries must designate the label
    rels = {}
    for r in d["rels"]:
        rels[(int(r[2]), int(r[3]))] = r
    for (sec, off, lead, size, l, addend) in tk.absrefs:
        stats["absrefs"] += 1
        r = rels.get((sec, off))
        if not tk.label_ok(l):
            probs.append(("C03/invalid-label-not-reported", "absolute reference to invalid label %d accepted" % l))
            continue
        lab = tk.labels[l]
        if lab is None:
            expected_unresolved += 1
        if r is None or r[1] != "4":
            probs.append(("C03/abs-reloc-missing", "no RelToAbs relocation at %d:%d for label %d" % (sec, off, l)))
            continue
        if int(r[4]) != lead or int(r[5]) != size:
            probs.append(("C03/abs-reloc-format", "relocation at %d:%d has value offset/size %s/%s, expected %d/%d" % (sec, off, r[4], r[5], lead, size)))
        if lab is not None:
            want = (addend + lab[1]) & M64
            if int(r[7]) != want or r[8] != str(lab[0]):
                probs.append(("C03/abs-reloc-payload", "relocation at %d:%d for label %d (bound at %d:%d, addend %d) has payload %s target %s"
                              % (sec, off, l, lab[0], lab[1], addend, r[7], r[8])))
    # label deltas
    for (sec, off, size, l, b, imm, data, delta) in tk.deltas:
        stats["deltas"] += 1
        if imm:
            want = (delta & ((1 << (8 * size)) - 1)).to_bytes(size, "little")
            now = images[sec].read(off, size)
            if data != want or now != want:
                probs.append(("C03/delta-wrong", "embed_label_delta(%d, %d, %d) emitted %s, delta is %d" % (l, b, size, data.hex(), delta)))
            elif not (-(1 << (8 * size - 1)) <= delta < (1 << (8 * size))):
                probs.append(("C03/delta-immediate-truncated/size%d" % size,
                              "embed_label_delta(label %d, base %d, size %d): delta %d does not fit %d byte(s); kOk was returned and %s emitted"
                              % (l, b, size, delta, size, data.hex())))
        else:
            r = rels.get((sec, off))
            if r is None or r[1] != "1" or r[7] != "expr:1:%d:%d" % (l, b) or int(r[5]) != size:
                probs.append(("C03/delta-expression", "embed_label_delta(%d, %d, %d) at %d:%d recorded %s" % (l, b, size, sec, off, r)))
    if d["unres"] != expected_unresolved:
        probs.append(("C03/unresolved-count", "unresolved_fixup_count() = %d, but %d references remain unresolved" % (d["unres"], expected_unresolved)))
    stats["programs_with_pending"] += 1 if expected_unresolved else 0
    stats["refused_binds"] = stats.get("refused_binds", 0) + tk.refused_binds
    return probs


def new_stats():
    return {k: 0 for k in ("refs", "exact", "never_bound", "cross_section", "near_limit", "unencodable", "fwd", "bwd", "absrefs", "deltas",
                           "programs_with_pending")}


# ------------------------------------------------------------------ running
def run_lines(exe, lines, timeout=1200):
    rc, out, err = vlib.sh([exe], inp="\n".join(lines) + "\n", timeout=timeout)
    res = out.split("\n")
    if res and res[-1] == "":
        res.pop()
    return rc, res, err


def run_sharded(exe, blocks, shards=16):
    """blocks: list of lists of lines. Returns list of lists of output lines (or None per block on failure)."""
    idx = [list(range(i, len(blocks), shards)) for i in range(shards)]

    def one(ids):
        lines = []
        for i in ids:
            lines += blocks[i]
        if not lines:
            return ids, []
        rc, res, err = run_lines(exe, lines)
        if rc != 0 or len(res) != len(lines):
            # find the culprit block by running them one by one
            outs = []
            for i in ids:
                rc1, r1, e1 = run_lines(exe, blocks[i], timeout=300)
                outs.append(r1 if (rc1 == 0 and len(r1) == len(blocks[i])) else None)
            return ids, outs
        outs, p = [], 0
        for i in ids:
            outs.append(res[p:p + len(blocks[i])]); p += len(blocks[i])
        return ids, outs
    result = [None] * len(blocks)
    with ThreadPoolExecutor(max_workers=shards) as ex:
        for ids, outs in ex.map(one, idx):
            for i, o in zip(ids, outs):
                result[i] = o
    return result


def compare_flat(hline, mline):
    """the FLAT model's byte buffers (printed by the driver after ` | FLAT `) against the implementation's section images"""
    if " | FLAT " not in mline:
        return [], 0
    parts = mline.split(" | ")
    i = next(k for k, p in enumerate(parts) if p.startswith("FLAT "))
    head = parts[i].split()
    diffs = []
    if head[1] != "0":
        diffs.append("flat model and structured model disagreed on %s operations (error / size / count)" % head[1])
    h = parse_dump(hline, True)
    if int(head[2]) != h["unres"]:
        diffs.append("flat model unresolved count %s, impl %d" % (head[2], h["unres"]))
    nbytes = 0
    for p in parts[i + 1:]:
        f = p.split()
        if f[0] != "FSEC":
            continue
        k = int(f[1])
        segs, size = h["raw_segs"].get(k, ("-", 0))
        a, b = canon_segs(segs), canon_segs(f[2])
        nbytes += sum(len(x[1]) // 2 for x in b if x[0] == "H")
        if a != b:
            # same bytes in another chunking? (only decidable cheaply for small sections)
            if size <= (1 << 20) and Image(segs, size).read(0, size) == Image(f[2], size).read(0, size):
                continue
            diffs.append("section %d: flat-model buffer differs from the implementation (size %d): impl %s.. flat model %s.."
                         % (k, size, str(a)[:160], str(b)[:160]))
    return diffs, nbytes


def compare_dumps(hline, mline):
    """canonical comparison of the final states; returns list of differences"""
    h = parse_dump(hline, True)
    m = parse_dump(mline.split(" | FLAT ")[0], False)
    diffs = []
    if h["unres"] != m["unres"]:
        diffs.append("unresolved count impl %d model %d" % (h["unres"], m["unres"]))
    if h["secs"] != m["secs"]:
        for k in sorted(set(h["secs"]) | set(m["secs"])):
            if h["secs"].get(k) != m["secs"].get(k):
                a, b = h["secs"].get(k), m["secs"].get(k)
                where = ""
                if a and b and len(a[1]) == len(b[1]):
                    for sa, sb in zip(a[1], b[1]):
                        if sa != sb and sa[0] == "H" and sb[0] == "H":
                            n = next((i for i in range(min(len(sa[1]), len(sb[1]))) if sa[1][i] != sb[1][i]), 0) // 2
                            where = " first differing byte in segment at +%d: impl %s model %s" % (n, sa[1][2 * n:2 * n + 16], sb[1][2 * n:2 * n + 16])
                            break
                diffs.append("section %d bytes differ (size impl %s model %s)%s" % (k, a and a[0], b and b[0], where))
    if h["labs"] != m["labs"]:
        diffs.append("labels impl %s model %s" % (h["labs"], m["labs"]))
    if [r[1:] for r in h["rels"]] != [r[1:] for r in m["rels"]]:
        diffs.append("relocations impl %s model %s" % (h["rels"][:6], m["rels"][:6]))
    return diffs


def check_programs(ck, impl, model, programs):
    """Runs all programs. Returns (results, stats). results: list of dict(prog, hout, diffs, problems)."""
    houts = run_sharded(impl, programs)
    stats = new_stats()
    trans = []
    for prog, hout in zip(programs, houts):
        if hout is None:
            trans.append(None)
            continue
        trans.append(translate(prog, hout))
    mblocks = [t[0] if t else ["P"] for t in trans]
    mouts = run_sharded(model, mblocks)
    results = []
    for prog, hout, t, mout in zip(programs, houts, trans, mouts):
        res = {"prog": prog, "hout": hout, "diffs": [], "problems": []}
        if hout is None:
            res["problems"].append(("C03/harness-crash", "the harness crashed or hung on this program"))
            results.append(res)
            continue
        ml, exp, tk = t
        res["problems"] = monitor(prog, hout, tk, stats)
        if mout is None:
            res["diffs"].append("model driver failed")
        else:
            for i, (line, want, got) in enumerate(zip(ml, exp, mout)):
                if want is None:
                    if line == "DUMP":
                        res["diffs"] += compare_dumps(hout[-1], got)
                        fd, nb = compare_flat(hout[-1], got)
                        res["diffs"] += fd
                        stats["flat_model_programs"] = stats.get("flat_model_programs", 0) + (1 if " | FLAT " in got else 0)
                        stats["flat_model_bytes"] = stats.get("flat_model_bytes", 0) + nb
                    continue
                if want != got:
                    res["diffs"].append("op %r: impl %r, model %r" % (line[:120], want, got))
                    if len(res["diffs"]) > 4:
                        break
        res["tk"] = tk
        results.append(res)
    # architectural meaning of every exactly resolved AArch64 word through the model's structural decoder (Labels.A64Dec)
    qblocks = [[q[0] for q in r["tk"].a64_q] if r.get("tk") else [] for r in results]
    if any(qblocks):
        qouts = run_sharded(model, [b or ["P"] for b in qblocks])
        for r, blk, outs in zip(results, qblocks, qouts):
            for (q, want, what), got in zip(r["tk"].a64_q if blk else [], outs or []):
                stats["a64_decoded"] = stats.get("a64_decoded", 0) + 1
                g = got.split()
                if not g or g[0] != str(want):
                    r["diffs"].append("%s: the structural a64 decoder reads the word as designating %s, the monitor's decoder %#x (%s)" % (what, got, want, q))
                elif len(g) == 3:
                    # Labels.A64DbTie: the database mnemonic / row the model names for the decoded instruction (theorems C03_a64_db_*)
                    # must be the instruction the generator asked the assembler to emit
                    ins = what.split()[1]
                    name = A64_DB_NAME.get(ins)
                    mn, form = a64_db_names()
                    stats["a64_db_named"] = stats.get("a64_db_named", 0) + 1
                    stats.setdefault("a64_db_rows", set()).add(int(g[2]))
                    if name is not None and (mn.get(int(g[1])) != name or form.get(int(g[2]), "").split(" ")[0] != name):
                        r["diffs"].append("%s: the model names database mnemonic %r / row %r for the word %s, emitted was %r"
                                          % (what, mn.get(int(g[1])), form.get(int(g[2])), q, name))
    # architectural meaning of every exactly resolved x86 rel32 / rel8 reference through C01's proven decoder (Reloc.X86Meaning.site_target,
    # extracted in the C04 model driver; theorems C03_x86_branch_reference_meaning / C03_x86_rip_reference_meaning)
    xblocks = [[q[0] for q in r["tk"].x86_q] if r.get("tk") else [] for r in results]
    if any(xblocks):
        if getattr(ck, "_c04_model", None) is None:
            ck._c04_model = ck.ocaml_model("Extract_Reloc.v", ["zconv.ml", "c04_driver.ml"], name="c04")
        xouts = run_sharded(ck._c04_model, [b or ["RELOC 0 8 0 0 0"] for b in xblocks])
        for r, blk, outs in zip(results, xblocks, xouts):
            for (q, want, what), got in zip(r["tk"].x86_q if blk else [], outs or []):
                if got == "none":
                    stats["x86_undecoded"] = stats.get("x86_undecoded", 0) + 1      # outside C01's structural decoder (counted, reported in the log)
                    continue
                stats["x86_decoded"] = stats.get("x86_decoded", 0) + 1
                if got != str(want):
                    r["diffs"].append("%s: decoded by C01's decoder the instruction designates %s, the label (+ operand displacement) is at %#x (%s)"
                                      % (what, got, want, q))
    return results, stats


def shrink_program(ck, impl, model, prog, pred, budget=70, runner=None):
    """delta debugging over the operations of one program: remove chunks while `pred` (same report) still holds on the re-run"""
    head, body = list(prog[:1]), list(prog[1:])
    runs = [0]

    def still(cand):
        runs[0] += 1
        try:
            res, _ = (runner or check_programs)(ck, impl, model, [head + cand])
        except Exception:
            return False
        return bool(res) and res[0] is not None and pred(res[0])

    n = 2
    while len(body) >= 2 and runs[0] < budget:
        chunk = max(1, len(body) // n)
        removed = False
        i = 0
        while i < len(body) and runs[0] < budget:
            cand = body[:i] + body[i + chunk:]
            if cand and still(cand):
                body = cand
                removed = True
            else:
                i += chunk
        if not removed:
            if chunk == 1:
                break
            n = min(len(body), n * 2)
    return head + body


PROBE_714 = ["P x64", "L", "NS 1", "S 1", "D 8 1", "B 0", "D 8 2", "S 0", "D 1 3", "R lea 0 0 0", "D 1 4", "F", "E"]


def probe_xsection_bound(impl):
    """DESIGN 7.14: does a reference to a label that is ALREADY bound in another section work on this tree?
    Returns (fixed, harness output)."""
    rc, out, err = run_lines(impl, PROBE_714, timeout=60)
    ok = rc == 0 and len(out) == len(PROBE_714) and " | LAB 0 1:8" in out[-1] and out[-1].startswith("E 0 ") and "488d0509000000" in out[-1]
    return ok, out


def strip_bound_xsection(prog):
    """drop the references whose label is already bound in another section (static bookkeeping of binds and section switches)"""
    out, cur, nsec, labs = [], 0, 1, []
    for line in prog:
        t = line.split()
        if t[0] == "L":
            labs.append(None)
        elif t[0] == "NS":
            nsec += 1
        elif t[0] == "S" and 0 <= int(t[1]) < nsec:
            cur = int(t[1])
        elif t[0] == "B" and 0 <= int(t[1]) < len(labs) and labs[int(t[1])] is None:
            labs[int(t[1])] = cur
        elif t[0] == "R":
            arch = prog[0].split()[1]
            l = int(t[A64_LABEL_ARG[t[1]]] if arch == "a64" else t[X86_LABEL_ARG[t[1]]])
            if 0 <= l < len(labs) and labs[l] is not None and labs[l] != cur:
                if not (arch == "x86" and t[1] not in X86_BRANCH):     # x86-32 [label] goes through a relocation, not a fixup
                    continue
        out.append(line)
    return out


PROBE_WRAP = ["P x64", "L", "B 0", "D 16 1", "R lea 0 0 -2147483648", "F", "E"]


TRUSTED = ["Coq 8.16.1 kernel incl. vm_compute (no native_compute)",
           "extraction (ExtrOcamlBasic only) + OCaml 4.13.1 + zarith glue (ml/zconv.ml) + ml/c03_driver.ml (parsing/printing only)",
           "harness/c03_harness.cpp (calls the public assembler/CodeHolder API of /repo's working tree and prints what it observes)",
           "tools/checks/c03.py: generator, translation of the trace into model operations (hole position / addend per instruction kind "
           "from the ISA manuals), differ, python monitor",
           "the model's structured buffer (a reference owns its value word) is tied to the real byte buffers only by the differential run"]


def run(ck):
    rng = random.Random(ck.seed)
    obl = ck.coq_properties()
    ck.log("theorems: %d, failed: %d" % (len(obl), len([o for o in obl if not o["ok"]])))
    impl = ck.build_harness("c03", ["c03_harness.cpp"])
    model = ck.ocaml_model("Extract_Labels.v", ["zconv.ml", "c03_driver.ml"], name="c03")

    if ck.replay:
        rp = json.load(open(ck.replay))
        prog = rp["replay"]["program"]
        rc, hout, err = run_lines(impl, prog)
        ml, exp, tk = translate(prog, hout)
        rc2, mout, err2 = run_lines(model, ml)
        for a, b in zip(prog, hout):
            print("impl :", a, "->", b[:300])
        for a, w, g in zip(ml, exp, mout):
            print("model:", a[:100], "-> model", g[:300], "| impl", w)
        for p in monitor(prog, hout, tk, new_stats()):
            print("monitor:", p)
        return 0

    programs = Gen(rng, ck.tier).programs()
    DELTA_OP["op"] = "DELTAC" if probe_delta_checked(impl) else "DELTA"
    ck.notes.append("embed_label_delta immediate path: %s" % ("range-checked (model operation ODeltaChecked)" if DELTA_OP["op"] == "DELTAC"
                                                               else "unchecked (model operation ODelta; truncation is a recorded finding)"))
    fixed, pout = probe_xsection_bound(impl)
    if not fixed:
        ck.violation("C03/xsection-ref-to-bound-label",
                     "a reference from another section to an ALREADY bound label corrupts the label entry (DESIGN 7.14, fixes/C03-xsection-bound-label.patch "
                     "not applied): `lea rax, [L]` in .text with L bound at .s1+8 ends as: %s" % (pout[-1][:300] if pout else "harness crashed"),
                     {"program": PROBE_714, "arch": "x64"})
        programs = [strip_bound_xsection(p) for p in programs]
        ck.notes.append("tree without the 7.14 fix: references to labels already bound in another section were removed from the generated programs")
    corpus = os.path.join(vlib.VERIF, "corpus", "C03.txt")
    if os.path.exists(corpus):
        cur = None
        extra = []
        for line in open(corpus):
            line = line.strip()
            if not line or line.startswith("#"):
                continue
            if line.startswith("P "):
                cur = [line]; extra.append(cur)
            elif cur is not None:
                cur.append(line)
        programs = extra + programs
    # probe of a corner the generated addends stay away from: [rip + L - 2^31] with L bound behind the instruction
    rc, wout, err = run_lines(impl, PROBE_WRAP, timeout=60)
    if rc == 0 and len(wout) == len(PROBE_WRAP):
        wml, wexp, wtk = translate(PROBE_WRAP, wout)
        wprobs = monitor(PROBE_WRAP, wout, wtk, new_stats())
        if wprobs:
            ck.violation("C03/x64-rip-addend-int32-wrap", "x86-64 `lea rax, [rip + L - 2147483648]` with L bound 16 bytes behind: %s" % wprobs[0][1],
                         {"program": PROBE_WRAP, "arch": "x64"})
    nlines = sum(len(p) for p in programs)
    ck.log("programs: %d (%d operations)" % (len(programs), nlines))
    results, stats = check_programs(ck, impl, model, programs)
    if isinstance(stats.get("a64_db_rows"), set):
        stats["a64_db_rows"] = len(stats["a64_db_rows"])      # distinct database rows named (20 = every row of Labels.A64DbTie.a64_rid)
    ck.log("ran: %s" % {k: v for k, v in stats.items() if not k.startswith("kind:")})

    disagreements = 0
    nontrivial = 0
    shrunk = set()

    def minimal(res, key, pred):
        """the program of the FIRST report of a key is reduced (operation removal, same key must still be reported) so that the replay is small"""
        if key in shrunk or len(shrunk) >= 4 or ck.match_finding(key) or any(v["key"] == key for v in ck.violations):
            return res["prog"], None
        shrunk.add(key)
        small = shrink_program(ck, impl, model, res["prog"], pred)
        return small, len(res["prog"])

    for res in results:
        if any(l.startswith("R ") or l.startswith("EL") or l.startswith("ED") for l in res["prog"]):
            nontrivial += 1
        for (key, what) in res["problems"]:
            prog, orig = minimal(res, key, lambda r, key=key: any(k == key for k, _ in r["problems"]))
            inp = {"program": prog, "arch": res["prog"][0].split()[1]}
            if orig is not None:
                inp["reduced_from_operations"] = orig
            ck.violation(key, what, inp)
        if res["diffs"]:
            disagreements += 1
            if not [p for p in res["problems"] if not ck.match_finding(p[0])]:
                prog, orig = minimal(res, "C03/correspondence", lambda r: bool(r["diffs"]) and not [p for p in r["problems"] if not ck.match_finding(p[0])])
                ck.violation("C03/correspondence", "implementation and proven model disagree (%s); the independent monitor found no violated reference "
                             "in this program" % "; ".join(res["diffs"][:3]),
                             {"program": prog, "reduced_from_operations": orig, "broken": "correspondence of Labels model (coq/theories/Labels) with /repo",
                              "diffs": res["diffs"][:5]},
                             no_input=True)
    for o in ck.proof_failures():
        ck.violation("C03/proof/" + o["name"], "theorem %s no longer checks (%s)" % (o["name"], getattr(ck, "coq_log", "")[-800:]),
                     {"broken": "theorem " + o["name"], "file": "coq/theories/Properties/Properties_C03.v"}, no_input=True)
    samples = [{"program": r["prog"][:40], "final": (r["hout"] or [""])[-1][:300]} for r in results[:2] + results[len(results) // 2:len(results) // 2 + 2]]
    return ck.finish(
        "proof",
        {"evaluations": nlines, "distinct_nontrivial": nontrivial,
         "rule": "label programs generated from VERIF_SEED by six templates (distance around one format's limit in one section; cross-section distance "
                 "around a limit with a fabricated virtual size; random interleavings over 1-3 sections; 2-64 pending references on one label; "
                 "layout + resolve before the labels are bound, then bind and resolve again; 1100-2500 pending references on one label with "
                 "buffer growth) for x86-64, AArch64 and x86-32; a program is non-trivial when it contains at least one label reference, embedded "
                 "label or label delta. Proved (Coq, all operation lists): the properties of the model; compared on every program: every error "
                 "code, size, count, byte, label and relocation of the implementation against the extracted structured AND flat (byte buffer) "
                 "models; judged independently: every reference by the python monitor; every exactly resolved reference is additionally decoded "
                 "by the extracted proven decoders (a64: Labels.A64Dec + database row naming; x86: C01's sdec through X86Meaning.site_target) and "
                 "must designate the label's address",
         "samples": samples, "programs": len(programs), "operations": nlines,
         "references_judged_by_monitor": stats["refs"], "references_exact": stats["exact"],
         "distribution": stats, "model_vs_impl_disagreements": disagreements,
         "traces_validated_against_impl": len(programs)},
        assumptions=["the harness drives the real x86::Assembler / a64::Assembler / CodeHolder of /repo's working tree through their public API",
                     "theorems are about the Gallina model (structured buffers: a reference owns its value word); the model is tied to the code by the "
                     "differential run of this check (every error code, size, count, byte, label, relocation)",
                     "instruction bytes around the hole are taken from the implementation at emission time (C03 does not depend on C01/C02); the position of "
                     "the hole, the format and the addend of each instruction kind are written from the ISA manuals in tools/checks/c03.py",
                     "section offsets come from the implementation's flatten() (C10's subject); the theorems hold for any offsets",
                     "models the behaviour after fixes/C03-xsection-bound-label.patch (DESIGN 7.14)"],
        checker_cmd="coqc (Coq 8.16.1) -Q coq/theories Verif coq/theories/Properties/Properties_C03.v  [full .vo build of its dependencies]",
        trusted_base=TRUSTED + ["no axioms: every theorem 'Closed under the global context'"])

#!/bin/sh
# regenerate _CoqProject + Makefile from the tree (so adding a file needs no edit of a shared list)
cd "$(dirname "$0")"
{ echo "-Q theories Verif"; echo "-Q gen VerifGen"; echo "-arg -w -arg -all";
  find theories gen -name '*.v' | LC_ALL=C sort; } > _CoqProject.new
if ! cmp -s _CoqProject.new _CoqProject 2>/dev/null; then mv _CoqProject.new _CoqProject; coq_makefile -f _CoqProject -o Makefile >/dev/null; else rm _CoqProject.new; [ -f Makefile ] || coq_makefile -f _CoqProject -o Makefile >/dev/null; fi

(* Extraction of the C14 emitter state machine (ExtrOcamlBasic only; numbers stay Coq's positive/Z datatypes). *)
From Coq Require Extraction ExtrOcamlBasic.
From Verif Require Import EmitState.EmitStateModel EmitState.EncPathModel.
Extraction Blacklist List String Int.
Extraction "emitstate.ml" EmitStateModel.step EmitStateModel.init_state EmitStateModel.model_constants
  EmitStateModel.failed EmitStateModel.prune EmitStateModel.run EmitStateModel.persistent
  EncPathModel.rel_cmd EncPathModel.path_constants EncPathModel.rel_result.

(* Extraction of the C14 emitter state machine (ExtrOcamlBasic only; numbers stay Coq's positive/Z datatypes). *)
From Coq Require Extraction ExtrOcamlBasic.
From Verif Require Import EmitState.EmitStateModel EmitState.EncPathModel EmitState.EmitFrameModel.
From VerifGen Require Import C14MemPathModel.
Extraction Blacklist List String Int.
Extraction "emitstate.ml" EmitStateModel.step EmitStateModel.init_state EmitStateModel.model_constants
  EmitStateModel.failed EmitStateModel.prune EmitStateModel.run EmitStateModel.persistent EmitStateModel.node_active_mark EmitFrameModel.footprint_of
  EncPathModel.rel_cmd EncPathModel.path_constants EncPathModel.rel_result
  C14MemPathModel.mem_cmd C14MemPathModel.mem_path_constants C14MemPathModel.x86_add_mem C14MemPathModel.vsib_cmd C14MemPathModel.pushpop_cmd
  C14MemPathModel.a64_ldst_cmd C14MemPathModel.a64_path_constants C14MemPathModel.shift_cmd C14MemPathModel.vsib2_cmd C14MemPathModel.a64_ldp_cmd C14MemPathModel.mov_cmd C14MemPathModel.a64_simd_ldst_cmd C14MemPathModel.a64_simd_constants C14MemPathModel.vrrr_cmd.

(* Extraction of the C07 frame model (ExtrOcamlBasic only; numbers stay Coq's positive/Z datatypes). *)
From Coq Require Extraction ExtrOcamlBasic.
From Verif Require Import Frame.FrameModel Frame.SlotModel.
Extraction Blacklist List String Int.
Extraction "frame.ml" FrameModel.cc_init FrameModel.min_dynamic_alignment FrameModel.finalize
  FrameModel.prolog FrameModel.epilog FrameModel.saved_regs SlotModel.alloc_offsets SlotModel.alloc_all.

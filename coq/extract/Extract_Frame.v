(* Extraction of the C07 frame model (ExtrOcamlBasic only; numbers stay Coq's positive/Z datatypes). *)
From Coq Require Extraction ExtrOcamlBasic.
From Verif Require Import Frame.FrameModel Frame.FrameMachine Frame.FrameExec Frame.SlotModel Frame.SlotFull Frame.FrameA64Proofs Frame.FrameCopies.
Extraction Blacklist List String Int.
Extraction "frame.ml" FrameModel.finalize_error FrameModel.a64_realisable FrameModel.compiler_cc FrameModel.cc_init FrameModel.min_dynamic_alignment FrameModel.finalize
  FrameModel.prolog FrameModel.epilog FrameModel.saved_regs SlotModel.alloc_offsets SlotModel.alloc_all SlotFull.order_ok SlotFull.placed_ok SlotFull.alloc_frame SlotFull.to_sslot SlotFull.slot_weight FrameExec.exec_frame FrameExec.exec_args_frame FrameA64Proofs.a64_encodable FrameCopies.copies_ok_data FrameCopies.acopy_instr FrameCopies.copies64_ok_data FrameCopies.acopy64_instr.

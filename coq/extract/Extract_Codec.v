(* Extraction of the C17 codec models (ExtrOcamlBasic only; numbers stay Coq's positive/Z datatypes). *)
From Coq Require Extraction ExtrOcamlBasic.
From Verif Require Import Codec.OffsetModel Codec.ImmModel Codec.RangeModel Codec.T32FixModel Codec.BitfieldModel Codec.BfmSemModel Codec.X86ImmModel Codec.LayoutModel.
Extraction Blacklist List String Int.
Extraction "codec.ml" OffsetModel.write_offset OffsetModel.encode_offset OffsetModel.encode_aarch32_imm
  OffsetModel.decode_signed OffsetModel.decode_unsigned OffsetModel.decode_a64_adr OffsetModel.arm_expand_imm
  T32FixModel.write_offset_fixed T32FixModel.write_offset_var BitfieldModel.encode_bitfield BitfieldModel.ubfm_sem BitfieldModel.encode_ror_imm BitfieldModel.extr_pc BfmSemModel.ubfm_pc BfmSemModel.sbfm_pc BfmSemModel.bfm_pc
  X86ImmModel.arith_reg_imm X86ImmModel.arith_mem_imm X86ImmModel.effective_imm
  X86ImmModel.test_reg_imm X86ImmModel.test_mem_imm X86ImmModel.mov_reg_imm X86ImmModel.mov_mem_imm LayoutModel.otype_of_index X86ImmModel.imul_imm X86ImmModel.push_imm X86ImmModel.rot_imm X86ImmModel.shld_imm X86ImmModel.cpu_count
  RangeModel.is_int_n_signed RangeModel.is_int_n_unsigned RangeModel.is_uint_n_signed RangeModel.is_uint_n_unsigned
  RangeModel.is_encodable_offset_32 RangeModel.is_encodable_offset_64
  ImmModel.encode_logical_imm ImmModel.decode_bit_masks ImmModel.is_add_sub_imm ImmModel.add_sub_encodable
  ImmModel.is_byte_mask_imm ImmModel.encode_byte_mask_imm8 ImmModel.expand_byte_mask
  ImmModel.is_fp_imm8 ImmModel.encode_fp_imm8 ImmModel.vfp_expand_imm ImmModel.fp_params
  ImmModel.encode_lmh ImmModel.encode_mov_sequence ImmModel.mw_decode ImmModel.mw_exec ImmModel.mw_run ImmModel.movseq64 ImmModel.movseq32.

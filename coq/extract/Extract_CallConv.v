(* Extraction of the C06 models (ExtrOcamlBasic only; numbers stay Coq's positive/Z datatypes). *)
From Coq Require Extraction ExtrOcamlBasic.
From Verif Require Import CallConv.FuncDetailModel CallConv.ShuffleModel CallConv.Abi CallConv.AbiLink CallConv.ShuffleBytesModel CallConv.SolverModel CallConv.SolverProofs CallConv.SolverFullModel CallConv.DecodeModel.
Extraction Blacklist List String Int.
Extraction "callconv.ml" FuncDetailModel.func_detail_init FuncDetailModel.used_regs FuncDetailModel.size_of FuncDetailModel.mask_of
  FuncDetailModel.order_at FuncDetailModel.init_call_conv
  FuncDetailModel.RT_Gp32 FuncDetailModel.RT_Gp64 FuncDetailModel.RT_Vec32 FuncDetailModel.RT_Vec64 FuncDetailModel.RT_Vec128
  FuncDetailModel.RT_Vec256 FuncDetailModel.RT_Vec512 FuncDetailModel.RT_Mm FuncDetailModel.RT_St
  FuncDetailModel.F_CalleePops FuncDetailModel.F_IndirectVec FuncDetailModel.F_FloatsByVec FuncDetailModel.F_VecStackIfVA
  FuncDetailModel.F_MmxByGp FuncDetailModel.F_MmxByXmm FuncDetailModel.F_VarArgCompat FuncDetailModel.rt_group
  AbiLink.monitor AbiLink.abi_of_env Abi.abi_spec Abi.abi_guard
  DecodeModel.decode SolverFullModel.fsolve SolverFullModel.finit SolverFullModel.fmove_of SolverFullModel.fwf_inputb SolverFullModel.farch_okb SolverProofs.wf_inputb SolverModel.solve SolverModel.init_var SolverModel.move_of ShuffleBytesModel.validate_bytes ShuffleModel.validate ShuffleModel.exec ShuffleModel.sym_exec ShuffleModel.alookup ShuffleModel.check_move ShuffleModel.mem_ranges_ok.

(* C18: extraction of the container models (ExtrOcamlBasic only; numbers stay the extracted positive/N/Z) *)
From Coq Require Extraction ExtrOcamlBasic.
From Verif Require Import Containers.BitVecModel Containers.ArenaModel Containers.VecModel Containers.StrModel Containers.HashModel Containers.NameHashModel Containers.TreeModel Containers.TreeGeneral Containers.TreeAgreeModel Containers.ArenaChainAgreeModel Containers.ListModel Containers.RangeIterModel Containers.BitSetModel.
From VerifGen Require Import C18HashTable C18VecTable.
Extraction Blacklist List String Int.
Extraction "containers.ml"
  bv_get bv_set bv_or_bit bv_xor_bit bv_fill bv_clear bv_index_of
  arena_init alloc_oneshot alloc_reusable free_reusable arena_reset arena_stats cur_block arena_dup arena_sformat arena_string_set
  vec_empty vec_abs vec_reserve_fit vec_reserve_grow vec_reserve_additional vec_resize vec_append vec_insert vec_concat
  reserve_shape release_shape vec_remove_at vec_pop vec_clear vec_truncate vec_release vec_index_of vec_last_index_of
  str_empty str_tmp str_abs str_nul_ok str_assign str_swap str_move_assign str_move_construct str_op_text str_op_char str_op_chars str_pad_end str_op_number str_op_hex
  str_op_format str_truncate str_clear str_reset str_equals
  hash_empty hash_rehash hash_insert hash_remove hash_get hash_release hash_abs hash_name name_key name_node name_get
  tree_empty tree_insert tree_remove tree_get tree_shape tree_keys rb_valid tree_state_ok single_rotate double_rotate hset hget insert_agrees remove_agrees chain_scan_agrees
  dlist_empty dl_add dl_insert dl_unlink dl_pop_first dl_pop dl_forward dl_backward pool_alloc pool_release
  ranges bitset_empty bs_resize_pub bs_append bs_set_bit bs_bit_at bs_fill_bits bs_clear_bits bs_clear_all bs_fill_all bs_truncate bs_release bs_and bs_and_not bs_or bs_copy_from
  vec_grow_table hash_primes.

(* Extraction of the C15 oracle-threaded models (ExtrOcamlBasic only; numbers stay Coq's positive/Z/nat datatypes). *)
From Coq Require Extraction ExtrOcamlBasic.
From Verif Require Import OomTxn.OracleModel OomTxn.JitJointModel.
From Verif Require Jit.JitModel.
Extraction Blacklist List String Int.
Extraction "oomtxn.ml" OracleModel.vec_run OracleModel.vec_empty OracleModel.hash_run OracleModel.hash_empty OracleModel.hash_get
  OracleModel.hash_keys OracleModel.nbuckets OracleModel.pool_run OracleModel.pool_empty OracleModel.holder_run OracleModel.holder_empty
  OracleModel.vsize OracleModel.vec_step OracleModel.hash_step OracleModel.pool_add OracleModel.holder_step OracleModel.all_ok OracleModel.holder2_step OracleModel.holder2_init OracleModel.holder2_run OracleModel.builder_step OracleModel.bld_init OracleModel.vm_step OracleModel.vms_init OracleModel.ra_step OracleModel.ras_init OracleModel.ra_rewrite OracleModel.str_step OracleModel.str_empty OracleModel.arena_step OracleModel.arena_init OracleModel.ra_check JitJointModel.jit_alloc JitJointModel.jit_release JitJointModel.jit_shrink JitJointModel.jit_step JitJointModel.jst_init JitJointModel.valid_ptrb JitModel.release JitModel.shrink JitModel.init_state JitModel.fixed.

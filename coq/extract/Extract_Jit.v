(* Extraction of the C09 JitAllocator model (ExtrOcamlBasic only; numbers stay Coq's positive/Z datatypes). *)
From Coq Require Extraction ExtrOcamlBasic.
From Verif Require Import Jit.JitModel Jit.JitCursorModel Jit.JitSpec Jit.JitVmModel.
From Verif Require Import Containers.BitVecModel Containers.RangeIterModel.
From Verif Require Import Jit.JitFill.
Extraction Blacklist List String Int.
Extraction "jitmodel.ml" JitModel.init_state JitModel.alloc JitModel.release JitModel.shrink JitModel.query JitModel.reset
  JitModel.statistics JitModel.is_initialized JitModel.state_wsound JitModel.block_wsound JitModel.find_block JitModel.pool_gran
  JitModel.fixed JitModel.pinned JitModel.norm_gran JitModel.norm_bsize JitModel.norm_pools JitModel.size_to_pool JitModel.ideal_block_size JitModel.max_block_size
  JitCursorModel.init_cstate JitCursorModel.alloc_c JitCursorModel.release_c JitCursorModel.shrink_c JitCursorModel.reset_c
  JitCursorModel.get_cur JitSpec.spec_run JitVmModel.alloc_vm
  RangeIterModel.ranges BitVecModel.bv_fill BitVecModel.bv_clear BitVecModel.bv_index_of
  JitFill.fill_events JitFill.ev_bytes.

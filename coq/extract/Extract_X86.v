(* Extraction of the C01 x86 structural decoder, database matcher and judge (ExtrOcamlBasic only). *)
From Coq Require Extraction ExtrOcamlBasic.
From Verif Require Import X86.X86Model X86.X86Denote X86.X86Choice X86.X86Reencode X86.X86Shortest.
From VerifGen Require Import IsaX86Db.
Extraction Blacklist List String Int.
Extraction "x86.ml" IsaX86Db.bucket IsaX86Db.wbucket IsaX86Db.row_of IsaX86Db.db_rows X86Denote.judge X86Denote.other_names X86Denote.denote X86Denote.denote2 X86Choice.mod_check X86Reencode.reencode_check X86Shortest.extra_check
  X86Model.sdec X86Model.sdec_head X86Model.senc X86Model.wf X86Model.adm.

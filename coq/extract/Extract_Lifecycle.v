(* Extraction of the C16 lifecycle model (ExtrOcamlBasic only; numbers stay Coq's positive/N datatypes). *)
From Coq Require Extraction ExtrOcamlBasic.
From Verif Require Import Lifecycle.LifecycleModel.
Extraction Blacklist List String Int.
Extraction "lifecycle.ml" LifecycleModel.do_step LifecycleModel.trace LifecycleModel.observe LifecycleModel.state0 LifecycleModel.run.

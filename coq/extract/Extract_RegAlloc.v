(* Extraction of the C05 RaIR validator (ExtrOcamlBasic only; numbers stay Coq's nat/positive/N/Z datatypes). *)
From Coq Require Extraction ExtrOcamlBasic.
From Verif Require Import RegAlloc.RaIRModel RegAlloc.RwRuleModel RegAlloc.RwRuleProofs.
From VerifGen Require Import C05IdiomTags.
Extraction Blacklist List String Int.
Extraction "rair.ml" RaIRModel.validate_full RaIRModel.validate RaIRModel.infer RaIRModel.check RaIRModel.first_bad RaIRModel.check_pc
  RaIRModel.check_progress RaIRModel.infer_ranks RaIRModel.srun RaIRModel.trun RaIRModel.sa_step RaIRModel.id_mem RaIRModel.reg_untouched
  RwRuleModel.classify RwRuleModel.idiom_of RaIRModel.consec_ok RaIRModel.lists_ok RaIRModel.check_uses RaIRModel.defs_eqs RwRuleModel.alu_of_id C05IdiomTags.idiom_tags
  RwRuleProofs.alu_sem RwRuleProofs.alu_defined.

(* C08: extraction of the Builder model for the node-list correspondence harness. ExtrOcamlBasic only (bool/option/unit/list/prod);
   numbers stay the extracted positive/Z/nat datatypes. *)
From Coq Require Extraction ExtrOcamlBasic.
From Verif Require Import Builder.BuilderModel.
Extraction Blacklist List String Int.
Extraction "builder.ml"
  BuilderModel.init_state BuilderModel.step BuilderModel.replay BuilderModel.trace BuilderModel.lookup
  BuilderModel.final_type_size BuilderModel.kInvalidArgument BuilderModel.kInvalidLabel BuilderModel.kInvalidSection BuilderModel.kLabelAlreadyBound BuilderModel.kInvalidOperandSize BuilderModel.kInvalidState BuilderModel.kSentinelFuncEnd
  BuilderModel.kOptReserved BuilderModel.kAlignData BuilderModel.kBaseOpCapacity BuilderModel.kFullOpCapacity BuilderModel.kTypeUInt8.

(* C08: extraction of the Builder model for the node-list correspondence harness. ExtrOcamlBasic only (bool/option/unit/list/prod);
   numbers stay the extracted positive/Z/nat datatypes. *)
From Coq Require Extraction ExtrOcamlBasic.
From Verif Require Import Builder.BuilderModel X86Validate.ValidateModel Builder.ValidateBridge Builder.X86Dec.
From VerifGen Require Import X86Sigs.
Extraction Blacklist List String Int.
Extraction "builder.ml"
  BuilderModel.init_state BuilderModel.step BuilderModel.replay BuilderModel.trace BuilderModel.lookup
  BuilderModel.final_type_size BuilderModel.kInvalidArgument BuilderModel.kInvalidLabel BuilderModel.kInvalidSection BuilderModel.kLabelAlreadyBound BuilderModel.kInvalidOperandSize BuilderModel.kInvalidState BuilderModel.kSentinelFuncEnd
  BuilderModel.kOptReserved BuilderModel.kAlignData BuilderModel.kBaseOpCapacity BuilderModel.kFullOpCapacity BuilderModel.kTypeUInt8
  BuilderModel.op_count BuilderModel.capacity_of BuilderModel.replay_node
  X86Dec.emit_validated_x86 X86Dec.dec_x86 X86Sigs.x86_vtables.

(* Extraction of the C13 models over the tables of /repo's working tree (ExtrOcamlBasic only; numbers stay Coq's N/positive). *)
From Coq Require Extraction ExtrOcamlBasic.
From Coq Require Import ZArith.
From Verif Require Import InstNames.NameModel X86Validate.ValidateModel.
From VerifGen Require Import X86Names A64Names X86Sigs X86DbRows X86DbDecor.
Extraction Blacklist List String Int.
Extraction "instnames.ml" NameModel.name_of NameModel.formatted_name_of NameModel.alias_name_of NameModel.x86_string_to_inst_id
  NameModel.a64_string_to_inst_id NameModel.a64_string_to_inst_id_single_range
  X86Names.x86_names X86Names.x86_aliases A64Names.a64_names
  ValidateModel.validate X86Sigs.x86_vtables ValidateModel.rep_ops X86DbRows.x86_db_rows X86DbDecor.x86_db_rows_decorated
  BinInt.Z.of_N.

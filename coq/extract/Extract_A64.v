(* Extraction of the C02 specification (ExtrOcamlBasic only; numbers stay Coq's positive/Z datatypes). *)
From Coq Require Extraction ExtrOcamlBasic.
From Verif Require Import A64.A64Tmpl A64.A64Sem.
From VerifGen Require Import IsaA64Db.
Extraction Blacklist List String Int.
Extraction "a64spec.ml" A64Sem.spec_a64 IsaA64Db.rows IsaA64Db.alt_table IsaA64Db.mov_mn IsaA64Db.rows_excluded A64Sem.spec_row A64Tmpl.tmatch A64Tmpl.tfield.

(* Extraction of the C03 label/fixup model (ExtrOcamlBasic only; numbers stay Coq's positive/Z/nat datatypes). *)
From Coq Require Extraction ExtrOcamlBasic.
From Verif Require Import Codec.OffsetModel Labels.LabelsModel Labels.FlatModel Labels.SparseModel Labels.A64Dec Labels.A64DbTie.
Extraction Blacklist List String Int.
Extraction "labels.ml" LabelsModel.init LabelsModel.step LabelsModel.sec_image LabelsModel.cur_sec
  LabelsModel.x86_branch_form LabelsModel.x86_branch_form_unbound LabelsModel.decode_kind LabelsModel.kind_mask LabelsModel.x64_rip_field SparseModel.sinit SparseModel.sstep SparseModel.s_cur_buf SparseModel.sb_len A64Dec.a64_site_target A64Dec.a64_dec A64DbTie.a64_mn A64DbTie.a64_rid.

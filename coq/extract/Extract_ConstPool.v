(* Extraction of the C19 constant-pool model (ExtrOcamlBasic only; numbers stay Coq's positive/Z/nat datatypes). *)
From Coq Require Extraction ExtrOcamlBasic.
From Verif Require Import ConstPool.ConstPoolModel ConstPool.ConstPoolJudge ConstPool.ConstPoolPartition.
Extraction Blacklist List String Int.
Extraction "constpool.ml" ConstPoolModel.cp_init ConstPoolModel.cp_add ConstPoolModel.cp_fill
  ConstPoolModel.psize ConstPoolModel.palign ConstPoolModel.pmin ConstPoolModel.gaps ConstPoolModel.embed_layout ConstPoolModel.log_layout ConstPoolJudge.judge ConstPoolPartition.lost_step.

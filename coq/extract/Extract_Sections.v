(* Extraction of the C10 section-layout model (ExtrOcamlBasic only; numbers stay Coq's positive/Z datatypes). *)
From Coq Require Extraction ExtrOcamlBasic.
From Verif Require Import Sections.SectionModel Sections.ChunkModel Sections.JitReloc Sections.FlagsModel.
Extraction Blacklist List String Int.
Extraction "sections.ml" SectionModel.init_holder SectionModel.new_section SectionModel.section_by_name SectionModel.by_id
  SectionModel.update_id SectionModel.set_sizes SectionModel.flatten SectionModel.flatten_mid SectionModel.flatten_pinned SectionModel.code_size
  SectionModel.code_size_pinned SectionModel.copy_flat SectionModel.copy_section SectionModel.emit_call
  SectionModel.relocate_tail SectionModel.real_size SectionModel.jit_add SectionModel.new_section_cstr SectionModel.section_by_name_cstr
  ChunkModel.copy_flat_c ChunkModel.copy_section_c ChunkModel.jit_add_c ChunkModel.flat
  JitReloc.emit_call_bytes JitReloc.emit_abs_bytes JitReloc.emit_zero_bytes JitReloc.emit_code_bytes JitReloc.JZ_BYTES JitReloc.relocate_holder JitReloc.jit_add_reloc
  FlagsModel.add_flags FlagsModel.clear_flags FlagsModel.clear_flags_pinned FlagsModel.has_flag FlagsModel.TEXT_FLAGS FlagsModel.COPY_PAD_SECTION FlagsModel.COPY_PAD_TARGET FlagsModel.copy_flag.

(* Extraction of the C20 text models (ExtrOcamlBasic only; characters stay Coq's ascii datatype). *)
From Coq Require Extraction ExtrOcamlBasic.
From Verif Require Import Fmt.TextModel Fmt.X86FmtModel Fmt.X86InstModel Fmt.A64FmtModel Fmt.LogLine Fmt.LabelVirt Fmt.DataNode Fmt.X86Explain Fmt.RegList Fmt.VirtNames Fmt.FuncValue Fmt.LogOptions Fmt.Directives Fmt.A64Virt Fmt.FuncLine Fmt.Transcript Fmt.A64VirtRead Fmt.A32Regs.
Extraction Blacklist List String Int.
Extraction "fmt.ml" TextModel.fmt_num TextModel.parse_num TextModel.fmt_hexcol TextModel.parse_hexcol TextModel.finish_line
  TextModel.lex TextModel.render
  X86FmtModel.rt_of_code X86FmtModel.rt_code X86FmtModel.fmt_reg X86FmtModel.fmt_operand X86FmtModel.parse_operand X86FmtModel.canon_op
  X86InstModel.fmt_inst X86InstModel.parse_inst X86InstModel.canon_inst
  A64FmtModel.a64rt_of_code A64FmtModel.a64rt_code A64FmtModel.a64_fmt_operand A64FmtModel.parse_a64_operand
  A64FmtModel.a64_fmt_inst A64FmtModel.parse_a64_inst A64FmtModel.a64_canon_inst A64FmtModel.a64_canon_op LogLine.parse_log_line LabelVirt.fmt_label LabelVirt.x86_fmt_virt LabelVirt.parse_virt LabelVirt.parse_anon_label LabelVirt.fmt_mem_virt LabelVirt.fmt_inst_virt LabelVirt.fmt_func_ret LabelVirt.a64_fmt_virt DataNode.fmt_node_pos DataNode.fmt_data DataNode.parse_data DataNode.fmt_node X86Explain.fmt_inst_ex RegList.fmt_reglist RegList.a32_reg RegList.parse_reglist VirtNames.read_reg VirtNames.name_okb FuncValue.fmt_func_node FuncValue.x86_rp FuncValue.a64_rp FuncValue.parse_fvalue FuncValue.a64_pr FuncValue.fmt_fvalue LogOptions.log_line LogOptions.label_line LogOptions.parse_log_line_ind X86FmtModel.label_text Directives.fmt_embed_label Directives.fmt_embed_delta Directives.fmt_align_line Directives.parse_embed_label Directives.parse_embed_delta Directives.parse_align_line A64Virt.a64_fmt_inst_virt FuncLine.parse_func_line Transcript.parse_log Transcript.columns_bytes A64VirtRead.read_a64_virt A32Regs.a32_fmt_reg A32Regs.parse_a32_gp.

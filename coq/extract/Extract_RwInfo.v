(* Extraction of the C12 models of query_rw_info (x86 and AArch64) together with the tables generated from the working tree
   (ExtrOcamlBasic only; numbers stay Coq's positive/N/Z datatypes). *)
From Coq Require Extraction ExtrOcamlBasic.
From Verif Require Import RwInfo.RwModel RwInfo.FeatModel RwInfo.A64RwModel.
From VerifGen Require Import C12_X86RwTables C12_A64Tables.
Extraction Blacklist List String Int.
Extraction "rwinfo.ml" RwModel.query_rw_info RwModel.reg_group RwModel.reg_size RwModel.optZMask RwModel.optER RwModel.kMovOp RwModel.fR RwModel.fW RwModel.fRegM RwModel.fConsecutive RwModel.fZExt RwModel.fRegPhys RwModel.fMemPhys RwModel.fMemBaseRead RwModel.fMemBaseRW RwModel.fMemIndexRead RwModel.fMemIndexRW RwModel.rmFlagPextrw RwModel.rmFlagMovssMovsd RwModel.rmFlagFeatureIfRMI RwModel.kImplicitZ RwModel.kIdBad
  C12_X86RwTables.x86_tables FeatModel.query_features C12_X86RwTables.x86_feat_consts A64RwModel.a64_query_rw_info C12_A64Tables.a64_tabs.

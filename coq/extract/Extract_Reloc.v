(* Extraction of the C04 relocation model (ExtrOcamlBasic only; numbers stay Coq's positive/Z/nat datatypes). *)
From Coq Require Extraction ExtrOcamlBasic.
From Verif Require Import Codec.OffsetModel Reloc.RelocModel Reloc.X86Meaning X86.X86Model Labels.A64Dec.
Extraction Blacklist List String Int.
Extraction "reloc.ml" RelocModel.relocate RelocModel.known_rel32 X86Meaning.site_target X86Meaning.branch8_target A64Dec.a64_site_target.

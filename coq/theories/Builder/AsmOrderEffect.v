(* C08 - "same image BY EFFECT" as one equation.  [eff L] replaces a label delta by the bytes of the label difference taken from a label
   table L whenever L binds both labels in one section and the difference fits the field - what the delta contributes once relocation has
   run (DeltaEffect.delta_entry_effect).  For ANY program and any table of the right length, the section items the machine really holds
   are those of the effect program except that an expression-entry site holds zero placeholders (effect_fold_rel); and for two
   interleavings with the same per-section sequences the effect programs - hence the effect images - are EQUAL (effect_image_any). *)
From Coq Require Import ZArith List Bool Lia Arith Permutation.
From Verif Require Import Base.ZBits Codec.OffsetModel Labels.LabelsModel Labels.LabelsProofs Labels.LabelsExact Labels.LabelsAbs
  Builder.AsmOrder Builder.AsmOrderAny.
Import ListNotations.
Local Open Scope Z_scope.

Definition eff (L : list (option (nat * Z))) (o : sop) : sop :=
  match o with
  | SDelta l b sz =>
    match nth_error L l, nth_error L b with
    | Some (Some (ls, lo)), Some (Some (bs, bo)) =>
        if Nat.eqb ls bs && size_ok sz && delta_fits sz (lo - bo) then SRaw (dbytes sz (lo - bo)) else o
    | _, _ => o
    end
  | _ => o
  end.

(* an item of the machine against the item of the effect program: equal, or a zero placeholder where the effect has the difference's bytes *)
Definition site_rel (L : list (option (nat * Z))) (a e : gitem) : Prop :=
  a = e \/ exists l b sz ks lo bo, a = GRaw (zeros sz) /\ e = GRaw (dbytes sz (lo - bo)) /\ size_ok sz = true /\ delta_fits sz (lo - bo) = true /\
                                   nth_error L l = Some (Some (ks, lo)) /\ nth_error L b = Some (Some (ks, bo)).

Record srelE (L : list (option (nat * Z))) (st se : lst) : Prop := {
  se_len : l_len st = l_len se; se_binds : l_binds st = l_binds se; se_items : Forall2 (site_rel L) (l_items st) (l_items se);
  se_rels : filter absg (l_rels st) = filter absg (l_rels se)
}.

Lemma site_refl_list : forall L l, Forall2 (site_rel L) l l.
Proof. induction l; constructor; [now left|assumption]. Qed.

Lemma lprecheck_site : forall L l off a b, Forall2 (site_rel L) a b -> lprecheck l off a = lprecheck l off b.
Proof.
  intros L l off a b H. unfold lprecheck. induction H as [|x y a b R H IH]; [reflexivity|]. cbn [forallb]. rewrite IH. f_equal.
  destruct R as [->|(l0 & b0 & sz & ks & lo & bo & -> & -> & _)]; reflexivity.
Qed.

Lemma srelE_emitr : forall L st se its n rs rs', srelE L st se -> filter absg rs = filter absg rs' -> srelE L (lemitr st its n rs) (lemitr se its n rs').
Proof.
  intros L st se its n rs rs' [A B C D] E. constructor; cbn; [now rewrite A|exact B|apply Forall2_app; [exact C|apply site_refl_list]|].
  rewrite !filter_app, D, E. reflexivity.
Qed.

(* the same operation on related states (deltas included: its decision looks at the length and the binds only) *)
Lemma lstep_same : forall L nl k st se o, srelE L st se -> srelE L (lstep nl k st o) (lstep nl k se o).
Proof.
  intros L nl k st se o R. pose proof R as [A B C D].
  destruct o as [bs|n|kd rel l pre w0 post|l|l size addend pre post|l b sz]; cbn [lstep].
  - apply srelE_emitr; [exact R|reflexivity].
  - destruct (0 <=? n); [apply srelE_emitr; [exact R|reflexivity]|exact R].
  - destruct (negb (Nat.ltb l nl)); [exact R|]. destruct (negb (hole_ok kd w0)); [exact R|]. rewrite A, B.
    destruct (assoc l (l_binds se)); [destruct (write_offset _ _ _); [|exact R]|]; (apply srelE_emitr; [exact R|reflexivity]).
  - destruct (Nat.ltb l nl); [|exact R]. rewrite B. destruct (assoc l (l_binds se)); [exact R|].
    rewrite (lprecheck_site L l (l_len st) _ _ C), A. destruct (lprecheck l (l_len se) (l_items se)); [|exact R].
    constructor; cbn; [congruence|congruence|exact C|exact D].
  - destruct (negb (Nat.ltb l nl)); [exact R|]. destruct (negb (size_ok size)); [exact R|]. rewrite A. apply srelE_emitr; [exact R|reflexivity].
  - destruct (negb (Nat.ltb l nl && Nat.ltb b nl)); [exact R|]. destruct (negb (size_ok sz)); [exact R|]. rewrite A, B.
    destruct (assoc l (l_binds se)); [destruct (assoc b (l_binds se)); [destruct (delta_fits _ _); [|exact R]|]|];
      (apply srelE_emitr; [exact R|reflexivity]).
Qed.

Lemma dbytes_len : forall sz d, size_ok sz = true -> zlen (dbytes sz d) = sz.
Proof. intros sz d H. unfold zlen, dbytes. rewrite le_split_length, Z2Nat.id by (apply size_ok_nonneg; exact H). reflexivity. Qed.

(* THE RUN AGAINST ITS EFFECT PROGRAM, for any program and any label table of the right length *)
Theorem effect_fold_rel : forall L nl ns t, length L = nl -> tags_ok ns t -> NoDup (bound_labels t) ->
  forall k, (k < S ns)%nat ->
    srelE L (lfold nl k (proj k (res_from (run init (prelude nl ns)) t))) (lfold nl k (map (eff L) (proj k (res_from (run init (prelude nl ns)) t)))).
Proof.
  intros L nl ns t HLen. induction t as [|x t IH] using rev_ind; intros HT HN k Hk.
  - cbn. constructor; [reflexivity|reflexivity|constructor|reflexivity].
  - apply Forall_app in HT. destruct HT as [HT Hx]. inversion Hx as [|? ? Hkx _]; subst.
    assert (HN' : NoDup (bound_labels t)) by (rewrite bound_labels_snoc in HN; eapply NoDup_app_l'; exact HN).
    set (s0 := run init (prelude (length L) ns)) in *. specialize (IH HT HN').
    destruct x as [kx o]. cbn [fst snd] in *. rewrite res_from_snoc. cbn [fst snd]. rewrite !proj_snoc. cbn [fst snd].
    destruct (Nat.eqb kx k) eqn:EK; [|rewrite !app_nil_r; apply IH; exact Hk].
    apply Nat.eqb_eq in EK. subst kx. rewrite map_app. cbn [map]. rewrite !lfold_snoc. specialize (IH k Hk).
    set (sF := run s0 (expand t)) in *.
    destruct (J_run (length L) ns (res_from s0 t) (tags_res ns t s0 HT) ltac:(rewrite bound_labels_res; exact HN') (res_local (length L) ns t HT HN')) as [HJ _].
    fold s0 in HJ. unfold s0 in HJ at 1. rewrite run_prelude_res, run_app in HJ. fold s0 in HJ. fold sF in HJ.
    destruct (resolve_one sF o) as [bs|n|kd rel l pre w0 post|l|l size addend pre post|l b sz] eqn:ER;
      try (cbn [eff]; apply lstep_same; exact IH).
    cbn [eff]. destruct (nth_error L l) as [[[ls lo]|]|] eqn:EL; try (apply lstep_same; exact IH).
    destruct (nth_error L b) as [[[bs bo]|]|] eqn:EB; try (apply lstep_same; exact IH).
    destruct (Nat.eqb ls bs && size_ok sz && delta_fits sz (lo - bo)) eqn:EC; [|apply lstep_same; exact IH].
    apply andb_prop in EC. destruct EC as [EC FT]. apply andb_prop in EC. destruct EC as [ES EZ]. apply Nat.eqb_eq in ES. subst bs.
    apply resolve_keeps in ER. destruct ER as [_ NB].
    assert (LT : Nat.ltb l (length L) = true) by (apply Nat.ltb_lt, nth_error_Some; congruence).
    assert (LTb : Nat.ltb b (length L) = true) by (apply Nat.ltb_lt, nth_error_Some; congruence).
    cbn [lstep]. rewrite LT, LTb, EZ. cbn [andb negb].
    assert (NOTBOTH : match assoc l (l_binds (lfold (length L) k (proj k (res_from s0 t)))), assoc b (l_binds (lfold (length L) k (proj k (res_from s0 t)))) with
                      | Some _, Some _ => False | _, _ => True end).
    { rewrite (assoc_state (length L) ns _ sF k l HJ Hk), (assoc_state (length L) ns _ sF k b HJ Hk).
      destruct (nth_error (labels sF) l) as [[[ks1 o1]|]|] eqn:E1; try exact I.
      destruct (Nat.eqb ks1 k) eqn:K1; [|exact I].
      destruct (nth_error (labels sF) b) as [[[ks2 o2]|]|] eqn:E2; try exact I.
      destruct (Nat.eqb ks2 k) eqn:K2; [|exact I].
      apply Nat.eqb_eq in K1. apply Nat.eqb_eq in K2. subst. exact (NB k o1 o2 eq_refl eq_refl). }
    destruct IH as [A B C D].
    assert (GOAL : srelE L (lemitr (lfold (length L) k (proj k (res_from s0 t))) [GRaw (zeros sz)] sz
                                   [{| rg_sec := k; rg_off := l_len (lfold (length L) k (proj k (res_from s0 t))); rg_lead := 0; rg_size := sz; rg_trail := 0;
                                       rg_label := l; rg_addend := 0; rg_base := Some b |}])
                           (lemit (lfold (length L) k (map (eff L) (proj k (res_from s0 t)))) [GRaw (dbytes sz (lo - bo))] (zlen (dbytes sz (lo - bo))))).
    { constructor; cbn.
      - rewrite dbytes_len by exact EZ. now rewrite A.
      - exact B.
      - apply Forall2_app; [exact C|]. constructor; [|constructor]. right. exists l, b, sz, ls, lo, bo. repeat split; auto.
      - rewrite !filter_app, D. cbn. reflexivity. }
    destruct (assoc l (l_binds (lfold (length L) k (proj k (res_from s0 t))))); [destruct (assoc b (l_binds (lfold (length L) k (proj k (res_from s0 t))))); [contradiction|]|]; exact GOAL.
Qed.

Lemma orel_eff : forall L o1 o2, orel L o1 o2 -> eff L o1 = eff L o2.
Proof.
  intros L o1 o2 [->|(l & b & sz & ks & lo & bo & A & B & Z1 & FT & [[-> ->]|[-> ->]])]; [reflexivity| |];
    cbn [eff]; rewrite A, B, Nat.eqb_refl, Z1, FT; reflexivity.
Qed.

Lemma Forall2_map_eq : forall {A B} (f : A -> B) l m, Forall2 (fun a b => f a = f b) l m -> map f l = map f m.
Proof. intros A B f l m H. induction H; cbn; congruence. Qed.

(* SAME IMAGE BY EFFECT: the effect programs of two interleavings are EQUAL section by section, and the bytes each run really holds are
   the rendering of items that match the items of that one effect program except for zero placeholders at expression-entry sites *)
Theorem effect_image_any : forall nl ns t1 t2 offs,
  (forall k, proj k t1 = proj k t2) -> tags_ok ns t1 -> tags_ok ns t2 -> NoDup (bound_labels t1) ->
  let s0 := run init (prelude nl ns) in
  no_misfit s0 t1 -> no_misfit s0 t2 -> nowrap nl ns (res_from s0 t1) offs -> nowrap nl ns (res_from s0 t2) offs ->
  let s1 := run init ((prelude nl ns ++ expand t1) ++ [OResolve offs]) in
  let s2 := run init ((prelude nl ns ++ expand t2) ++ [OResolve offs]) in
  let L := labels s1 in
  (forall k, map (eff L) (proj k (res_from s0 t1)) = map (eff L) (proj k (res_from s0 t2))) /\
  forall k, (k < S ns)%nat ->
    let E := l_items (lfold nl k (map (eff L) (proj k (res_from s0 t1)))) in
    (exists i1, sec_image (refs s1) (s_items (nsec s1 k)) = gimage L offs i1 /\ Forall2 (site_rel L) i1 E) /\
    (exists i2, sec_image (refs s2) (s_items (nsec s2 k)) = gimage L offs i2 /\ Forall2 (site_rel L) i2 E).
Proof.
  intros nl ns t1 t2 offs HP T1 T2 N1 s0 M1 M2 W1 W2 s1 s2 L.
  assert (N2 : NoDup (bound_labels t2)) by (eapply bound_once_transfers; eassumption).
  destruct (order_irrelevant_any nl ns t1 t2 offs HP T1 T2 N1 M1 M2 W1 W2) as [HL _]. fold s1 s2 in HL.
  pose proof (final_char_any nl ns t1 offs T1 N1 W1) as F1. pose proof (final_char_any nl ns t2 offs T2 N2 W2) as F2.
  fold s0 in F1, F2. fold s1 in F1. fold s2 in F2.
  assert (HLen : length L = nl) by (exact (f_nl _ _ _ _ _ F1)).
  assert (EQ : forall k, map (eff L) (proj k (res_from s0 t1)) = map (eff L) (proj k (res_from s0 t2))).
  { intros k. apply Forall2_map_eq. eapply Forall2_impl'; [|exact (resolved_ops_agree nl ns t1 t2 offs HP T1 T2 N1 M1 M2 W1 W2 k)].
    intros a b. apply orel_eff. }
  split; [exact EQ|]. intros k Hk E.
  pose proof (effect_fold_rel L nl ns t1 HLen T1 N1 k Hk) as R1. pose proof (effect_fold_rel L nl ns t2 HLen T2 N2 k Hk) as R2. fold s0 in R1, R2.
  split.
  - exists (l_items (lfold nl k (proj k (res_from s0 t1)))). split; [apply (f_img _ _ _ _ _ F1); exact Hk|exact (se_items _ _ _ R1)].
  - exists (l_items (lfold nl k (proj k (res_from s0 t2)))). split; [unfold L; rewrite HL; apply (f_img _ _ _ _ _ F2); exact Hk|].
    unfold E. rewrite EQ. exact (se_items _ _ _ R2).
Qed.

(* non-vacuity on the pair of programs of AsmOrderAny.delta_order_matters: one effect program ([3] in section 0), machine bytes [3] and [0] *)
Example effect_image_example :
  let s0 := run init (prelude 2 1) in
  let L := labels (run init ((prelude 2 1 ++ expand ex_after) ++ [OResolve [0; 4096]])) in
  map (eff L) (proj 0 (res_from s0 ex_after)) = [SRaw [3]] /\ map (eff L) (proj 0 (res_from s0 ex_before)) = [SRaw [3]] /\
  proj 0 (res_from s0 ex_before) = [SDelta 1 0 1] /\
  gimage L [0; 4096] (l_items (lfold 2 0 (map (eff L) (proj 0 (res_from s0 ex_before))))) = [3] /\
  site_rel L (GRaw (zeros 1)) (GRaw (dbytes 1 (3 - 0))).
Proof.
  cbv zeta. repeat split; try (vm_compute; reflexivity).
  right. exists 1%nat, 0%nat, 1, 1%nat, 3, 0. repeat split; vm_compute; reflexivity.
Qed.

(* ------------------------------------------------------------------ the relocation entries of ABSOLUTE references are order independent for every
   program (expression entries are the path-dependent part: one per delta that survives resolution) *)
Definition is_abs_b (re : reloc) : bool := match rl_type re with RelToAbs => true | Expr _ _ => false end.

Lemma Permutation_filter' : forall {A} (f : A -> bool) l l', Permutation l l' -> Permutation (filter f l) (filter f l').
Proof.
  intros A f l l' H. induction H; cbn.
  - constructor.
  - destruct (f x); [constructor|]; assumption.
  - destruct (f x), (f y); try constructor; apply Permutation_refl.
  - eapply Permutation_trans; eassumption.
Qed.

Lemma filter_map' : forall {A B} (f : B -> bool) (g : A -> B) l, filter f (map g l) = map g (filter (fun x => f (g x)) l).
Proof. intros A B f g l. induction l as [|x l IH]; [reflexivity|]. cbn. destruct (f (g x)); cbn; now rewrite IH. Qed.

Lemma abs_rel_final : forall L rg, is_abs_b (rel_final L rg) = absg rg.
Proof. intros L rg. unfold rel_final, is_abs_b, absg. destruct (rg_base rg); reflexivity. Qed.

Theorem abs_entries_any : forall nl ns t1 t2 offs,
  (forall k, proj k t1 = proj k t2) -> tags_ok ns t1 -> tags_ok ns t2 -> NoDup (bound_labels t1) ->
  let s0 := run init (prelude nl ns) in
  no_misfit s0 t1 -> no_misfit s0 t2 -> nowrap nl ns (res_from s0 t1) offs -> nowrap nl ns (res_from s0 t2) offs ->
  Permutation (filter is_abs_b (relocs (run init ((prelude nl ns ++ expand t1) ++ [OResolve offs]))))
              (filter is_abs_b (relocs (run init ((prelude nl ns ++ expand t2) ++ [OResolve offs])))).
Proof.
  intros nl ns t1 t2 offs HP T1 T2 N1 s0 M1 M2 W1 W2.
  assert (N2 : NoDup (bound_labels t2)) by (eapply bound_once_transfers; eassumption).
  destruct (order_irrelevant_any nl ns t1 t2 offs HP T1 T2 N1 M1 M2 W1 W2) as [HL _].
  pose proof (final_char_any nl ns t1 offs T1 N1 W1) as F1. pose proof (final_char_any nl ns t2 offs T2 N2 W2) as F2. fold s0 in F1, F2.
  assert (ER : filter absg (allrels nl ns (res_from s0 t1)) = filter absg (allrels nl ns (res_from s0 t2))).
  { unfold allrels. rewrite !filter_flat_map. apply flat_map_seq_ext. intros k Hk.
    pose proof (resolved_fold_rel nl ns t1 T1 N1 M1 k ltac:(lia)) as R1. pose proof (resolved_fold_rel nl ns t2 T2 N2 M2 k ltac:(lia)) as R2.
    fold s0 in R1, R2. rewrite <- HP in R2. rewrite (sr_rels _ _ R1), (sr_rels _ _ R2). reflexivity. }
  eapply Permutation_trans; [apply Permutation_filter'; exact (f_rel _ _ _ _ _ F1)|].
  eapply Permutation_trans; [|apply Permutation_sym, Permutation_filter'; exact (f_rel _ _ _ _ _ F2)].
  rewrite !filter_map'. rewrite <- HL.
  assert (FE : forall L l, filter (fun x => is_abs_b (rel_final L x)) l = filter absg l).
  { intros L l. apply filter_ext. intros a. apply abs_rel_final. }
  rewrite !FE.
  rewrite ER. apply Permutation_refl.
Qed.

(* ------------------------------------------------------------------ one hypothesis less: "no address wraps" for the second interleaving follows from
   the first (reference sites and bind offsets are the same in both resolved forms) *)
Lemma irel_in_ref : forall a b g, Forall2 irel a b -> (In (GRef g) a <-> In (GRef g) b).
Proof.
  intros a b g H. induction H as [|x y a b R H IH]; [tauto|]. cbn [In]. rewrite IH.
  destruct R as [->|(bs & sz & -> & -> & _)]; [tauto|]. split; intros [X|X]; try discriminate; now right.
Qed.

Theorem nowrap_transfers : forall nl ns t1 t2 offs,
  (forall k, proj k t1 = proj k t2) -> tags_ok ns t1 -> tags_ok ns t2 -> NoDup (bound_labels t1) ->
  let s0 := run init (prelude nl ns) in
  no_misfit s0 t1 -> no_misfit s0 t2 -> nowrap nl ns (res_from s0 t1) offs -> nowrap nl ns (res_from s0 t2) offs.
Proof.
  intros nl ns t1 t2 offs HP T1 T2 N1 s0 M1 M2 W1 k Hk.
  assert (N2 : NoDup (bound_labels t2)) by (eapply bound_once_transfers; eassumption).
  pose proof (resolved_fold_rel nl ns t1 T1 N1 M1 k Hk) as R1. pose proof (resolved_fold_rel nl ns t2 T2 N2 M2 k Hk) as R2.
  fold s0 in R1, R2. rewrite <- HP in R2. destruct (W1 k Hk) as [WA WB]. split.
  - intros g Hg. apply WA. apply (irel_in_ref _ _ g (sr_items _ _ R1)). apply (irel_in_ref _ _ g (sr_items _ _ R2)). exact Hg.
  - intros l off Ha. apply (WB l off). rewrite (sr_binds _ _ R1), <- (sr_binds _ _ R2). exact Ha.
Qed.

(* the headline statement with the hypotheses stated for ONE interleaving wherever that is possible (tags and "no delta refused for its
   range" remain per run: they are properties of the run, not of the per-section sequences) *)
Corollary effect_image_any' : forall nl ns t1 t2 offs,
  (forall k, proj k t1 = proj k t2) -> tags_ok ns t1 -> tags_ok ns t2 -> NoDup (bound_labels t1) ->
  let s0 := run init (prelude nl ns) in
  no_misfit s0 t1 -> no_misfit s0 t2 -> nowrap nl ns (res_from s0 t1) offs ->
  let s1 := run init ((prelude nl ns ++ expand t1) ++ [OResolve offs]) in
  let s2 := run init ((prelude nl ns ++ expand t2) ++ [OResolve offs]) in
  let L := labels s1 in
  labels s1 = labels s2 /\ unresolved s1 = unresolved s2 /\
  Permutation (filter is_abs_b (relocs s1)) (filter is_abs_b (relocs s2)) /\
  (forall k, map (eff L) (proj k (res_from s0 t1)) = map (eff L) (proj k (res_from s0 t2))) /\
  forall k, (k < S ns)%nat ->
    s_len (nsec s1 k) = s_len (nsec s2 k) /\
    let E := l_items (lfold nl k (map (eff L) (proj k (res_from s0 t1)))) in
    (exists i1, sec_image (refs s1) (s_items (nsec s1 k)) = gimage L offs i1 /\ Forall2 (site_rel L) i1 E) /\
    (exists i2, sec_image (refs s2) (s_items (nsec s2 k)) = gimage L offs i2 /\ Forall2 (site_rel L) i2 E).
Proof.
  intros nl ns t1 t2 offs HP T1 T2 N1 s0 M1 M2 W1 s1 s2 L.
  pose proof (nowrap_transfers nl ns t1 t2 offs HP T1 T2 N1 M1 M2 W1) as W2. fold s0 in W2.
  destruct (order_irrelevant_any nl ns t1 t2 offs HP T1 T2 N1 M1 M2 W1 W2) as [HL HK].
  destruct (effect_image_any nl ns t1 t2 offs HP T1 T2 N1 M1 M2 W1 W2) as [EQ HE].
  split; [exact HL|]. split; [exact (order_irrelevant_any_unresolved nl ns t1 t2 offs HP T1 T2 N1 M1 M2 W1 W2)|].
  split; [exact (abs_entries_any nl ns t1 t2 offs HP T1 T2 N1 M1 M2 W1 W2)|]. split; [exact EQ|].
  intros k Hk. split; [exact (proj1 (HK k Hk))|exact (HE k Hk)].
Qed.
